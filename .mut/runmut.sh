#!/bin/sh
# usage: runmut.sh Cxx diff...   (harness only: no Coq rebuild)
P=$1; shift
for D in "$@"; do
  S=$(mktemp -d /tmp/pyc_mut.XXXXXX)
  rsync -a --exclude .git --exclude '*.egg-info' /tmp/wr_base/ $S/
  (cd $S && patch -p1 -s < $D) || { echo "PATCH-FAILED $D"; rm -rf $S; continue; }
  T=$(/tmp/vb_base/tools/runtests.sh $S | tail -1)
  R=$(cd /tmp/vb_base && VERIF_REPO=$S /venv/bin/python tools/runprop.py $P ${SEED:-0} 2>&1 | grep -v "^distribution\|^evaluations\|WARNING" | cut -c1-260 | head -${LINES_MAX:-8})
  echo "=== $(basename $D) tests[$T]"; echo "$R"
  rm -rf $S
done
