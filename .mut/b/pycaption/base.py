import os
from collections import defaultdict
from datetime import timedelta
from numbers import Number

from .exceptions import CaptionReadError, CaptionReadTimingError

# `und` a special identifier for an undetermined language according to ISO 639-2
DEFAULT_LANGUAGE_CODE = os.getenv("PYCAPTION_DEFAULT_LANG", "und")


def force_byte_string(content):
    try:
        return content.encode("UTF-8")
    except UnicodeEncodeError:
        raise RuntimeError("Invalid content encoding")
    except UnicodeDecodeError:
        return content


class CaptionConverter:
    def __init__(self, captions=None):
        self.captions = captions if captions else []

    def read(self, content, caption_reader):
        try:
            self.captions = caption_reader.read(content)
        except AttributeError as e:
            raise Exception(e)
        return self

    def write(self, caption_writer):
        try:
            return caption_writer.write(self.captions)
        except AttributeError as e:
            raise Exception(e)


class BaseReader:
    def __init__(self, *args, **kwargs):
        pass

    def detect(self, content):
        if content:
            return True
        else:
            return False

    def read(self, content):
        return CaptionSet({DEFAULT_LANGUAGE_CODE: []})


class BaseWriter:
    def __init__(
        self, relativize=True, video_width=None, video_height=None, fit_to_screen=True
    ):
        """
        Initialize writer with the given parameters.

        :param relativize: If True (default), converts absolute positioning
            values (e.g. px) to percentage. ATTENTION: WebVTT does not support
            absolute positioning. If relativize is set to False and it finds
            an absolute positioning parameter for a given caption, it will
            ignore all positioning for that cue and show it in the default
            position.
        :param video_width: The width of the video for which the captions being
            converted were made. This is necessary for relativization.
        :param video_height: The height of the video for which the captions
            being converted were made. This is necessary for relativization.
        :param fit_to_screen: If extent is not set or
            if origin + extent > 100%, (re)calculate it based on origin.
            It is a pycaption fix for caption files that are technically valid
            but contains inconsistent settings that may cause long captions to
            be cut out of the screen.
        """
        self.relativize = relativize
        self.video_width = video_width
        self.video_height = video_height
        self.fit_to_screen = fit_to_screen

    def _relativize_and_fit_to_screen(self, layout_info):
        if layout_info:
            if self.relativize:
                # Transform absolute values (e.g. px) into percentages
                layout_info = layout_info.as_percentage_of(
                    self.video_width, self.video_height
                )
            if self.fit_to_screen:
                # Make sure origin + extent <= 100%
                layout_info = layout_info.fit_to_screen()
        return layout_info

    def write(self, content):
        return content


class Style:
    def __init__(self):
        pass


class CaptionNode:
    """
    A single node within a caption, representing either
    text, a style, or a linebreak.

    Rules:
        1. All nodes should have the property layout_info set.
        The value None means specifically that no positioning information
        should be specified. Each reader is to supply its own default
        values (if necessary) when reading their respective formats.
    """

    TEXT = 1
    # When and if this is extended, it might be better to turn it into a
    # property of the node, not a type of node itself.
    STYLE = 2
    BREAK = 3

    def __init__(
        self, type_, layout_info=None, content=None, start=None, position=None
    ):
        """
        :type type_: int
        :type layout_info: Layout
        """
        self.type_ = type_
        self.content = content
        self.position = position

        # Boolean. Marks the beginning/ end of a Style node.
        self.start = start
        self.layout_info = layout_info

    def __repr__(self):
        t = self.type_

        if t == CaptionNode.TEXT:
            return repr(self.content)
        elif t == CaptionNode.BREAK:
            return repr("BREAK")
        elif t == CaptionNode.STYLE:
            return repr(f"STYLE: {self.start} {self.content}")
        else:
            raise RuntimeError(f"Unknown node type: {t}")

    @staticmethod
    def create_text(text, layout_info=None, position=None):
        return CaptionNode(
            type_=CaptionNode.TEXT,
            layout_info=layout_info,
            position=position,
            content=text,
        )

    @staticmethod
    def create_style(start, content, layout_info=None):
        return CaptionNode(
            type_=CaptionNode.STYLE,
            layout_info=layout_info,
            content=content,
            start=start,
        )

    @staticmethod
    def create_break(layout_info=None, content=None):
        return CaptionNode(
            type_=CaptionNode.BREAK, layout_info=layout_info, content=content
        )


class Caption:
    """
    A single caption, including the time and styling information
    for its display.
    """

    def __init__(self, start, end, nodes, style=None, layout_info=None):
        """
        Initialize the Caption object
        :param start: The start time in microseconds
        :type start: Number
        :param end: The end time in microseconds
        :type end: Number
        :param nodes: A list of CaptionNodes
        :type nodes: list
        :param style: A dictionary with CSS-like styling rules
        :type style: dict
        :param layout_info: A Layout object with the necessary positioning
            information
        :type layout_info: Layout
        """
        if not isinstance(start, Number):
            raise CaptionReadTimingError(
                "Captions must be initialized with a" " valid start time"
            )
        if not isinstance(end, Number):
            raise CaptionReadTimingError(
                "Captions must be initialized with a" " valid end time"
            )
        if not nodes:
            raise CaptionReadError("Node list cannot be empty")
        self.start = start
        self.end = end
        self.nodes = nodes
        # a fresh dict per caption: a `{}` default would be shared by all captions
        self.style = {} if style is None else style
        self.layout_info = layout_info

    def is_empty(self):
        return len(self.nodes) == 0

    def format_start(self, msec_separator=None):
        """
        Format the start time value in milliseconds into a string
        value suitable for some of the supported output formats (ex.
        SRT, DFXP).
        """
        return self._format_timestamp(self.start, msec_separator)

    def format_end(self, msec_separator=None):
        """
        Format the end time value in milliseconds into a string value suitable
        for some of the supported output formats (ex. SRT, DFXP).
        """
        return self._format_timestamp(self.end, msec_separator)

    def __repr__(self):
        return repr(f"{self.format_start()} --> {self.format_end()}\n{self.get_text()}")

    def get_text_nodes(self):
        """
        Get the text of the caption.
        """

        def get_text_for_node(node):
            if node.type_ == CaptionNode.TEXT:
                return node.content
            if node.type_ == CaptionNode.BREAK:
                return "\n"
            return ""

        return [get_text_for_node(node) for node in self.nodes]

    def get_text(self):
        text_nodes = self.get_text_nodes()
        return "".join(text_nodes).strip()

    def _format_timestamp(self, microseconds, msec_separator=None):
        duration = timedelta(microseconds=microseconds)
        hours, rem = divmod(duration.seconds, 3600)
        minutes, seconds = divmod(rem, 60)
        milliseconds = f"{duration.microseconds // 1000:03d}"
        timestamp = (
            f"{hours:02d}:{minutes:02d}:{seconds:02d}"
            f"{msec_separator or '.'}{milliseconds:.3s}"
        )
        return timestamp


class CaptionList(list):
    """A list of captions with a layout object attached to it"""

    def __init__(self, iterable=None, layout_info=None):
        """
        :param iterable: An iterator used to populate the caption list
        :param Layout layout_info: A Layout object with the positioning info
        """
        self.layout_info = layout_info
        args = [iterable] if iterable else []
        super().__init__(*args)

    def __getslice__(self, i, j):
        return CaptionList(list.__getslice__(self, i, j), layout_info=self.layout_info)

    def __getitem__(self, y):
        item = list.__getitem__(self, y)
        if isinstance(item, Caption):
            return item
        return CaptionList(item, layout_info=self.layout_info)

    def __add__(self, other):
        add_is_safe = (
            not hasattr(other, "layout_info")
            or not other.layout_info
            or self.layout_info == other.layout_info
        )
        if add_is_safe:
            return CaptionList(list.__add__(self, other), layout_info=self.layout_info)
        else:
            raise ValueError(
                "Cannot add CaptionList objects with different layout_info"
            )

    def __mul__(self, other):
        return CaptionList(list.__mul__(self, other), layout_info=self.layout_info)

    __rmul__ = __mul__


class CaptionSet:
    """
    A set of captions in potentially multiple languages,
    all representing the same underlying content.

    The .layout_info attribute, keeps information that should be inherited
    by all the children.
    """

    def __init__(self, captions, styles=None, layout_info=None):
        """
        :param captions: A dictionary of the format {'language': CaptionList}
        :param styles: A dictionary with CSS-like styling rules
        :param Layout layout_info: A Layout object with the positioning info
        """
        self._captions = captions
        # a fresh dict per caption set: a `{}` default would be shared by all sets
        self._styles = {} if styles is None else styles
        self.layout_info = layout_info

    def set_captions(self, lang, captions):
        self._captions[lang] = captions

    def get_languages(self):
        return list(self._captions.keys())

    def get_captions(self, lang):
        return self._captions.get(lang, [])

    def add_style(self, selector, rules):
        """
        :param selector: The selector indicating the elements to which the
            rules should be applied.
        :param rules: A dictionary with CSS-like styling rules.
        """
        self._styles[selector] = rules

    def get_style(self, selector):
        """
        Returns a dictionary with CSS-like styling rules for a given selector.
        :param selector: The selector whose rules should be returned (e.g. an
            element or class name).
        """
        return self._styles.get(selector, {})

    def get_styles(self):
        return sorted(self._styles.items())

    def set_styles(self, styles):
        self._styles = styles

    def is_empty(self):
        return all([len(captions) == 0 for captions in list(self._captions.values())])

    def set_layout_info(self, lang, layout_info):
        self._captions[lang].layout_info = layout_info

    def get_layout_info(self, lang):
        caption_list = self._captions.get(lang)
        if caption_list:
            return caption_list.layout_info
        return None

    def adjust_caption_timing(self, offset=0, rate_skew=1.0):
        """
        Adjust the timing according to offset and rate_skew.
        Skew is applied first, then offset.

        e.g. if skew == 1.1, and offset is 5, a caption originally
        displayed from 10-11 seconds would instead be at 16-17.1
        """
        # a Caption object listed under several languages is adjusted once
        adjusted = set()
        for lang in self.get_languages():
            captions = self.get_captions(lang)
            out_captions = CaptionList()
            for caption in captions:
                if True:
                    adjusted.add(id(caption))
                    caption.start = caption.start * rate_skew + offset
                    caption.end = caption.end * rate_skew + offset
                if caption.start >= 0:
                    out_captions.append(caption)
            self.set_captions(lang, out_captions)


# Functions
def merge_concurrent_captions(caption_set):
    """Merge captions that have the same start and end times"""
    for lang in caption_set.get_languages():
        captions = caption_set.get_captions(lang)
        last_caption = None
        concurrent_captions = CaptionList()
        merged_captions = CaptionList()
        for caption in captions:
            if last_caption:
                last_timespan = last_caption.start, last_caption.end
                current_timespan = caption.start, caption.end
                if current_timespan == last_timespan:
                    concurrent_captions.append(caption)
                    last_caption = caption
                    continue
                else:
                    merged_captions.append(merge(concurrent_captions))
            concurrent_captions = [caption]
            last_caption = caption

        if concurrent_captions:
            merged_captions.append(merge(concurrent_captions))
        if merged_captions:
            caption_set.set_captions(lang, merged_captions)
    return caption_set


def merge(captions):
    """
    Merge list of captions into one caption. The start/end times from the first
    caption are kept.
    """
    new_nodes = []
    for caption in captions:
        if new_nodes:
            new_nodes.append(CaptionNode.create_break())
        for node in caption.nodes:
            new_nodes.append(node)
    caption = Caption(captions[0].start, captions[0].end, new_nodes, captions[0].style)
    return caption
