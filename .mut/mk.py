import sys, os, subprocess, shutil
REPO="/tmp/wr_base"
OUT="/tmp/vb_base/design/mutants"
def mk(name, path, edits):
    src=open(os.path.join(REPO,path)).read()
    new=src
    for a,b in edits:
        assert new.count(a)==1, (name, a, new.count(a))
        new=new.replace(a,b)
    os.makedirs("a/"+os.path.dirname(path),exist_ok=True); os.makedirs("b/"+os.path.dirname(path),exist_ok=True)
    open("a/"+path,"w").write(src); open("b/"+path,"w").write(new)
    p=subprocess.run(["diff","-u","a/"+path,"b/"+path],capture_output=True,text=True)
    open(os.path.join(OUT,name+".diff"),"w").write(p.stdout)
    print(name, len(p.stdout.splitlines()))
B="pycaption/base.py"
LOOP='''        captions = caption_set.get_captions(lang)
        last_caption = None
        concurrent_captions = CaptionList()
        merged_captions = CaptionList()
        for caption in captions:
            if last_caption:
                last_timespan = last_caption.start, last_caption.end
                current_timespan = caption.start, caption.end
                if current_timespan == last_timespan:
                    concurrent_captions.append(caption)
                    last_caption = caption
                    continue
                else:
                    merged_captions.append(merge(concurrent_captions))
            concurrent_captions = [caption]
            last_caption = caption

        if concurrent_captions:
            merged_captions.append(merge(concurrent_captions))
'''
mk("C19_M1_global_groups", B, [(LOOP, '''        captions = caption_set.get_captions(lang)
        groups = {}
        for caption in captions:
            groups.setdefault((caption.start, caption.end), []).append(caption)
        merged_captions = CaptionList()
        for group in groups.values():
            merged_captions.append(merge(group))
''')])
mk("C19_M2_type_sensitive_span", B, [("                if current_timespan == last_timespan:", "                if repr(current_timespan) == repr(last_timespan):")])
mk("C19_M3_language_deleted", B, [("            self.set_captions(lang, out_captions)\n", "            self.set_captions(lang, out_captions)\n            if not out_captions:\n                del self._captions[lang]\n")])
mk("C19_M4_keep_slightly_negative", B, [("                if caption.start >= 0:", "                if caption.start > -0.0009:")])
mk("C19_M6_returns_stale_copy", B, [('    """Merge captions that have the same start and end times"""\n    for lang', '    """Merge captions that have the same start and end times"""\n    from copy import deepcopy\n    stale = deepcopy(caption_set)\n    for lang'), ("            caption_set.set_captions(lang, merged_captions)\n    return caption_set", "            caption_set.set_captions(lang, merged_captions)\n    return stale")])
mk("C19_M10_no_break_before_leading_break", B, [("        if new_nodes:\n            new_nodes.append(CaptionNode.create_break())", "        if new_nodes and caption.nodes[0].type_ != CaptionNode.BREAK:\n            new_nodes.append(CaptionNode.create_break())")])
mk("C19_M11_drops_style_nodes_of_later_captions", B, [("        for node in caption.nodes:\n            new_nodes.append(node)", "        for node in caption.nodes:\n            if node.type_ == CaptionNode.STYLE and caption is not captions[0]:\n                continue\n            new_nodes.append(node)")])
mk("C19_harmless_R1_side_effect_free_merge", B, [('    """Merge captions that have the same start and end times"""\n    for lang', '    """Merge captions that have the same start and end times"""\n    caption_set = CaptionSet(dict(caption_set._captions), caption_set._styles, caption_set.layout_info)\n    for lang')])
mk("C19_harmless_R2_merged_nodes_are_copies", B, [("        for node in caption.nodes:\n            new_nodes.append(node)", "        for node in caption.nodes:\n            new_nodes.append(copy(node) if len(captions) > 1 else node)"), ("import os\n", "import os\nfrom copy import copy\n")])
mk("C19_harmless_R3_break_with_empty_content", B, [("        if new_nodes:\n            new_nodes.append(CaptionNode.create_break())", "        if new_nodes:\n            new_nodes.append(CaptionNode.create_break(content=''))")])
mk("C19_harmless_R4_adjust_fresh_caption_objects", B, [("                if caption.start >= 0:\n                    out_captions.append(caption)", "                if caption.start >= 0:\n                    out_captions.append(Caption(caption.start, caption.end, caption.nodes, caption.style, caption.layout_info))")])
mk("C19_sort_by_start", B, [("            self.set_captions(lang, out_captions)\n", "            out_captions.sort(key=lambda c: c.start)\n            self.set_captions(lang, out_captions)\n")])
mk("C19_revert_fix_adjusted_set", B, [("                if id(caption) not in adjusted:", "                if True:")])
