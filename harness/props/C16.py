"""C16 - roll-up and paint-on SCC text is conserved and ordered.

Inputs: programs of 1-8 rows in roll-up (depth 2, 3, 4) and paint-on mode, with, inside ONE program: the mode command
re-sent in front of a row (`RU CR PAC text` and `CR RU PAC text`, the shape of broadcast files), depth changes, switches
roll-up <-> paint-on, rows with or without their own flush (carriage return / resume-direct-captioning; rows without one
accumulate in the displayed buffer on different screen rows), rows with or without a preamble address code, preambles of
every style / indent / tab offset, rows continued on the next timecode line, several rows per line, Erase-Displayed-Memory
in the middle or at the end, control codes doubled / single / mixed per code; row text of 1-32 cells from EVERY code of
the basic / special / extended tables (extended after a stand-in) incl. leading blanks, double blanks, the transparent
space, trailing blanks, characters erased by a backspace; drop / non-drop timecode; inter-line gaps 0..300 frames.
Wave 7: rows WITHOUT a displayable character (only null padding 8080 / only blanks / only control codes / a character
erased again) at the first, a middle and the last position of a passage and right in front of a mode switch (counted under
shapes filler_row_*): they show nothing and the captions around them must still be conserved, ordered and chained.
NOT generated (counted nowhere because never produced): mid-row codes inside a row (their blank cell makes the expected
text ambiguous; they are covered by C05), offsets, simulate_roll_up (for the judged read).
Options and histories: every program is read with a `lang` drawn from LANGS; a third by a reader OBJECT that has already
read 1-2 other files (mostly rejected ones: a later timecode written hh:mm:ss.ff, a row of more than 32 columns; with
their own lang / offset / simulate_roll_up) - the expectation depends on neither.
Observation (public API): reader.read(stream, lang=...) -> captions (start, end, text with breaks).
Property oracle: Coq ok_c16_screens (coq/spec/SpecScc16.v) on the implementation's (start, end, text): every character
once and in order, rows kept together, ordered, start < end, each screen ends where the next begins, and captions share a
span only inside one displayed buffer (the number of distinct screens equals the number of buffers the program displays).
Correspondence (at the level the property fixes): (start, end, text) of the implementation vs the full extracted decoder
model (request 600, 2^-10 us); the event-level timing model rp_read (request 1602) on the program's flush events vs the
implementation's screens.
"""
import impl
import sccgen as g
import sccobs
from wire import Ok, Err, oracle_batch, oracle1, r_result, r_q

TABLES = ("GenScc.v",)
RU = {"roll2": g.RU2, "roll3": g.RU3, "roll4": g.RU4}


def tc_fields(frame, drop):
    s = frame // 30
    return [s // 3600, (s // 60) % 60, s % 60, drop, frame % 30]


def gen_program(rng):
    nrows = rng.randint(1, 8)
    doubled = rng.choice([True, True, False, "mixed"])
    dd = (lambda: rng.random() < 0.5) if doubled == "mixed" else (lambda: bool(doubled))
    drop = rng.random() < 0.5
    mode = rng.choice(["roll2", "roll3", "roll4", "paint", "paint"])
    frame = rng.choice([0, 30, 30 * 3600, 30 * 7261 + 7])
    lines = []          # (frame, words)
    cur = []
    rows = []           # expected row texts (trailing blanks are not shown)
    buf_text = []       # per displayed buffer: does it show a visible character (a buffer of blanks yields no caption)
    buf_cells = []      # per displayed buffer: does it hold any cell (blank cells included)
    buf_rows = []       # screen rows used in the displayed buffer
    events = []         # flush events [kind, (line index, k)] for the event-level model; None if not expressible
    expressible = True
    t0 = None
    nonempty = False    # the active buffer holds text
    shapes = {}
    last_pos = None

    def pos_now():
        return (len(lines), len(cur))

    def count(k):
        shapes[k] = shapes.get(k, 0) + 1

    # backspaces in 40% of the programs only: they are outside the domain of the independent 608 reading (sent608)
    p_bs = 0.04 if rng.random() < 0.4 else 0.0
    # wave 7: rows WITHOUT any displayable character in a quarter of the programs (at the first / a middle / the last
    # position of a passage, and right in front of a mode switch): only null-padding words 8080, only blanks, only
    # control codes (mode command / carriage return / preamble code and nothing else), a character erased again. Such a
    # row may leave an (empty) text node in the buffer; it shows nothing, and the captions around it must still chain.
    p_filler = rng.choice([0.0, 0.0, 0.0, 0.3])
    force_switch = False
    for i in range(nrows):
        toks = g.rand_tokens(rng, rng.choice([1, 2, 3, 5, 8, 13, 20, 31, 32, rng.randint(1, 32)]), p_special=0.07,
                             p_ext=0.09, p_bs=p_bs, blank_ends=0.35, sp9=True)
        filler = None
        if rng.random() < p_filler:
            filler = rng.choice(["8080", "8080", "blanks", "codes-only", "erased"])
            count("filler_row_" + filler + ("_first" if i == 0 else "_last" if i == nrows - 1 else "_middle"))
            toks = {"8080": [], "codes-only": [], "blanks": [" "] * rng.choice([1, 2, 3, 4]),
                    "erased": [rng.choice(g.BASIC_VISIBLE), ("bs",)]}[filler]
        text = g.tokens_text(toks).rstrip()
        # ---- mode command in front of the row?
        cmd = None
        if i == 0:
            cmd = mode
        else:
            r = rng.random()
            if force_switch:
                r = 0.40                                               # a mode switch right after a filler-only row
                count("mode_switch_after_filler_row")
                force_switch = False
            if r < 0.25:
                cmd = mode                                             # re-sent
                count("mode_resent")
            elif r < 0.35 and mode.startswith("roll"):
                mode = rng.choice([m for m in RU if m != mode])        # depth change
                cmd = mode
                count("depth_change")
            elif r < 0.47:
                mode = "paint" if mode.startswith("roll") else rng.choice(list(RU))
                cmd = mode
                count("mode_switch")
        is_roll = mode.startswith("roll")
        own_flush = True
        if cmd is None and rng.random() < (0.1 if is_roll else 0.3):
            own_flush = False                                          # accumulates in the displayed buffer
        ws = []
        cr = is_roll and own_flush
        cr_first = cr and cmd is not None and rng.random() < 0.3
        if cr_first:
            count("cr_before_mode_command")
        # ---- the words, recording flush events
        def emit_cmd():
            nonlocal nonempty, t0, expressible
            w = RU[mode] if is_roll else g.RDC
            p = (pos_now()[0], pos_now()[1] + len(ws))
            if t0 is None:
                t0 = p
            elif nonempty:
                # the active buffer is stored at its start time and the clock moves to this instant; leaving roll-up mode
                # goes through _roll_up (forced end time)
                left_roll = prev_mode.startswith("roll") and not is_roll
                events.append([0 if left_roll else 1, p])
                nonempty = False
            elif events or t0 is not None:
                # a mode command on an empty buffer only moves the clock: the event model has no such event
                if p != t0:
                    expressible = False
            ws.extend(g.dbl([w], dd()))

        def emit_cr():
            nonlocal nonempty
            p = (pos_now()[0], pos_now()[1] + len(ws))
            if nonempty:
                events.append([0, p])
                nonempty = False
            ws.extend(g.dbl([g.CR], dd()))

        prev_mode = gen_program.prev_mode if i else mode
        if cr_first:
            emit_cr()
        if cmd is not None:
            emit_cmd()
        if cr and not cr_first:
            emit_cr()
        gen_program.prev_mode = mode
        flushed = cmd is not None or cr
        if flushed:
            buf_text.append(False)                                     # a new displayed buffer starts
            buf_cells.append(False)
            buf_rows = []
        # ---- preamble address code
        need_pac = not flushed or last_pos is None
        if need_pac or rng.random() < 0.9:
            free = [r for r in range(1, 16) if r not in buf_rows]
            row = rng.choice(free) if (not flushed or rng.random() < 0.4) else (last_pos[0] if last_pos else 15)
            if row in buf_rows:
                row = rng.choice(free)
            room = 32 - len(g.tokens_text(toks))
            col = rng.choice([c for c in (0, 0, 0, 1, 2, 3, 4, 6, 8, 11, 16, 28) if c <= room])
            style = rng.choice([0, 0, 1, 14, 15, rng.randint(2, 13)]) if col < 4 else rng.choice([0, 0, 1])
            ind = col - col % 4
            if ind:
                unit = [g.pac(row, ind, underline=bool(style & 1))]
            elif style >= 14:
                unit = [g.pac(row, italics=True, underline=bool(style & 1))]
            else:
                unit = [g.pac(row, color=style // 2, underline=bool(style & 1))]
            if col % 4:
                unit.append(g.tab(col % 4))
            ws += unit * 2 if dd() else unit
            last_pos = (row, col)
            buf_rows.append(row)
            if style or ind:
                count("styled_or_indented_preamble")
        else:
            count("row_without_preamble")
            buf_rows.append(last_pos[0])
        tw = g.tokens_words(toks, dd)
        if filler == "8080":
            tw = [rng.choice(["8080", "8080", "8080"])] * rng.choice([1, 1, 2, 3])    # null padding only
        if filler is not None and i < nrows - 1 and rng.random() < 0.5:
            force_switch = True
        if rng.random() < 0.12 and len(tw) > 2:
            cut = rng.randint(1, len(tw) - 1)                           # the row continues on the next timecode line
            cur += ws + tw[:cut]
            lines.append((frame, cur))
            frame += len(cur) + rng.choice([0, 1, 2, 5])
            cur = tw[cut:]
            count("row_split_over_lines")
        else:
            cur += ws + tw
        nonempty = True
        rows.append(text)
        buf_text[-1] = buf_text[-1] or bool(text)
        # wave 7: a buffer that holds blank cells only MAY come back as a caption of blanks (roll-up rows of blanks do, a
        # paint-on passage of blanks does not): both are accepted (buffers .. buffers_max)
        buf_cells[-1] = buf_cells[-1] or bool(g.tokens_text(toks))
        if not text:
            # a row of blanks / erased characters only: its buffer is flushed like any other but yields no caption, which
            # the event-level model cannot express
            expressible = False
            count("row_without_visible_character")
        if rng.random() < 0.06:
            cur += g.dbl([g.EDM], dd())                                 # nothing is displayed by pop-on: no effect
            count("edm_inside")
        if rng.random() < 0.75 or i == nrows - 1:
            if i == nrows - 1 and rng.random() < 0.3:
                cur += g.dbl([g.EDM], dd())
                count("edm_at_end")
            lines.append((frame, cur))
            frame += len(cur) + rng.choice([0, 1, 2, 5, 6, 30, 300])
            cur = []
    # end of stream: a roll-up buffer is rolled up at the instant after the last word; a paint-on buffer stays pending
    pending = not mode.startswith("roll")
    if mode.startswith("roll"):
        events.append([0, (len(lines) - 1, len(lines[-1][1]))])
    stream = g.doc([(g.timecode(f, drop), ws) for f, ws in lines])

    def wire_pos(p):
        return [tc_fields(lines[p[0]][0], drop), p[1]]
    ev = None
    if expressible and t0 is not None:
        ev = [wire_pos(t0), [[k] + wire_pos(p) for k, p in events], pending]
    buffers = sum(buf_text)
    # wave 7: a buffer without a visible character that is followed by another buffer: the reader has already ended the
    # caption before it (carriage return / leaving roll-up force the end) and the next caption starts only when the next
    # mode command moves the clock - a GAP in the chain (known finding C16-gap-after-empty-row); at most one per site
    gap_sites = sum(1 for v in buf_text[:-1] if not v)
    return {"doubled": str(doubled), "drop": drop, "rows": rows, "buffers": buffers, "stream": stream, "events": ev,
            "shapes": shapes, "final_mode": mode, "buffers_max": sum(1 for v, c in zip(buf_text, buf_cells) if v or c),
            "gap_sites": gap_sites}


LANGS = ["en-US", "en-US", "fr", "de-DE", "es-419", "und", "x"]


def rejected_file(rng, prog):
    """a file the reader rejects after having decoded part of it: a later line's timecode written hh:mm:ss.ff (timing
    error at the first time lookup of that line), or a row of more than 32 columns (length error at the end)"""
    lines = prog["stream"].split("\n\n")[1:-1] if prog["stream"].endswith("\n\n") else prog["stream"].split("\n\n")[1:]
    lines = [l for l in lines if l.strip()]
    if rng.random() < 0.5:
        if len(lines) < 2:
            lines = lines + ["00:59:00:00\t" + " ".join(g.dbl([g.RU2], True) + g.dbl([g.CR], True) + g.text_words("tail"))]
        j = rng.randrange(1, len(lines))
        tc, rest = lines[j].split("\t", 1)
        lines[j] = tc[:8] + "." + tc[9:] + "\t" + rest
        kind = "bad-timecode"
    else:
        n = rng.choice([33, 34, 40])
        text = "".join(rng.choice("abcdefghijklmnopqrstuvwxyz") for _ in range(n))
        cmd = rng.choice([g.RU2, g.RU3, g.RDC])
        ws = g.dbl([cmd], True) + (g.dbl([g.CR], True) if cmd != g.RDC else []) + g.dbl([g.pac(15)], True) + g.text_words(text)
        lines.insert(rng.randrange(0, len(lines) + 1), "00:58:%02d:00\t" % rng.randint(0, 59) + " ".join(ws))
        kind = "long-row"
    return "Scenarist_SCC V1.0\n\n" + "\n\n".join(lines) + "\n\n", kind


def gen_history(rng, progs_pool):
    """earlier reads on the same reader object: rejected files (the reader has half-decoded captions when it raises),
    well-formed programs, with their own options"""
    h = []
    kinds = []
    for _ in range(rng.choice([1, 1, 2])):
        other = gen_program(rng)
        r = rng.random()
        if r < 0.7:
            st, kind = rejected_file(rng, other)
        else:
            st, kind = other["stream"], "well-formed"
        kw = {}
        if rng.random() < 0.3:
            kw["lang"] = rng.choice(LANGS)
        if rng.random() < 0.2:
            kw["offset"] = rng.choice([1, 2, 30])
        if rng.random() < 0.15:
            kw["simulate_roll_up"] = True
        h.append([st, kw])
        kinds.append(kind)
    return h, kinds


def obs3(o):
    if isinstance(o, Ok):
        # blanks at the end of a line are not displayable characters (the reader strips most of them; one survives in
        # front of a closing italics node): compared after right-stripping every line
        return Ok([[c[0], c[1], "\n".join(l.rstrip() for l in sccobs.cap_text(c).split("\n"))] for c in o.v])
    if isinstance(o, tuple):
        return Err(4)
    return o


def close3(a, b):
    if isinstance(a, Err) or isinstance(b, Err):
        return a == b
    return len(a.v) == len(b.v) and all(abs(x[0] - y[0]) <= sccobs.TOL_T and abs(x[1] - y[1]) <= sccobs.TOL_T
                                        and x[2] == y[2] for x, y in zip(a.v, b.v))


def screens(spans):
    out = []
    for s in spans:
        if not out or out[-1] != s:
            out.append(s)
    return out


def run(ctx):
    rng = ctx.rng
    res = {"evaluations": 0, "nontrivial": set(), "violations": [], "disagreements": [], "streams": 2, "notes": []}
    dist = {"final_mode": {}, "rows": {}, "doubling": {}, "drop": 0, "captions_out": {}, "shapes": {},
            "event_model_compared": 0, "event_model_not_expressible": 0, "special_chars": 0, "extended_chars": 0,
            "rows_with_leading_or_double_blank": 0}
    res["distribution"] = dist
    progs = [gen_program(rng) for _ in range(ctx.n(1200, 40000))]
    # audit (wave 7): the witness streams of the two known findings (Examples C16_gap_after_empty_row_refuted /
    # C16_blank_only_row_refuted in coq/props/C16.v) run against the real reader on EVERY run, not only when a random program hits
    # the shape: judged and compared with the decoder model like every other program (expected: KNOWN-FINDING of that shape)
    def fixed(lines, rows, buffers_max, tag):
        return {"doubled": "False", "drop": False, "rows": rows, "buffers": 2, "buffers_max": buffers_max, "gap_sites": 1,
                "stream": g.doc(lines), "events": None, "shapes": {"fixed_witness_" + tag: 1}, "final_mode": "roll2"}
    progs.append(fixed([("00:00:01:00", ["9425", "94ad", "9470", "6162"]), ("00:00:02:00", ["9429", "9470", "8080"]),
                        ("00:00:03:00", ["9425", "94ad", "9470", "e364"])], ["ab", "", "cd"], 2, "gap_after_empty_row"))
    progs.append(fixed([("00:00:01:00", ["9426", "94ad", "9470", "6162"]), ("00:00:01:16", ["9426", "94ad", "2020", "2020"]),
                        ("00:00:01:22", ["94ad", "9470", "e364"])], ["ab", "", "cd"], 3, "blank_only_row"))
    # options and histories: the `lang` option varies in every stream; a third of the programs are read by a reader
    # object that has already read other files (mostly rejected ones). The expectation does not depend on either.
    dist["lang"] = {}
    dist["history"] = {"none": 0}
    for p in progs:
        p["lang"] = rng.choice(LANGS)
        dist["lang"][p["lang"]] = dist["lang"].get(p["lang"], 0) + 1
        p["history"] = None
        if rng.random() < 0.33:
            p["history"], kinds = gen_history(rng, progs)
            for k in kinds:
                dist["history"][k] = dist["history"].get(k, 0) + 1
        else:
            dist["history"]["none"] += 1
    houts = []
    obs = [sccobs.observe(p["stream"], lang=p["lang"], history=p["history"], outcomes=houts) for p in progs]
    dist["earlier_reads_ended"] = {k: houts.count(k) for k in sorted(set(houts))}
    models = sccobs.model_batch([(p["stream"], 0) for p in progs])
    # (a buffer of blank cells only may or may not come back as a caption of blanks: the number of screens may be any
    #  value from `buffers` to `buffers_max`; the oracle is asked for each and the first that holds counts)
    okreq = [(i, nb) for i, p in enumerate(progs) for nb in range(p["buffers"], p["buffers_max"] + 1)]
    okans = oracle_batch([(1601, [progs[i]["rows"], nb, obs3(obs[i])]) for i, nb in okreq])
    oks = [None] * len(progs)
    for (i, nb), a in zip(okreq, okans):
        if oks[i] is None or (oks[i][0] != 1 and a[0] == 1):
            oks[i] = a
    dist["programs_with_blank_only_buffers"] = sum(1 for p in progs if p["buffers_max"] > p["buffers"])
    # the INDEPENDENT 608 reading of the word stream (spec/SpecScc16Sent.v: Spec608 tables + the 608 doubling rule; theorem
    # C16_rollup_painton_conserved_608 for the model): [dom608, sent608] of the text, tokenised by the Coq tokeniser
    sent = oracle_batch([(1603, p["stream"]) for p in progs])
    dist["independent_608_reading"] = {"in_dom608": 0, "outside_dom608": 0}
    evreq = [(i, (1602, p["events"])) for i, p in enumerate(progs) if p["events"] is not None]
    evans = dict(zip([i for i, _ in evreq], oracle_batch([r for _, r in evreq])))
    for i, (p, o, m, ok) in enumerate(zip(progs, obs, models, oks)):
        res["evaluations"] += 1
        dist["final_mode"][p["final_mode"]] = dist["final_mode"].get(p["final_mode"], 0) + 1
        dist["rows"][len(p["rows"])] = dist["rows"].get(len(p["rows"]), 0) + 1
        dist["doubling"][p["doubled"]] = dist["doubling"].get(p["doubled"], 0) + 1
        dist["drop"] += p["drop"]
        for k, v in p["shapes"].items():
            dist["shapes"][k] = dist["shapes"].get(k, 0) + v
        dist["special_chars"] += sum(1 for r in p["rows"] for ch in r if ch in g.SPECIAL_608 and ch != " ")
        dist["extended_chars"] += sum(1 for r in p["rows"] for ch in r if ch in g.EXT1_608 or ch in g.EXT2_608)
        dist["rows_with_leading_or_double_blank"] += sum(1 for r in p["rows"] if r.startswith(" ") or "  " in r)
        n_out = len(o.v) if isinstance(o, Ok) else -1
        dist["captions_out"][n_out] = dist["captions_out"].get(n_out, 0) + 1
        desc = {k: p[k] for k in ("doubled", "drop", "rows", "buffers", "lang")}
        desc["earlier_reads_on_the_reader"] = len(p["history"] or [])
        if len(p["rows"]) >= 2:
            res["nontrivial"].add(p["stream"])
        o3 = obs3(o)
        if p["buffers"] == 0:
            # no row shows a visible character: nothing is transmitted, the reader has no caption to return ("empty
            # caption file"); anything else is judged below
            dist["programs_without_visible_text"] = dist.get("programs_without_visible_text", 0) + 1
            if isinstance(o, Err) and o == m:
                continue
        if sent[i][0] == 1:
            dist["independent_608_reading"]["in_dom608"] += 1
            want = "".join(ch for ch in sent[i][1] if ch != " ")
            got = "".join(ch for c in o3.v for ch in c[2] if ch not in " \n") if isinstance(o3, Ok) else None
            if got != want:
                res["violations"].append({"kind": "not-conserved", "replay": "stream", "input": desc,
                                          "what": "the non-blank characters of the returned captions are not the characters "
                                                  "a CEA-608 decoder displays for this word stream (independent reading "
                                                  "sent608)", "stream": p["stream"], "rows": p["rows"],
                                          "buffers": p["buffers"], "lang": p["lang"], "history": p["history"],
                                          "sent608": want, "impl_text": got})
                continue
        else:
            dist["independent_608_reading"]["outside_dom608"] += 1
        if ok[0] != 1:
            kind = "not-conserved" if ok[1] != 1 else ("chain-broken" if ok[2] != 1 else "screens-merged-or-split")
            shape = "other"
            if kind == "chain-broken" and p["gap_sites"] and isinstance(o3, Ok) and close3(o3, obs3(m)):
                # known findings C16-gap-after-empty-row / C16-blank-only-row: ONLY the END of at most one screen per row /
                # passage without a visible character is wrong (gap-...: it ends early, before the next begins; blank-...:
                # the program has a buffer of blank cells only and the end is 0 / the 4 s default / beyond the next start);
                # starts, order, text and the number of screens are as the statement says, and the implementation does what
                # the faithful decoder model does
                S = screens([[c[0], c[1]] for c in o3.v])
                damaged, pure_gaps, bad = 0, True, False
                for k, sc in enumerate(S):
                    nxt = S[k + 1] if k + 1 < len(S) else None
                    if nxt is None:
                        if not sc[0] < sc[1]:
                            damaged += 1
                            pure_gaps = False
                    elif not sc[0] < nxt[0]:
                        bad = True                                     # the order of the starts must be intact
                    elif abs(sc[1] - nxt[0]) <= sccobs.TOL_T:
                        bad = bad or not sc[0] < sc[1]
                    else:
                        damaged += 1                                   # only the END of this screen is wrong
                        pure_gaps = pure_gaps and sc[0] < sc[1] < nxt[0]
                if not bad and 1 <= damaged <= p["gap_sites"] and p["buffers"] <= len(S) <= p["buffers_max"]:
                    if pure_gaps:
                        shape = "gap-after-empty-row"
                    elif p["buffers_max"] > p["buffers"]:
                        shape = "blank-only-row"
            what = {"not-conserved": "the returned caption texts are not the transmitted rows (every character once, in "
                                     "order, rows kept together)",
                    "chain-broken": "captions are not ordered with start < end and each ending where the next begins",
                    "screens-merged-or-split": f"{p['buffers']} buffers were displayed one after the other but the "
                                               f"captions do not form that many distinct (start, end) screens"}[kind]
            if shape == "blank-only-row":
                what = ("a roll-up row of blank cells only is stored as a caption, takes part in the timing chain and is "
                        "dropped afterwards: the caption before it keeps a wrong end (0, the 4 s default, or past the next "
                        "start)")
            if shape == "gap-after-empty-row":
                what = ("a row / passage without a displayable character leaves a gap: the caption before it has already "
                        "been ended (carriage return / leaving roll-up) and the next caption starts only at the next mode "
                        "command")
            res["violations"].append({"kind": kind, "shape": shape, "replay": "stream", "what": what, "input": desc,
                                      "buffers_max": p["buffers_max"],
                                      "stream": p["stream"], "rows": p["rows"], "buffers": p["buffers"],
                                      "lang": p["lang"], "history": p["history"],
                                      "impl_obs": [[str(c[0]), str(c[1]), c[2]] for c in o3.v] if isinstance(o3, Ok)
                                      else repr(o)})
            continue
        if not close3(o3, obs3(m)):
            res["disagreements"].append({"which": "full decoder model (start, end, text)", "input": desc,
                                         "stream": p["stream"], "impl": repr(o3)[:300], "model": repr(obs3(m))[:300]})
        if i in evans:
            dist["event_model_compared"] += 1
            em = r_result(evans[i], lambda l: [[r_q(a), r_q(b)] for a, b in l])
            osc = Ok(screens([[c[0], c[1]] for c in o3.v])) if isinstance(o3, Ok) else o3
            same = (isinstance(em, Ok) and isinstance(osc, Ok) and len(em.v) == len(osc.v) and
                    all(abs(x[0] - y[0]) <= sccobs.TOL_T and abs(x[1] - y[1]) <= sccobs.TOL_T for x, y in zip(em.v, osc.v))) \
                or (isinstance(em, Err) and em == osc)
            if not same:
                res["disagreements"].append({"which": "event-level timing model rp_read", "input": desc,
                                             "stream": p["stream"], "events": p["events"], "impl": repr(osc)[:300],
                                             "model": repr(em)[:300]})
        else:
            dist["event_model_not_expressible"] += 1
    res["rule"] = ("every program read with lang= one of %s; a third by a reader object that has already read 1-2 other "
                   "files (70%% rejected: a later timecode written hh:mm:ss.ff, or a row of more than 32 columns; else "
                   "well-formed; own lang / offset / simulate_roll_up options); " % (sorted(set(LANGS)),) +
                   "programs of 1-8 rows mixing roll-up 2/3/4 and paint-on: mode command re-sent (before or after the "
                   "carriage return), depth changes, mode switches, rows with / without own flush, with / without "
                   "preamble, all preamble styles, rows split over lines, EDM inside / at the end, doubling true / false / "
                   "mixed, 1-32 cells from every table code incl. leading / double / trailing blanks, transparent space, "
                   "erased characters; gaps {0,1,2,5,6,30,300}; start timecodes {0, 1 s, 1 h, 2:01:01:07}. Non-trivial: at "
                   "least two rows. Distinct streams counted.")
    res["samples"] = [{"rows": p["rows"], "buffers": p["buffers"], "stream": p["stream"]} for p in progs[:2]]
    res["clauses"] = {
        "theorem": ["conservation on the whole decoder model for the roll-up / paint-on alphabet (non-blank characters "
                    "handed to the buffer = non-blank characters of the returned captions, in order); on dom608 these are the "
                    "characters of the INDEPENDENT 608 reading sent608 (Spec608 tables + 608 redundancy rule): "
                    "rollup_painton_conserved_608",
                    "event-level flush model rp_read: spans = chain through the flush instants; start < end and strictly "
                    "increasing starts for increasing instants; linked to read by the theorem rp_link for lines `RUn [CR] | CR | "
                    "RDC, PAC, one row of character pairs` (all single / all doubled), by execution (request 1602 vs the "
                    "implementation's screens) for everything else",
                    "caption list keeps order, starts and nodes (definitional support lemma)"],
        "correspondence_only": ["blank characters, exact line structure (rows kept together), start < end / order / chain "
                                "of what read returns: oracle on the implementation + decoder model at (start, end, text)",
                                "which stream positions are flush events: generator vs implementation through rp_read"]}
    return res


def replay(ctx, rec):
    o = sccobs.observe(rec["stream"], lang=rec.get("lang"), history=rec.get("history"))
    if rec.get("buffers") == 0 and o == Err(1):
        return False, "no visible text, no captions: " + repr(o)
    oks = [oracle1(1601, [rec["rows"], nb, obs3(o)]) for nb in range(rec["buffers"], rec.get("buffers_max", rec["buffers"]) + 1)]
    return all(ok[0] != 1 for ok in oks), repr(obs3(o))[:600]
