"""C16 - roll-up and paint-on SCC text is conserved and ordered.

Inputs: roll-up (depth 2, 3, 4) and paint-on programs: 1-8 rows of basic, special and extended characters drawn from
every code of the three tables (extended ones after a stand-in, doubled in doubled mode; 1-32 characters,
no leading/trailing blank), each row `[CR] PAC [TO] text` (roll-up) or `[RDC] PAC [TO] text` (paint-on; rows without
their own RDC accumulate in one buffer), row addresses fixed or varying, codes doubled (PAC+TO doubled as a unit,
special characters sent twice) or single, drop / non-drop timecode, inter-line gaps 0..300 frames, one or several
rows per line.
Observation (public API): SCCReader().read(stream) -> captions (start, end, text with breaks, nodes, layout).
Correspondence: the full extracted decoder model (request 600): times within 2^-10 us, nodes and layout exactly.
Property oracle: Coq ok_c16 (coq/spec/SpecScc16.v) on the implementation's (start, end, text) and the transmitted rows.
"""
import impl
import sccgen as g
import sccobs
from wire import Ok, Err, oracle_batch, oracle1

TABLES = ("GenScc.v",)
LETTERS = "abcdefghijklmnopqrstuvwxyzABCDEFGHIJKLMNOPQRSTUVWXYZ0123456789.,!?'-:;()$%&/+=<>@[]"
SPECIALS = {"®": 0, "°": 1, "½": 2, "¿": 3, "™": 4, "¢": 5, "£": 6, "♪": 7, "à": 8, "è": 10, "â": 11, "ê": 12,
            "î": 13, "ô": 14, "û": 15}
BASIC_EXTRA = "áéíóúçÑñ÷"


def rand_row(rng):
    """1-32 displayed characters from EVERY code of the basic / special / extended tables (extended characters are
    sent after a stand-in); -> (text shown on a 608 screen, tokens)"""
    n = rng.choice([1, 2, 3, 5, 8, 13, 20, 31, 32, rng.randint(1, 32)])
    toks = g.rand_tokens(rng, n, p_special=0.07, p_ext=0.09)
    return g.tokens_text(toks), toks


def row_words(toks, doubled):
    return g.tokens_words(toks, doubled)


def pac_unit(row, col, doubled, rng):
    unit = [g.pac(row, col - col % 4)]
    if col % 4:
        unit.append(g.tab(col % 4))
    return unit * 2 if doubled else unit


def gen_program(rng):
    mode = rng.choice(["roll2", "roll3", "roll4", "paint", "paint"])
    doubled = rng.random() < 0.6
    drop = rng.random() < 0.5
    nrows = rng.randint(1, 8)
    rich = [rand_row(rng) for _ in range(nrows)]
    rows = [t for t, _ in rich]
    lines = []
    frame = rng.choice([0, 30, 30 * 3600, 30 * 7261 + 7])
    addr_style = rng.choice(["fixed", "fixed", "indent", "rows"])
    base_row = rng.choice([15, 15, 14, 1, 7])
    cur = []
    prev_row = 0
    for i, (text, toks) in enumerate(rich):
        if addr_style == "fixed":
            r, c = base_row, 0
        elif addr_style == "indent":
            r, c = base_row, rng.choice([0, 1, 2, 3, 4, 8, 11, 16, 28])
        else:
            r, c = rng.randint(1, 15), rng.choice([0, 0, 4, 6])
        own_rdc = i == 0 or rng.random() < 0.7
        if mode == "paint" and not own_rdc and r == prev_row:
            # rows that accumulate in one paint-on buffer sit on different screen rows (a second preamble for the
            # same row would, on a 608 screen, write over the first text)
            r = r % 15 + 1
        prev_row = r
        ws = []
        if mode.startswith("roll"):
            if i == 0:
                ws += g.dbl([{"roll2": g.RU2, "roll3": g.RU3, "roll4": g.RU4}[mode]], doubled)
            ws += g.dbl([g.CR], doubled)
        else:
            if own_rdc:
                ws += g.dbl([g.RDC], doubled)
        ws += pac_unit(r, c, doubled, rng) + row_words(toks, doubled)
        cur += ws
        if rng.random() < 0.75 or i == len(rows) - 1:
            lines.append((frame, cur))
            frame += len(cur) + rng.choice([0, 1, 2, 5, 6, 30, 300])
            cur = []
    return {"mode": mode, "doubled": doubled, "drop": drop, "rows": rows,
            "stream": g.doc([(g.timecode(f, drop), ws) for f, ws in lines])}


def obs3(o):
    if isinstance(o, Ok):
        return Ok([[c[0], c[1], sccobs.cap_text(c)] for c in o.v])
    if isinstance(o, tuple):
        return Err(4)
    return o


def run(ctx):
    rng = ctx.rng
    res = {"evaluations": 0, "nontrivial": set(), "violations": [], "disagreements": [], "streams": 1, "notes": []}
    dist = {"mode": {}, "rows": {}, "doubled": 0, "drop": 0, "captions_out": {}, "special_chars": 0}
    res["distribution"] = dist
    progs = [gen_program(rng) for _ in range(ctx.n(1200, 40000))]
    obs = [sccobs.observe(p["stream"]) for p in progs]
    models = sccobs.model_batch([(p["stream"], 0) for p in progs])
    oks = oracle_batch([(1600, [p["rows"], obs3(o)]) for p, o in zip(progs, obs)])
    for p, o, m, ok in zip(progs, obs, models, oks):
        res["evaluations"] += 1
        dist["mode"][p["mode"]] = dist["mode"].get(p["mode"], 0) + 1
        dist["rows"][len(p["rows"])] = dist["rows"].get(len(p["rows"]), 0) + 1
        dist["doubled"] += p["doubled"]
        dist["drop"] += p["drop"]
        dist["special_chars"] += sum(1 for r in p["rows"] for ch in r if ch in g.SPECIAL_608 and ch != " ")
        dist["extended_chars"] = dist.get("extended_chars", 0) + sum(1 for r in p["rows"] for ch in r if ch in g.EXT1_608 or ch in g.EXT2_608)
        n_out = len(o.v) if isinstance(o, Ok) else -1
        dist["captions_out"][n_out] = dist["captions_out"].get(n_out, 0) + 1
        desc = {k: p[k] for k in ("mode", "doubled", "drop", "rows")}
        if len(p["rows"]) >= 2:
            res["nontrivial"].add(p["stream"])
        if ok[0] != 1:
            which = "text" if ok[1] != 1 else "timing-chain"
            res["violations"].append({
                "kind": "not-conserved" if ok[1] != 1 else "chain-broken", "replay": "stream",
                "what": ("the returned caption texts are not the transmitted rows (every character once, in order, "
                         "rows kept together)" if ok[1] != 1 else
                         "captions are not ordered with start < end and each ending where the next begins"),
                "input": desc, "stream": p["stream"], "rows": p["rows"], "clause": which,
                "impl_obs": [[str(c[0]), str(c[1]), sccobs.cap_text(c)] for c in o.v] if isinstance(o, Ok) else repr(o)})
            continue
        d = sccobs.same(o, m)
        if d:
            res["disagreements"].append({"input": desc, "stream": p["stream"], "difference": d})
    res["rule"] = ("roll-up 2/3/4 and paint-on programs of 1-8 rows (1-32 basic / special characters), row addresses "
                   "fixed / varying indent with tab offsets / varying rows, doubled or single codes, drop / non-drop, "
                   "gaps {0,1,2,5,6,30,300} frames, start timecodes {0, 1 s, 1 h, 2:01:01:07}. Non-trivial: at least "
                   "two rows. Distinct streams counted.")
    res["samples"] = [{"mode": p["mode"], "rows": p["rows"], "stream": p["stream"]} for p in progs[:2]]
    res["clauses"] = {
        "theorem": ["roll-up / paint-on alphabet: the non-blank characters handed to the buffer are conserved, in order, "
                    "through buffer, italics passes, caption building and the caption list (all word lists)",
                    "italics passes and caption building keep every text node in order (all instruction lists)",
                    "timing chain: after a forced end-time correction the last batch ends at the next start"],
        "correspondence_only": ["blank characters at line ends (stripped by the reader)",
                                "decoding of code words to characters is by the generated tables (table theorems in C05)",
                                "exact instants (full decoder model vs implementation within 2^-10 us)"]}
    return res


def replay(ctx, rec):
    o = sccobs.observe(rec["stream"])
    ok = oracle1(1600, [rec["rows"], obs3(o)])
    return ok[0] != 1, repr(obs3(o))[:600]
