"""C02 - writers preserve every cue's start and end instant.

Caption sets (integer microseconds on a carry grid, SCC-lattice floats, int / float spellings, runs of equal spans,
overlapping / unsorted / zero-length cues in EVERY language, node lists with up to 4 layout groups) are written by the 7
writers in 15 configurations (options varied) through the public API.  Timing tokens of every language are extracted
from the output by small tolerant block splitters (SRT, WebVTT, MicroDVD), lxml (DFXP) and html.parser (SAMI).  Property
oracle: Coq ok_cues / ok_sami (coq/spec/SpecTimeW.v, requests 201 / 203) - independent token parsers (field widths,
ranges, integer literals), accepted values of a time, cue structure as the statement words it (DFXP / MicroDVD exactly one
cue per caption; SRT / legacy / single-position MAY merge equal spans; WebVTT MAY repeat a cue).  Correspondence: cue
counts / SAMI sequences predicted by the extracted model (coq/model/TimeWrite.v, requests 200 / 202 / 205) equal what was
written (a difference is a disagreement); spelling differences are counted.
"""
import re
from fractions import Fraction
from html.parser import HTMLParser

import lxml.etree as ET

import impl
from wire import Ok, Err, oracle_batch, oracle1
from pycaption import (CaptionSet, CaptionList, Caption, CaptionNode, SRTWriter, WebVTTWriter, DFXPWriter, SAMIWriter,
                       MicroDVDWriter)
from pycaption.dfxp.extras import LegacyDFXPWriter, SinglePositioningDFXPWriter
from pycaption.geometry import Layout, Alignment, HorizontalAlignmentEnum, VerticalAlignmentEnum

DAY = 86400 * 10**6
GRID = [0, 1, 999, 1000, 999999, 10**6, 59999999, 60 * 10**6, 3599999999, 3600 * 10**6, 86399999999,
        36000 * 10**6, 35999999999, 600 * 10**6, 599999999, 10 * 10**6, 9999999, 40000, 39999, 8040000, 8039999]
LANGS = ["en-US", "fr", "de"]
KINDS = {"srt": 0, "dfxp": 1, "dfxp-inline": 1, "legacy": 2, "single": 2, "vtt": 3, "mdvd": 4}
L1 = Layout(alignment=Alignment(HorizontalAlignmentEnum.LEFT, VerticalAlignmentEnum.TOP))
L2 = Layout(alignment=Alignment(HorizontalAlignmentEnum.RIGHT, VerticalAlignmentEnum.BOTTOM))


def exact(x):
    if isinstance(x, int):
        return Fraction(x)
    return Fraction(*x.as_integer_ratio())


def scc_like(rng):
    """the float arithmetic of the SCC reader: frames at 30 fps, drop-frame stretch, minus an offset"""
    frames = rng.randrange(0, 30 * 86000)
    if rng.random() < 0.5:
        t = frames / 30.0 * 1001.0 / 1000.0 * 1000000.0
    else:
        t = frames / 30.0 * 1000000.0
    if rng.random() < 0.3:
        t = t - rng.choice([0.0, 3600.0 * 1000000.0 * 0, 1 / 3.0, 1001 / 30.0 * 1000])
    return abs(t)


SCC_POOL = []


def fill_scc_pool(rng, docs=12, caps=40):
    """times that the real SCCReader produces (floats): pop-on captions at random frame numbers, drop and non-drop"""
    from pycaption import SCCReader
    del SCC_POOL[:]

    def tc(f, drop):
        sec = f // 30
        return "%02d:%02d:%02d%s%02d" % (sec // 3600, sec // 60 % 60, sec % 60, ";" if drop else ":", f % 30)
    for d in range(docs):
        drop = d % 2 == 1
        f = rng.randrange(0, 30 * 3600 * rng.choice([1, 1, 5, 20]))
        lines = ["Scenarist_SCC V1.0", ""]
        for _ in range(caps):
            a = f + rng.randrange(20, 200)
            b = a + rng.randrange(40, 300)
            lines += ["%s\t9420 9420 9470 9470 c8e5 ecec ef80 942f 942f" % tc(a, drop), "",
                      "%s\t942c 942c" % tc(b, drop), ""]
            f = b + rng.randrange(20, 2000)
        r = impl.call(lambda: SCCReader().read("\n".join(lines)))
        if isinstance(r, Ok):
            for lang in r.v.get_languages():
                for c in r.v.get_captions(lang):
                    for t in (c.start, c.end):
                        if isinstance(t, (int, float)) and 0 <= t < 86399999999:
                            SCC_POOL.append(int(t) if isinstance(t, float) and t.is_integer() else t)


def gen_time(rng):
    k = rng.random()
    if SCC_POOL and k < 0.15:
        return rng.choice(SCC_POOL)
    if k < 0.35:
        t = rng.choice(GRID) + rng.choice([-1, 0, 0, 1])
    elif k < 0.55:
        t = rng.randrange(0, DAY)
    elif k < 0.7:
        t = rng.randrange(0, 10**7)
    elif k < 0.92:
        t = scc_like(rng)
    else:
        t = rng.choice(GRID) + rng.choice([-0.5, 0.5, -0.25, 0.75, 1 / 3.0, -1 / 3.0, 0.4999, 0.5001])
    if isinstance(t, float) and t.is_integer():
        t = int(t)
    if t < 0:
        t = 0
    if t > 86399999999:
        t = 86399999999
    return t


def gen_spans(rng, sorted_only, min_ms_len=False):
    """list of (start, end) with 0 <= start <= end < 24h"""
    n = rng.choice([1, 1, 2, 3, 4, 5, 6])
    if sorted_only:
        ts = sorted(gen_time(rng) for _ in range(2 * n))
        spans = []
        for i in range(n):
            s, e = ts[2 * i], ts[2 * i + 1]
            if i + 1 < n and rng.random() < 0.35:
                ts[2 * i + 2] = e          # touching cues
            if not min_ms_len and rng.random() < 0.2:
                e = s + rng.choice([0, 1, 400, 999, 30000, 39999])     # shorter than a millisecond / a frame
                if (i + 1 < n and exact(ts[2 * i + 2]) < exact(e)) or exact(e) > 86399999999:
                    e = s
            spans.append((s, e))
        if min_ms_len:
            spans = [(s, e) for (s, e) in spans if exact(s) // 1000 < exact(e) // 1000]
            out = []
            for (s, e) in spans:
                if out and exact(s) // 1000 < exact(out[-1][1]) // 1000:
                    continue
                out.append((s, e))
            spans = out
        return spans
    spans = []
    while len(spans) < n:
        a, b = gen_time(rng), gen_time(rng)
        s, e = (a, b) if exact(a) <= exact(b) else (b, a)
        if rng.random() < 0.3:      # captions shorter than one millisecond / one frame (start <= end is all the domain asks)
            e = s + rng.choice([0, 0, 1, 999, 1000, 900, 30000, 39999, 40000, 0.5])
            if exact(e) > 86399999999:
                e = s
        run = rng.choice([1, 1, 1, 2, 3, 4])
        for r in range(run):
            # equal spans may be written 2000000 in one caption and 2000000.0 in the next
            if r % 2 and isinstance(s, int) and isinstance(e, int) and rng.random() < 0.5:
                spans.append((float(s), float(e)))
            else:
                spans.append((s, e))
        r = rng.random()
        if r < 0.15:
            e2 = e + 1 if exact(e) < 86399999998 else e
            spans.append((s, e2))        # shares only the start
        elif r < 0.25 and exact(s) >= 1:
            spans.append((s - 1, e))     # shares only the end
    return spans[:max(n, 1)]


L3 = Layout(alignment=Alignment(HorizontalAlignmentEnum.CENTER, VerticalAlignmentEnum.TOP))
LAYOUTS = {0: None, 1: L1, 2: L2, 3: L3}


def node_codes(seed, k):
    """node kinds of caption k of the first language (wire of request 205): 0 text without layout, 1..3 text with that
    layout, -1 break, -2 style node emitting a tag.  seed falsy: one plain text node."""
    if not seed:
        return [0]
    import random
    r = random.Random(seed * 7919 + k)
    if r.random() < 0.35:
        return [0]
    codes = []
    if r.random() < 0.1:
        codes.append(-1)
    for i in range(r.choice([1, 2, 2, 3, 4])):
        if i and r.random() < 0.8:
            codes.append(-1)
        lay = r.choice([0, 1, 1, 2, 2, 3])
        if r.random() < 0.15:
            codes += [-2, lay, -2]
        else:
            codes.append(lay)
    return codes


def build_set(langs_spans, layout_seed):
    """returns the caption set and, per caption (all languages, in order), its node codes"""
    d = {}
    codes_all = []
    for li, spans in enumerate(langs_spans):
        caps = []
        for k, (s, e) in enumerate(spans):
            codes = node_codes(layout_seed, li * 1000 + k)
            nodes = []
            opened = False
            for j, c in enumerate(codes):
                if c == -1:
                    nodes.append(CaptionNode.create_break())
                elif c == -2:
                    opened = not opened
                    nodes.append(CaptionNode.create_style(opened, {"italics": True}))
                else:
                    nodes.append(CaptionNode.create_text("text %d %d %d" % (li, k, j), layout_info=LAYOUTS[c]))
            codes_all.append(codes)
            caps.append(Caption(s, e, nodes))
        d[LANGS[li]] = CaptionList(caps)
    return CaptionSet(d), codes_all


def groups_of(codes_lists):
    """WebVTT layout groups per caption, from the model (request 205)"""
    flat = [c for cl in codes_lists for c in cl]
    res = []
    for part in oracle_batch([(205, flat[i:i + 400]) for i in range(0, len(flat), 400)]):
        res.extend(part)
    out, i = [], 0
    for cl in codes_lists:
        out.append(res[i:i + len(cl)])
        i += len(cl)
    return out


# ---- token extraction ---------------------------------------------------------------------------
def tokens_srt(out):
    """one token list per language section (sections are separated by the line MULTI-LANGUAGE SRT)"""
    res = []
    for section in re.split(r"MULTI-LANGUAGE SRT\r?\n", out):
        toks = []
        body = "\n".join(section.splitlines()).strip("\n")
        for block in (re.split(r"\n\n+", body) if body else []):
            lines = block.split("\n")
            if len(lines) < 2 or not lines[0].isdigit():
                raise ValueError("unexpected SRT block %r" % block)
            m = re.match(r"^(\S+)\s+-->\s+(\S+)\s*$", lines[1])
            if not m:
                raise ValueError("no timing line in %r" % lines[1])
            toks.append([m.group(1), m.group(2)])
        res.append(toks)
    return res


def tokens_vtt(out):
    lines = out.splitlines()
    if not lines or not lines[0].startswith("WEBVTT"):
        raise ValueError("no header")
    res = []
    for line in lines[1:]:
        if "-->" in line:
            m = re.match(r"^(\S+)\s+-->\s+(\S+)", line)
            if not m:
                raise ValueError("no timing line in %r" % line)
            res.append([m.group(1), m.group(2)])
    return res


def tokens_mdvd(out):
    """every cue line of the document"""
    res = []
    for line in out.splitlines():
        if not line:
            continue
        m = re.match(r"\{([^}]*)\}\{([^}]*)\}", line)
        if not m:
            raise ValueError("unexpected MicroDVD line %r" % line)
        res.append([m.group(1), m.group(2)])
    return res


TT = "{http://www.w3.org/ns/ttml}"
XML = "{http://www.w3.org/XML/1998/namespace}"


def tokens_dfxp(out):
    """{lang: [[begin, end], ...]}"""
    root = ET.fromstring(out.encode("utf-8"))
    res = {}
    for div in root.iter(TT + "div"):
        lang = div.get(XML + "lang")
        res.setdefault(lang, [])
        for p in div.iter(TT + "p"):
            res[lang].append([p.get("begin"), p.get("end")])
    return res


class SamiObs(HTMLParser):
    def __init__(self):
        super().__init__(convert_charrefs=True)
        self.start = None
        self.cls = None
        self.buf = None
        self.events = {}

    def handle_starttag(self, tag, attrs):
        a = dict(attrs)
        if tag == "sync":
            self.start = a.get("start")
        elif tag == "p":
            self.cls = a.get("class")
            self.buf = []

    def handle_endtag(self, tag):
        if tag == "p" and self.buf is not None:
            txt = "".join(self.buf).strip()
            blank = txt in ("\xa0", "&nbsp;", "")
            self.events.setdefault(self.cls, []).append([self.start if self.start is not None else "", blank])
            self.buf = None

    def handle_data(self, data):
        if self.buf is not None:
            self.buf.append(data)


def tokens_sami(out):
    p = SamiObs()
    p.feed(out)
    p.close()
    return p.events


# writer configurations: constructor options and write() options (relativize / fit_to_screen / video size / force= / lang=
# / default_positioning must not touch the instants)
def _cfg(make, write=None, only=None):
    return {"make": make, "write": write or (lambda w, cs: w.write(cs)), "only": only}


WRITERS = {
    "srt": _cfg(lambda: SRTWriter()),
    "srt-opts": _cfg(lambda: SRTWriter(relativize=False, video_width=640, video_height=360, fit_to_screen=False)),
    "vtt": _cfg(lambda: WebVTTWriter()),
    "vtt-norel": _cfg(lambda: WebVTTWriter(relativize=False, fit_to_screen=False)),
    "vtt-video": _cfg(lambda: WebVTTWriter(video_width=1280, video_height=720)),
    "vtt-lang": _cfg(lambda: WebVTTWriter(), lambda w, cs: w.write(cs, lang=cs.get_languages()[-1]), only="last"),
    "vtt-first": _cfg(lambda: WebVTTWriter(), lambda w, cs: w.write(cs, lang=cs.get_languages()[0]), only="first"),
    "vtt-second": _cfg(lambda: WebVTTWriter(), lambda w, cs: w.write(cs, lang=cs.get_languages()[min(1, len(cs.get_languages()) - 1)]),
                       only="second"),
    "mdvd": _cfg(lambda: MicroDVDWriter()),
    "dfxp": _cfg(lambda: DFXPWriter()),
    "dfxp-inline": _cfg(lambda: DFXPWriter(write_inline_positioning=True)),
    "dfxp-opts": _cfg(lambda: DFXPWriter(relativize=False, fit_to_screen=False, video_width=640, video_height=360)),
    "dfxp-force": _cfg(lambda: DFXPWriter(), lambda w, cs: w.write(cs, force=cs.get_languages()[-1]), only="last"),
    "legacy": _cfg(lambda: LegacyDFXPWriter()),
    "legacy-force": _cfg(lambda: LegacyDFXPWriter(), lambda w, cs: w.write(cs, force=cs.get_languages()[0]), only="first"),
    "single": _cfg(lambda: SinglePositioningDFXPWriter()),
    "single-custom": _cfg(lambda: SinglePositioningDFXPWriter(default_positioning=L2, relativize=False)),
}
KINDS.update({"vtt-first": 3, "vtt-second": 3, "srt-opts": 0, "vtt-norel": 3, "vtt-video": 3, "vtt-lang": 3, "dfxp-opts": 1, "dfxp-force": 1,
              "legacy-force": 2, "single-custom": 2})


def family(kind):
    return kind.split("-")[0]


def observe(kind, cs, langs_spans):
    """Ok({language index: token list}) for every language the output is supposed to hold / Err.
    SRT: every language section; MicroDVD: the lines in order, split by the caption counts (the total must fit);
    WebVTT: the one language written; DFXP family: every <div>."""
    cfg = WRITERS[kind]
    nl = len(langs_spans)

    def go():
        out = cfg["write"](cfg["make"](), cs)
        fam = family(kind)
        want = list(range(nl))
        if cfg["only"] == "last":
            want = [nl - 1]
        elif cfg["only"] == "first":
            want = [0]
        elif cfg["only"] == "second":
            want = [min(1, nl - 1)]
        elif fam == "vtt":
            want = [0]
        if fam == "srt":
            secs = tokens_srt(out)
            if len(secs) != nl:
                raise ValueError("SRT output has %d language sections for %d languages" % (len(secs), nl))
            return {li: secs[li] for li in want}
        if fam == "vtt":
            return {want[0]: tokens_vtt(out)}
        if fam == "mdvd":
            toks = tokens_mdvd(out)
            res, i = {}, 0
            for li in range(nl):
                n = len(langs_spans[li])
                res[li] = toks[i:i + n]
                i += n
            if i < len(toks):
                res[nl - 1] = res[nl - 1] + toks[i:]       # surplus lines are not hidden
            return res
        d = tokens_dfxp(out)
        extra = [l for l in d if l not in [LANGS[li] for li in want]]
        if extra and any(d[l] for l in extra):
            raise ValueError("unexpected language divisions %r" % extra)
        return {li: d.get(LANGS[li], []) for li in want}
    return impl.call(go)


BAD_WIRE = [-1]


def spell_diff(res, rec):
    res.setdefault("model_differences", []).append(rec)
    d = res["distribution"]
    d["tokens_differing_from_model_but_accepted"] = d.get("tokens_differing_from_model_but_accepted", 0) + 1


def wire_caps(spans):
    return [[exact(s), exact(e)] for (s, e) in spans]

# ---- wave 7: the DFXP DOCUMENT at string level (request 207 = coq/model/DfxpWriteDoc.v) -------------------------------
DOC_ATOMS = ["hello", "a & b", "<i>x</i>", "l'a \"q\"", "\u00e9\u4e2d", "1 < 2 > 0", "&amp;", "x]]>y", "{1}{2}", "a\u00a0b", "-->", "w"]


def stream_dfxp_doc_text(ctx, res):
    """one language of captions given as clean text lines, integer times anywhere below 24 h (any order, overlaps, equal
    spans): the text the string-level writer model prints must be the real DFXPWriter's text, character by character;
    the text is then read by the real DFXPReader and by the string-level reader model (request 121): both must return
    floor(t / 1000) * 1000 for every start and end (theorem C02_dfxp_document_string)."""
    from pycaption import DFXPWriter, DFXPReader, CaptionSet, CaptionList, Caption, CaptionNode
    rng = ctx.rng
    dist = res["distribution"]
    cases = []
    for _ in range(ctx.n(100, 3000)):
        lang = rng.choice(LANGS + ["pt-BR", "x"])
        caps = []
        for _ in range(rng.choice([1, 1, 2, 3, 5]) if rng.random() > 0.03 else 60):
            a, b = gen_time(rng), gen_time(rng)
            a, b = int(a), int(b)
            if b < a:
                a, b = b, a
            lines = [" ".join(rng.choice(DOC_ATOMS) for _ in range(rng.choice([1, 1, 2, 3]))) for _ in range(rng.choice([1, 1, 2, 3]))]
            caps.append([a, b, lines])
        if rng.random() < 0.15:
            # audit 7: OUTSIDE the clean-line domain (blanks at line edges, an empty line) or a language name with a quote:
            # the writer model's text is then NOT the writer's (rstrip before <br/>, prettify's strip, bs4's quote choice);
            # the theorem still speaks about the model document; the real round trip is judged all the same
            k = rng.randrange(len(caps))
            caps[k][2] = rng.choice([[" a ", "", "b"], ["x ", " y"], ["", "z"], ["w", ""]])
            if rng.random() < 0.3:
                lang = 'e"n'
        cases.append((lang, caps))
    texts = oracle_batch([(207, [lang, caps]) for (lang, caps) in cases])
    reals = []
    for (lang, caps) in cases:
        pc = []
        for (a, b, lines) in caps:
            nodes = []
            for i, l in enumerate(lines):
                if i:
                    nodes.append(CaptionNode.create_break())
                nodes.append(CaptionNode.create_text(l))
            pc.append(Caption(a, b, nodes))
        reals.append(impl.call(lambda: DFXPWriter().write(CaptionSet({lang: CaptionList(pc)}))))
    # the string-level READER model reads the model's text and the real writer's text
    models = oracle_batch([(121, t) for t in texts])
    models_real = oracle_batch([(121, r.v if isinstance(r, Ok) else "") for r in reals])
    ndiff = 0

    def unwire(m):
        return [[l, [list(x) for x in c]] for (l, c) in m[1]] if m[0] == 0 else m

    for (lang, caps), text, m, real, mr in zip(cases, texts, models, reals, models_real):
        res["evaluations"] += 1
        want = [[lang, [[a // 1000 * 1000, b // 1000 * 1000] for (a, b, _) in caps]]]
        if not isinstance(real, Ok):
            res["violations"].append({"kind": "dfxp-document-round-trip", "writer": "dfxp", "replay": "dfxp-doc",
                                      "what": "DFXPWriter raised %r for %s" % (real, caps), "input": [lang, caps]})
            continue
        clean = '"' not in lang and all(l and l == l.strip() for (_, _, ls) in caps for l in ls)
        if not clean:
            dist["dfxp_documents_outside_the_clean_line_domain"] = dist.get("dfxp_documents_outside_the_clean_line_domain", 0) + 1
        if real.v != text:
            ndiff += 1
            if clean:
                # audit 7: inside the clean-line domain the model text must BE the writer's text (C08's DFXP text theorem
                # rests on it): a difference is a correspondence disagreement
                res["disagreements"].append({"what": "DFXP writer model document differs from the real writer's (clean lines)",
                                             "input": [lang, caps], "model": text[:400], "impl": real.v[:400]})
            else:
                res.setdefault("document_text_differences", []).append({"input": [lang, caps], "model": text[:300], "impl": real.v[:300]})
        back = impl.call(lambda: [[l, [[c.start, c.end] for c in cs.get_captions(l)]]
                                  for cs in [DFXPReader().read(real.v)] for l in cs.get_languages()])
        if not (isinstance(back, Ok) and back.v == want):
            res["violations"].append({"kind": "dfxp-document-round-trip", "writer": "dfxp", "replay": "dfxp-doc",
                                      "what": "DFXPWriter document for %s read back by DFXPReader as %s, expected %s"
                                              % (caps, back.v if isinstance(back, Ok) else repr(back), want),
                                      "input": [lang, caps]})
            continue
        if unwire(m) != want:
            res["disagreements"].append({"what": "string-level reader model on the writer model's document", "input": [lang, caps],
                                         "model": unwire(m), "expected": want})
        if unwire(mr) != want:            # audit 7: "outside the sublanguage" (199) is no excuse for the writer's own output
            res["disagreements"].append({"what": "string-level reader model on the real writer's document", "input": [lang, caps],
                                         "model": unwire(mr), "expected": want})
        for (a, b, _) in caps:
            if a >= 60 * 10**6 or a % 1000:
                res["nontrivial"].add(("dfxp-doc", a, b))
    dist["dfxp_documents_compared_with_string_level_writer_model"] = len(cases)
    dist["dfxp_documents_differing_from_string_level_writer_model"] = ndiff
    res["notes"].append("DFXP documents whose text differs from the string-level writer model's (layout of the document is "
                        "not fixed by the property: recorded, not failing; the captions read back must be the same): %d" % ndiff)

# ---- last round: ONE writer object reused after a write() that RAISED part-way ----------------------------------------
def stream_reuse_after_error(ctx, res):
    """a writer object first writes a set whose LATER caption is positioned in pixels although the writer knows no video
    size (RelativizationError after at least one cue was emitted; writers that do not relativize just write it), then the
    SAME object writes a valid set: its timing output must be a fresh writer's (SAMI: no blank sync from a stale
    last_time) and satisfy the oracle."""
    from pycaption.geometry import Point, Size, UnitEnum
    rng = ctx.rng
    dist = res["distribution"]
    px = Layout(origin=Point(Size(100, UnitEnum.PIXEL), Size(50, UnitEnum.PIXEL)))
    makers = {"srt": SRTWriter, "vtt": WebVTTWriter, "mdvd": MicroDVDWriter, "dfxp": DFXPWriter, "legacy": LegacyDFXPWriter,
              "single": SinglePositioningDFXPWriter, "sami": SAMIWriter}
    toks = {"srt": lambda o: tokens_srt(o)[0], "vtt": tokens_vtt, "mdvd": tokens_mdvd,
            "dfxp": lambda o: tokens_dfxp(o).get(LANGS[0], []), "legacy": lambda o: tokens_dfxp(o).get(LANGS[0], []),
            "single": lambda o: tokens_dfxp(o).get(LANGS[0], []), "sami": lambda o: tokens_sami(o).get(LANGS[0], [])}
    raised = 0
    for _ in range(ctx.n(12, 300)):
        t0 = rng.choice([0, 1000, 999999, 3599999000])
        bad_caps = [Caption(t0 + 1000, t0 + 2500, [CaptionNode.create_text("first")]),
                    Caption(t0 + 3000 + rng.choice([0, 1, 999]), t0 + 5000 + rng.choice([0, 500, 999]),
                            [CaptionNode.create_text("px", layout_info=px)], layout_info=px)]
        if rng.random() < 0.5:
            bad_caps.insert(1, Caption(t0 + 2500, t0 + 2999, [CaptionNode.create_text("second")]))
        bad = CaptionSet({LANGS[0]: CaptionList(bad_caps)})
        spans = [(int(a), int(b)) for (a, b) in gen_spans(rng, sorted_only=True)]
        good, _ = build_set([spans], 0)
        for kind, mk in makers.items():
            res["evaluations"] += 1
            w = mk()
            first = impl.call(lambda: w.write(bad))
            if isinstance(first, Err):
                raised += 1
            reused = impl.call(lambda: toks[kind](w.write(good)))
            fresh = impl.call(lambda: toks[kind](mk().write(good)))
            if kind == "sami":
                ok = isinstance(reused, Ok) and oracle1(203, [wire_caps(spans), reused.v]) == 1
            else:
                ok = isinstance(reused, Ok) and oracle1(201, [KINDS[kind], wire_caps(spans), [1] * len(spans), reused.v]) == 1
            same_as_fresh = isinstance(reused, Ok) and isinstance(fresh, Ok) and reused.v == fresh.v
            if not ok or not same_as_fresh:
                res["violations"].append({
                    "kind": kind + "-reused-after-error", "writer": kind, "replay": "reuse-after-error",
                    "what": "%s writer object reused after a write() that %s: timing output %s for the captions %s; a fresh "
                            "writer gives %s" % (kind, "raised" if isinstance(first, Err) else "succeeded",
                                                 reused.v if isinstance(reused, Ok) else repr(reused), spans,
                                                 fresh.v if isinstance(fresh, Ok) else repr(fresh)),
                    "input": [[list(map(repr, se)) for se in spans]], "lang_index": 0, "t0": t0,
                    "three": len(bad_caps) == 3})
    dist["writer_objects_reused_after_a_write_that_raised"] = raised

# ---- round 4: the SAMI DOCUMENT at string level (request 208 = coq/model/SamiWriteDoc.v) ------------------------------
def stream_sami_doc_text(ctx, res):
    """one language of sorted, non-overlapping captions (each at least 1 ms long, below 24 h - 4 s) given as clean text lines:
    the text the string-level writer model prints must be the real SAMIWriter's (difference recorded); the real text is read
    back by the real SAMIReader (violation: starts and non-final ends floored to the ms, the last cue 4 s) and its part from
    <body> on by the string-level reader model (request 123; disagreement) - theorem C02_sami_document_string."""
    from pycaption import SAMIWriter, SAMIReader, CaptionSet, CaptionList, Caption, CaptionNode
    rng = ctx.rng
    dist = res["distribution"]
    cases = []
    for _ in range(ctx.n(60, 2500)):
        lang = rng.choice(LANGS + ["pt-BR", "x"])
        t = rng.choice([0, 1, 999, 1000, 59999000, 3599999000, rng.randrange(0, 80000) * 10**6])
        caps = []
        for _ in range(rng.choice([1, 1, 2, 3, 5]) if rng.random() > 0.03 else 40):
            a = t + rng.choice([0, 0, 1, 999, 1000, 123456, 10**7])
            b = a + rng.choice([1000, 1001, 1999, 2500000, 59999999])
            t = b
            lines = [" ".join(rng.choice(DOC_ATOMS) for _ in range(rng.choice([1, 1, 2, 3]))) for _ in range(rng.choice([1, 1, 2, 3]))]
            caps.append([a, b, lines])
        if caps[-1][1] < 86396000000:
            cases.append((lang, caps))
    outs = oracle_batch([(208, [lang, caps]) for (lang, caps) in cases])
    reals = []
    for (lang, caps) in cases:
        pc = []
        for (a, b, lines) in caps:
            nodes = []
            for i, l in enumerate(lines):
                if i:
                    nodes.append(CaptionNode.create_break())
                nodes.append(CaptionNode.create_text(l))
            pc.append(Caption(a, b, nodes))
        reals.append(impl.call(lambda: SAMIWriter().write(CaptionSet({lang: CaptionList(pc)}))))
    bodies = []
    for r in reals:
        k = r.v.find("<body>") if isinstance(r, Ok) else -1
        bodies.append(r.v[k:] if k >= 0 else "")
    models_real = oracle_batch([(123, [[[lang.lower(), lang]], b]) for (lang, _), b in zip(cases, bodies)])
    ndiff = 0

    def unwire(m):
        return [[l, [list(x) for x in c]] for (l, c) in m[1]] if m[0] == 0 else m

    for (lang, caps), o, real, mr in zip(cases, outs, reals, models_real):
        res["evaluations"] += 1
        want_t = [[a // 1000 * 1000, b // 1000 * 1000] for (a, b, _) in caps]
        want_t[-1][1] = want_t[-1][0] + 4000000
        want = [[lang, want_t]]
        if not isinstance(real, Ok):
            res["violations"].append({"kind": "sami-document-round-trip", "writer": "sami", "replay": "sami-doc",
                                      "what": "SAMIWriter raised %r for %s" % (real, caps), "input": [lang, caps]})
            continue
        if o == [-1] or real.v != o[0]:
            # audit 7: the generator sends clean lines and plain language names only: the model text must be the writer's
            ndiff += 1
            res["disagreements"].append({"what": "SAMI writer model document differs from the real writer's (clean lines)",
                                         "input": [lang, caps], "model": (o[0] if o != [-1] else "")[:400], "impl": real.v[:400]})
        back = impl.call(lambda: [[l, [[c.start, c.end] for c in cs.get_captions(l)]]
                                  for cs in [SAMIReader().read(real.v)] for l in cs.get_languages()])
        if not (isinstance(back, Ok) and back.v == want):
            res["violations"].append({"kind": "sami-document-round-trip", "writer": "sami", "replay": "sami-doc",
                                      "what": "SAMIWriter document for %s read back by SAMIReader as %s, expected %s"
                                              % (caps, back.v if isinstance(back, Ok) else repr(back), want),
                                      "input": [lang, caps]})
            continue
        if o != [-1] and unwire(o[2]) != want:
            res["disagreements"].append({"what": "string-level SAMI reader model on the writer model's document", "input": [lang, caps],
                                         "model": unwire(o[2]), "expected": want})
        if unwire(mr) != want:
            res["disagreements"].append({"what": "string-level SAMI reader model on the real writer's document", "input": [lang, caps],
                                         "model": unwire(mr), "expected": want})
        for (a, b, _) in caps:
            if a >= 60 * 10**6 or a % 1000:
                res["nontrivial"].add(("sami-doc", a, b))
    dist["sami_documents_compared_with_string_level_writer_model"] = len(cases)
    dist["sami_documents_differing_from_string_level_writer_model"] = ndiff

def stream_dfxp_doc_langs(ctx, res):
    """round 4: 2-3 languages of captions given as clean text lines: the text of the multi-language writer model (request
    209: one <div> per language) against the real DFXPWriter's (difference recorded); the real text read back by the real
    DFXPReader (violation) and by the string-level reader model (request 121, disagreement): every language, every caption,
    floored to the millisecond."""
    from pycaption import DFXPWriter, DFXPReader, CaptionSet, CaptionList, Caption, CaptionNode
    rng = ctx.rng
    dist = res["distribution"]
    cases = []
    for _ in range(ctx.n(40, 1000)):
        names = rng.sample(LANGS + ["pt-BR", "x"], rng.choice([2, 2, 3]))
        langs = []
        for nm in names:
            caps = []
            for _ in range(rng.choice([1, 2, 3])):
                a, b = int(gen_time(rng)), int(gen_time(rng))
                if b < a:
                    a, b = b, a
                lines = [" ".join(rng.choice(DOC_ATOMS) for _ in range(rng.choice([1, 2]))) for _ in range(rng.choice([1, 1, 2]))]
                caps.append([a, b, lines])
            langs.append([nm, caps])
        cases.append(langs)
    texts = oracle_batch([(209, langs) for langs in cases])
    reals = []
    for langs in cases:
        d = {}
        for (nm, caps) in langs:
            pc = []
            for (a, b, lines) in caps:
                nodes = []
                for i, l in enumerate(lines):
                    if i:
                        nodes.append(CaptionNode.create_break())
                    nodes.append(CaptionNode.create_text(l))
                pc.append(Caption(a, b, nodes))
            d[nm] = CaptionList(pc)
        reals.append(impl.call(lambda: DFXPWriter().write(CaptionSet(d))))
    models_real = oracle_batch([(121, r.v if isinstance(r, Ok) else "") for r in reals])
    ndiff = 0
    for langs, text, real, mr in zip(cases, texts, reals, models_real):
        res["evaluations"] += 1
        want = [[nm, [[a // 1000 * 1000, b // 1000 * 1000] for (a, b, _) in caps]] for (nm, caps) in langs]
        if not isinstance(real, Ok):
            res["violations"].append({"kind": "dfxp-document-round-trip", "writer": "dfxp", "replay": "none-langs",
                                      "what": "DFXPWriter raised %r for %s" % (real, langs), "input": langs})
            continue
        if real.v != text:
            ndiff += 1
            res["disagreements"].append({"what": "multi-language DFXP writer model document differs from the real writer's (clean lines)",
                                         "input": langs, "model": text[:400], "impl": real.v[:400]})
        back = impl.call(lambda: [[l, [[c.start, c.end] for c in cs.get_captions(l)]]
                                  for cs in [DFXPReader().read(real.v)] for l in cs.get_languages()])
        if not (isinstance(back, Ok) and sorted(back.v) == sorted(want)):
            res["violations"].append({"kind": "dfxp-document-round-trip", "writer": "dfxp", "replay": "none-langs",
                                      "what": "multi-language DFXPWriter document read back by DFXPReader as %s, expected %s"
                                              % (back.v if isinstance(back, Ok) else repr(back), want), "input": langs})
            continue
        mm = [[l, [list(x) for x in c]] for (l, c) in mr[1]] if mr[0] == 0 else mr
        if mm != want:
            res["disagreements"].append({"what": "string-level reader model on the real multi-language DFXP document",
                                         "input": langs, "model": mm, "expected": want})
    dist["dfxp_multi_language_documents_compared_with_writer_model"] = len(cases)
    dist["dfxp_multi_language_documents_differing_from_writer_model"] = ndiff


def run(ctx):
    rng = ctx.rng
    res = {"evaluations": 0, "nontrivial": set(), "violations": [], "disagreements": [], "distribution": {},
           "streams": 8, "notes": [], "samples": []}   # 8 writer configurations, each decided by the Coq oracle
    dist = res["distribution"]
    fill_scc_pool(rng)
    dist["scc_reader_times_in_pool"] = len(SCC_POOL)
    dist["scc_reader_times_non_integer"] = sum(1 for t in SCC_POOL if isinstance(t, float))
    n = ctx.n(270, 10000)
    cases = []
    for i in range(n):
        nl = rng.choice([1, 1, 2, 2, 3])
        two = rng.randrange(1, 10**6) if rng.random() < 0.35 else 0
        # every language arbitrary: unsorted, overlapping, runs of equal spans, zero-length, or a sorted timeline
        langs = [gen_spans(rng, sorted_only=(rng.random() < 0.4)) for _ in range(nl)]
        if nl > 1 and rng.random() < 0.2:
            # last round: SOME language of the set has an EMPTY caption list (first / middle / last); every writer must
            # still write every cue of the other languages
            langs[rng.randrange(nl)] = []
            dist["sets_with_an_empty_language"] = dist.get("sets_with_an_empty_language", 0) + 1
        cases.append((langs, two))
    # ---- the line / xml writers, with constructor and write() options varied ---------------------------
    base_kinds = ["srt", "vtt", "mdvd", "dfxp", "legacy", "single"]
    opt_kinds = [k for k in WRITERS if k not in base_kinds]
    model_reqs, jobs = [], []
    built = [build_set(langs, two) for (langs, two) in cases]
    flat_groups = groups_of([codes for (_, codes) in built])
    dist["captions_with_several_layout_groups"] = sum(1 for gl in flat_groups for g in gl if g > 1)
    dist["max_layout_groups"] = max([g for gl in flat_groups for g in gl] + [0])
    for (langs, two), (cs, codes), fg in zip(cases, built, flat_groups):
        groups, i0 = [], 0
        for spans in langs:
            groups.append(fg[i0:i0 + len(spans)])
            i0 += len(spans)
        extra_kinds = ["vtt-lang", "vtt-first", "vtt-second"] if any(not sp for sp in langs) else []
        for kind in base_kinds + extra_kinds + [k for k in rng.sample(opt_kinds, 3) if k not in extra_kinds]:
            obs = observe(kind, cs, langs)
            want = sorted(obs.v) if isinstance(obs, Ok) else [0]
            for li in want:
                spans = langs[li]
                g = groups[li] if family(kind) == "vtt" else [1] * len(spans)
                if isinstance(obs, Ok):
                    o = [[x if isinstance(x, str) else "" for x in pair] for pair in obs.v[li]]
                else:
                    o = obs
                jobs.append((kind, li, langs, two, spans, g, o))
                model_reqs.append((200, [KINDS[kind], wire_caps(spans), g]))
    models = oracle_batch(model_reqs)
    ok_reqs = [(201, [KINDS[k], wire_caps(spans), g, o if not isinstance(o, Err) else []])
               for (k, li, langs, two, spans, g, o) in jobs]
    oks = oracle_batch(ok_reqs)
    times = sorted({t for (langs, two) in cases for spans in langs for se in spans for t in se}, key=exact)
    cls = dict(zip(times, oracle_batch([(204, exact(t)) for t in times])))
    dist["distinct_times"] = len(times)
    dist["integer_times"] = sum(1 for t in times if cls[t][0] == 1)
    dist["float_times"] = sum(1 for t in times if cls[t][0] != 1)
    dist["float_times_two_valued_ms"] = sum(1 for t in times if cls[t][1] == 1)
    dist["float_times_two_valued_frames"] = sum(1 for t in times if cls[t][2] == 1)
    skipped_model = 0
    for (kind, li, langs, two, spans, g, o), m, ok in zip(jobs, models, oks):
        res["evaluations"] += 1
        dist[kind] = dist.get(kind, 0) + 1
        if li > 0:
            dist["checks_of_a_further_language"] = dist.get("checks_of_a_further_language", 0) + 1
        for (s, e) in spans:
            if exact(s) >= 60 * 10**6 or exact(s) % 1000 != 0 or exact(e) % 1000 != 0:
                res["nontrivial"].add((family(kind), s, e))
        if isinstance(o, Err) or ok != 1:
            res["violations"].append({
                "kind": family(kind) + "-tokens", "writer": kind,
                "what": "%s writer: timing tokens %s do not convey the captions %s of language %d (every caption by a cue "
                        "with its start and end truncated to the format's resolution; %s)" % (
                            kind, o if not isinstance(o, Err) else "raised " + impl.ERR_NAMES.get(o.code, "?"), spans, li,
                            {0: "captions with identical times may share a cue", 2: "captions with identical times may share a cue",
                             3: "one or more cues per caption"}.get(KINDS[kind], "one cue per caption")),
                "input": [[list(map(repr, se)) for se in sp] for sp in langs], "lang_index": li, "two_layout": two,
                "observed": o if not isinstance(o, Err) else repr(o), "replay": "write"})
            continue
        if m == BAD_WIRE:
            continue
        if len(m) != len(o):
            # the oracle holds ("may merge" / "may split") but the cue structure is not the model's: ties the model
            res["disagreements"].append({"writer": kind, "what": "cue structure differs from the model (merging / layout "
                                         "groups); the statement allows both", "spans": [list(map(repr, se)) for se in spans],
                                         "impl": o, "model": m})
            continue
        if family(kind) == "mdvd" and any(cls[t][2] == 1 for se in spans for t in se):
            skipped_model += 1          # float noise may take either admissible frame
            continue
        if m != o:
            # same structure, same denoted values, another spelling / the other admissible value of a non-integer time
            spell_diff(res, {"writer": kind, "spans": [list(map(repr, se)) for se in spans], "impl": o, "model": m})
    dist["mdvd_two_valued_not_compared_with_model"] = skipped_model
    # ---- SAMI -----------------------------------------------------------------------------------
    # boundary grid first: a cue ending inside millisecond 0, zero-length cues, touching / non-touching ms, last ms of the day
    sami_cases = [[[(0, 900), (5000000, 6000000)]], [[(0, 0), (0, 1000)]], [[(0, 999), (999, 1000), (1000, 1000)]],
                  [[(1000, 2000), (2000, 3000), (3001, 4000), (4999, 5000)]], [[(500, 1500.5), (1500.5, 86399999999)]],
                  [[(0, 900), (5000000, 6000000)], [(0, 40000), (40000, 80000)]],
                  [[(1000000.25, 1999999.75), (2000000.0, 2000999.9999)]],
                  # one language with overlapping / nested cues: the rule holds in caption order (blank syncs may then be
                  # out of time order in the document; C02 does not demand time order)
                  [[(1000000, 2500999), (4000000, 5000000), (5000000, 9000000), (7000000, 8000000),
                    (3600000000, 3661001000), (3660000000, 3662000000)]],
                  [[(5000000, 9000000), (7000000, 8000000), (1000000, 2000000), (1000000, 2000000)]]]
    for i in range(ctx.n(500, 15000)):
        nl = rng.choice([1, 1, 2, 3])
        langs = [gen_spans(rng, sorted_only=(rng.random() < 0.6)) for _ in range(nl)]
        sami_cases.append(langs)
    reqs_m, reqs_ok, sjobs, reqs_doc = [], [], [], []
    for si, langs in enumerate(sami_cases):
        reqs_doc.append((206, [wire_caps(sp) for sp in langs]))
        cs, _ = build_set(langs, False)
        mk = rng.choice([lambda: SAMIWriter(), lambda: SAMIWriter(),
                         lambda: SAMIWriter(relativize=False, fit_to_screen=False, video_width=640, video_height=360)])
        obs = impl.call(lambda: tokens_sami(mk().write(cs)))
        for li, spans in enumerate(langs):
            if isinstance(obs, Ok):
                o = obs.v.get(LANGS[li], [])
            else:
                o = obs
            sjobs.append((langs, li, spans, o, si))
            reqs_m.append((202, wire_caps(spans)))
            reqs_ok.append((203, [wire_caps(spans), o if not isinstance(o, Err) else []]))
    models = oracle_batch(reqs_m)
    oks = oracle_batch(reqs_ok)
    docs = []
    for i in range(0, len(reqs_doc), 300):
        docs += oracle_batch(reqs_doc[i:i + 300])
    for (langs, li, spans, o, si), m, ok in zip(sjobs, models, oks):
        res["evaluations"] += 1
        # the DOCUMENT model (model/Langs.v sami_write over all languages of the set, request 206): where the syncs of
        # every language stand in the body - compared for EVERY set, timeline or not
        dm = docs[si]
        if dm != BAD_WIRE and not isinstance(o, Err) and all(re.fullmatch(r"-?[0-9]+", x[0]) for x in o):
            bump_key = "sami_languages_compared_with_the_document_model"
            dist[bump_key] = dist.get(bump_key, 0) + 1
            if [[int(x[0]), bool(x[1])] for x in o] != [[x[0], x[1] == 1] for x in dm[li]]:
                res["disagreements"].append({"writer": "sami", "what": "the paragraphs of language %d in the written "
                                             "document differ from the document model (placement of syncs)" % li,
                                             "input": [[list(map(repr, se)) for se in sp] for sp in langs],
                                             "impl": o, "model": dm[li]})
            elif ok != 1 and li > 0:
                k2 = "sami_later_language_orders_predicted_by_the_document_model"
                dist[k2] = dist.get(k2, 0) + 1
        dist["sami"] = dist.get("sami", 0) + 1
        touching = sum(1 for a, b in zip(spans, spans[1:]) if exact(a[1]) // 1000 == exact(b[0]) // 1000)
        if len(spans) >= 2:
            res["nontrivial"].add(("sami", tuple(spans)))
        dist["sami_touching_pairs"] = dist.get("sami_touching_pairs", 0) + touching
        timeline = all(exact(a) <= exact(b) for (a, b) in spans) and \
            all(exact(x[1]) <= exact(y[0]) for x, y in zip(spans, spans[1:]))
        set_timeline = all(all(exact(a) <= exact(b) for (a, b) in sp) and
                           all(exact(x[1]) <= exact(y[0]) for x, y in zip(sp, sp[1:])) for sp in langs)
        if not timeline:
            dist["sami_languages_not_a_timeline"] = dist.get("sami_languages_not_a_timeline", 0) + 1
            if li == 0:     # in the domain: must satisfy the rule
                dist["sami_first_languages_not_a_timeline_checked"] = \
                    dist.get("sami_first_languages_not_a_timeline_checked", 0) + 1
        if isinstance(o, Err) or ok != 1:
            shape = "raised" if isinstance(o, Err) else ("float-start" if any("." in x[0] for x in o) else "sync-rule")
            rule = sorted([str(x[0]), x[1] == 1] for x in m) if m != BAD_WIRE else None
            if shape == "sync-rule" and li > 0 and not set_timeline and rule is not None \
                    and sorted([str(x[0]), bool(x[1])] for x in o) == rule:
                # a FURTHER language (its syncs are inserted into the shared list by time, _find_closest_sync) in a set
                # that is not a timeline: exactly the syncs of the rule are written, but in another document order than
                # the caption order (recorded finding).  The first language, whatever its shape, and every language
                # of a timeline set must satisfy the rule as it stands.
                shape = "later-language-sync-order"
            res["violations"].append({
                "kind": "sami-" + shape, "writer": "sami",
                "what": "SAMI writer: syncs %s of language %s do not convey the cues %s (integer ms start, blank sync at "
                        "the end ms unless the next cue starts there, nothing after the last)" % (
                            o if not isinstance(o, Err) else "raised", LANGS[li], spans),
                "input": [[list(map(repr, se)) for se in sp] for sp in langs], "lang_index": li,
                "observed": o if not isinstance(o, Err) else repr(o), "replay": "sami"})
            continue
        mm = [[x[0], x[1] == 1] for x in m]
        if mm != [[x[0], bool(x[1])] for x in o]:
            spell_diff(res, {"writer": "sami", "spans": [list(map(repr, se)) for se in spans], "impl": o, "model": mm})
    dist.setdefault("tokens_differing_from_model_but_accepted", 0)
    res["notes"].append("tokens that satisfy the oracle but differ from the model's prediction (spelling, or the other "
                        "admissible value of a non-integer time): %d (recorded, not failing)"
                        % dist["tokens_differing_from_model_but_accepted"])
    stream_dfxp_doc_text(ctx, res)
    stream_reuse_after_error(ctx, res)
    stream_sami_doc_text(ctx, res)
    stream_dfxp_doc_langs(ctx, res)
    if ctx.thorough:
        sweep(ctx, res)
    res["rule"] = ("caption sets of 1-3 languages, 1-6 captions, EVERY language arbitrary (runs, overlaps, unsorted, "
                   "zero-length): times from the carry grid {0,1,999,1000,999999,10^6,59999999,60*10^6,3599999999,3600*10^6,"
                   "86399999999,...}+-1, uniform integers below 24 h, float times read by the real SCCReader from generated "
                   "pop-on streams (drop and non-drop), floats computed like the SCC reader (frames/30[*1001/1000]*10^6), "
                   "grid +- {1/4,1/3,1/2,3/4}, int / float spellings of equal spans; runs of 1-4 equal spans, near-miss "
                   "spans sharing only start or end, touching cues, node / layout sequences with up to 4 layout groups in "
                   "every language. 15 writer configurations: SRT, WebVTT, MicroDVD, DFXP, legacy DFXP, single-position "
                   "DFXP with their options varied (relativize, fit_to_screen, video size, write_inline_positioning, "
                   "force=, lang=, default_positioning). Every language of every document is observed (SRT sections, "
                   "MicroDVD lines split by the caption counts, surplus lines kept); WebVTT writes one language (declared "
                   "decision). Oracle: ok_cues - SRT / legacy / single-position MAY merge runs, WebVTT MAY repeat a cue, "
                   "DFXP / MicroDVD exactly one cue per caption. Structural differences from the model (cue counts, SAMI "
                   "sequence) are correspondence disagreements, spelling differences are counted. SAMI: the FIRST language of "
                   "a set must satisfy the sync rule whatever its shape (overlapping, nested, unsorted, repeated cues); a "
                   "FURTHER language of a set that is not a timeline whose syncs are exactly the rule's but in another "
                   "document order: own failure-keyed kind, known finding. Non-trivial: distinct (writer, start, end) with start >= 1 min or a sub-millisecond part; SAMI "
                   "lists with >= 2 cues. DFXP document stream (wave 7): 150 single-language caption lists (1-5, 3%: 60 captions; "
                   "integer times from the same generator, any order), 1-3 text lines of atoms with & < > quotes ]]> U+00A0 "
                   "non-ASCII: model text == real text (recorded), real text read back by the real reader (violation) and by "
                   "the string-level reader model (disagreement) == floored captions.")
    res["clauses"] = {
        "theorem": ["shared formatter / WebVTT formatter: printed fields parse (independent parser) to floor(rhe t/1000) ms, "
                    "2/2/2/3 digits, MM<60, SS<60, for all 0 <= t < 24 h; rhe t = t on integers; value accepted by the spec",
                    "MODEL MEETS ORACLE for all five writer kinds: the token lists of the SRT (merge loop), legacy / "
                    "single-position (merge_concurrent_captions), DFXP, MicroDVD and WebVTT (layout groups) models satisfy "
                    "the extracted oracle ok_cues on every caption list with times in [0, 24 h) "
                    "(C02_*_model_meets_oracle); SAMI: C02_sami_write_ok",
                    "SAMI sync rule over all caption lists (C02_sami_sync_rule, rule stated in spec/)",
                    "SAMI DOCUMENT over several languages: first language any shape, every language of a timeline set, any "
                    "number of languages (C02_sami_first_language_rule, C02_sami_every_language_rule, "
                    "C02_sami_document_meets_oracle)",
                    "binary64 int(t*25.0/1e6) = exact floor for integer t < 24 h (C02_mdvd_frames_binary64)",
                    "SRT and legacy/single-position cues = maximal runs",
                    "DFXP DOCUMENT at string level (wave 7): the written text is a well-formed rendering whose begin / end "
                    "attributes are the writer model's tokens, and the string-level reader model reads it back as one "
                    "caption per caption, in order, floored to the millisecond, for every caption list with integer times "
                    "below 24 h (C02_dfxp_document_wellformed_unfold, _tokens, _string)",
                    "SAMI DOCUMENT at string level (round 4): the written body text, read by the string-level SAMI reader "
                    "model, yields every caption of a timeline with start and non-final end floored to the ms and the "
                    "4 s tail (C02_sami_document_string)"],
        "definitional_or_partial": ["C02_mdvd_frames_floor_partial, C02_sami_start_integer_partial: model and spec are the "
                                    "same exact-rational floor; content = the decimal printer round trip; the binary64 "
                                    "computation of the real writers is NOT modelled",
                                    "C02_vtt_group_count: describes the model's grouping loop (1 + layout changes)",
                                    "C02_acc_ms_int, C02_acc_frames_int, C02_acc_ms_respects_equality: spec-internal",
                                    "C02_sami_float_start_refuted, C02_sami_blank_after_ms0_refuted: history (pre-fix "
                                    "variants of the model)"],
        "correspondence_only": ["binary64 arithmetic for FLOAT times; int(t // 1000) of SAMI",
                                "token extraction through lxml / html.parser / block splitters",
                                "that the real writers print the cues of the caption-list models (cue counts compared: "
                                "a difference is a disagreement)", "writer options do not touch the times",
                                "SAMI placement of syncs for sets that are not timelines (document model compared, request 206)"]}
    res["samples"] = [{"spans": [[repr(s), repr(e)] for (s, e) in cases[0][0][0]]}]
    return res


def sweep(ctx, res):
    """thorough: 891 sampled seconds (every 97th) x 3 anchors (second start, last microsecond, a frame boundary) x {-1,0,+1}
    through SRT, WebVTT, MicroDVD (a sample), then - wave 7 - EVERY MicroDVD frame boundary below 24 h (sweep_frames)"""
    for base in range(0, 86400, 97):
        spans = []
        for k in (base * 10**6, base * 10**6 + 999999, base * 10**6 + 40000 * 7):
            for d in (-1, 0, 1):
                t = min(max(k + d, 0), 86399999999)
                spans.append((t, t))
        cs, _ = build_set([spans], False)
        for kind in ("srt", "vtt", "mdvd"):
            o = observe(kind, cs, [spans])
            ok = oracle1(201, [KINDS[kind], wire_caps(spans), [1] * len(spans), o.v[0] if isinstance(o, Ok) else []])
            res["evaluations"] += 1
            if ok != 1:
                res["violations"].append({"kind": kind + "-tokens", "writer": kind, "what": "sweep: %s" % (spans,),
                                          "input": [[list(map(repr, se)) for se in spans]], "lang_index": 0,
                                          "two_layout": False, "observed": repr(o), "replay": "write"})
    res["distribution"]["sweep_boundaries"] = 86400 // 97 * 9
    sweep_frames(res)


def sweep_frames(res, lo=1, hi=86400 * 25, block=20000):
    """wave 7, thorough: EVERY MicroDVD frame boundary below 24 h (2 160 000 frames at 25 fps): the last microsecond before
    the boundary (as a start) and the boundary itself (as an end) go through the real MicroDVDWriter (public API, blocks of
    20 000 captions; about 3 minutes); expected frame numbers in exact integer arithmetic (t * 25 // 10**6 = what C02_mdvd_frames_binary64
    proves the binary64 computation returns)."""
    import re as _re
    from pycaption import MicroDVDWriter, CaptionSet, CaptionList, Caption, CaptionNode
    pat = _re.compile(r"^\{(\d+)\}\{(\d+)\}x$")
    bad = 0
    for a in range(lo, hi, block):
        ns = range(a, min(a + block, hi))
        caps, exp = [], []
        for n in ns:
            b = 40000 * n
            caps.append(Caption(b - 1, b, [CaptionNode.create_text("x")]))    # start: last us of frame n-1, end: first of n
            exp.append((n - 1, n))
        out = impl.call(lambda: MicroDVDWriter().write(CaptionSet({"en-US": CaptionList(caps)})))
        res["evaluations"] += 1
        got = []
        if isinstance(out, Ok):
            for line in out.v.split("\n"):
                m = pat.match(line)
                if m:
                    got.append((int(m.group(1)), int(m.group(2))))
        if got != exp:
            bad += 1
            k = next((i for i, (x, y) in enumerate(zip(got, exp)) if x != y), 0)
            c = caps[k] if k < len(caps) else caps[0]
            res["violations"].append({"kind": "mdvd-tokens", "writer": "mdvd",
                                      "what": "frame-boundary sweep: caption (%d, %d) written as %s, expected %s" % (
                                          c.start, c.end, got[k] if k < len(got) else repr(out)[:80], exp[k] if k < len(exp) else None),
                                      "input": [[[repr(c.start), repr(c.end)]]], "lang_index": 0, "two_layout": False,
                                      "observed": repr(got[k] if k < len(got) else None), "replay": "write"})
            if bad >= 3:
                break
    res["distribution"]["sweep_every_frame_boundary_below_24h"] = hi - lo


def parse_time(r):
    return float(r) if ("." in r or "e" in r or "inf" in r) else int(r)


def replay(ctx, rec):
    if rec.get("replay") == "reuse-after-error":
        from pycaption.geometry import Point, Size, UnitEnum
        px = Layout(origin=Point(Size(100, UnitEnum.PIXEL), Size(50, UnitEnum.PIXEL)))
        makers = {"srt": SRTWriter, "vtt": WebVTTWriter, "mdvd": MicroDVDWriter, "dfxp": DFXPWriter, "legacy": LegacyDFXPWriter,
                  "single": SinglePositioningDFXPWriter, "sami": SAMIWriter}
        t0 = rec.get("t0", 0)
        bad = CaptionSet({LANGS[0]: CaptionList([Caption(t0 + 1000, t0 + 2500, [CaptionNode.create_text("first")]),
                                                 Caption(t0 + 3000, t0 + 5000, [CaptionNode.create_text("px", layout_info=px)],
                                                         layout_info=px)])})
        spans = [(parse_time(s), parse_time(e)) for (s, e) in rec["input"][0]]
        good, _ = build_set([spans], 0)
        w = makers[rec["writer"]]()
        impl.call(lambda: w.write(bad))
        a = impl.call(lambda: w.write(good))
        b = impl.call(lambda: makers[rec["writer"]]().write(good))
        return not (isinstance(a, Ok) and isinstance(b, Ok) and a.v == b.v), repr(a)[:300]
    if rec.get("replay") == "none-langs":
        return True, rec.get("what")
    if rec.get("replay") == "sami-doc":
        from pycaption import SAMIReader
        lang, caps = rec["input"]
        pc = []
        for (a, b, lines) in caps:
            nodes = []
            for i, l in enumerate(lines):
                if i:
                    nodes.append(CaptionNode.create_break())
                nodes.append(CaptionNode.create_text(l))
            pc.append(Caption(a, b, nodes))
        want_t = [[a // 1000 * 1000, b // 1000 * 1000] for (a, b, _) in caps]
        want_t[-1][1] = want_t[-1][0] + 4000000
        back = impl.call(lambda: [[l, [[c.start, c.end] for c in cs.get_captions(l)]]
                                  for cs in [SAMIReader().read(SAMIWriter().write(CaptionSet({lang: CaptionList(pc)})))]
                                  for l in cs.get_languages()])
        return not (isinstance(back, Ok) and back.v == [[lang, want_t]]), repr(back)
    if rec.get("replay") == "dfxp-doc":
        from pycaption import DFXPWriter, DFXPReader, CaptionSet, CaptionList, Caption, CaptionNode
        lang, caps = rec["input"]
        pc = []
        for (a, b, lines) in caps:
            nodes = []
            for i, l in enumerate(lines):
                if i:
                    nodes.append(CaptionNode.create_break())
                nodes.append(CaptionNode.create_text(l))
            pc.append(Caption(a, b, nodes))
        want = [[lang, [[a // 1000 * 1000, b // 1000 * 1000] for (a, b, _) in caps]]]
        back = impl.call(lambda: [[l, [[c.start, c.end] for c in cs.get_captions(l)]]
                                  for cs in [DFXPReader().read(DFXPWriter().write(CaptionSet({lang: CaptionList(pc)})))]
                                  for l in cs.get_languages()])
        return not (isinstance(back, Ok) and back.v == want), repr(back)
    langs = [[(parse_time(s), parse_time(e)) for (s, e) in sp] for sp in rec["input"]]
    li = rec["lang_index"]
    spans = langs[li]
    if rec["replay"] == "sami":
        cs, _ = build_set(langs, False)
        obs = impl.call(lambda: tokens_sami(SAMIWriter().write(cs)))
        if isinstance(obs, Err):
            return True, repr(obs)
        o = obs.v.get(LANGS[li], [])
        return oracle1(203, [wire_caps(spans), o]) != 1, o
    kind = rec["writer"]
    cs, codes = build_set(langs, rec.get("two_layout", 0))
    fg = groups_of([codes])[0]
    i0 = sum(len(sp) for sp in langs[:li])
    obs = observe(kind, cs, langs)
    if isinstance(obs, Err):
        return True, repr(obs)
    o = obs.v.get(li, [])
    g = fg[i0:i0 + len(spans)] if family(kind) == "vtt" else [1] * len(spans)
    return oracle1(201, [KINDS[kind], wire_caps(spans), g, o]) != 1, o
