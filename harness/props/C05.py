"""C05 - SCC pop-on decoding reproduces the CEA-608 screen: text, rows, italics, position.

Inputs: abstract pop-on programs (coq/spec/SpecScc05.v): loads of rows; a row = preamble address code (row 1-15,
indent 0-28, tab offset 0-3, optional italics attribute) + items (basic / special / extended-with-stand-in characters,
mid-row italics / plain, backspace); control codes single or doubled (PAC + tab offset doubled as a unit).
The code words are produced by the Coq emitter (request 501, from spec/Spec608.v, independent of pycaption's tables).
Streams:
  A  table sweep (deterministic, single and doubled): every one of the 15 x 8 x 4 cursor addresses; every preamble
     style of every row (7 colours x underline, italics, italics underline; underline bit of the indent preambles)
     followed by a plain row; every one of the 16 mid-row codes with italics off and on; every basic / special /
     extended character in first, middle, last position; backspace after every basic, special and extended character;
     extended after extended
  B  random programs: 1-4 loads of 1-4 rows
  C  random code-word soups (any order of any code class): decoder-model correspondence only
Observation (public API): SCCReader().read(stream) -> captions: times, nodes (text / break / italics), layout.
Correspondence: the full extracted decoder model (request 600): times 2^-10 us, nodes exact, layout 1e-9 %.
Property oracle: Coq ok_c05 (request 502) on the implementation's captions for every program in dom_c05.
"""
import impl
import sccgen as g
import sccobs
import sccsoup
from wire import Ok, Err, Some, oracle_batch, oracle1

TABLES = ("GenScc.v",)
BASIC = [c for c in g.BASIC_CHARS]
LETTERS = "abcdefghijklmnopqrstuvwxyzABCDEFGHIJKLMNOPQRSTUVWXYZ0123456789.,!?'-:;()$%&/+=<>@[]"


def ch(c):
    return [0, ord(c)]


def text_items(s):
    return [ch(c) for c in s]


def rand_items(rng, maxlen):
    """items of one row; first / last visible cell is not a blank"""
    n = rng.randint(1, max(1, min(maxlen, rng.choice([2, 4, 8, 12, 20, 32]))))
    items = []
    cells = 0
    prev = None
    while cells < n:
        r = rng.random()
        last = cells == n - 1
        if r < 0.62 or (cells == 0 and r < 0.8):
            c = rng.choice(LETTERS) if rng.random() < 0.9 else rng.choice("áéíóúçÑñ÷")
            if 0 < cells < n - 1 and rng.random() < 0.15 and prev not in ("space", "mid"):
                items.append(ch(" "))
                prev = "space"
            else:
                items.append(ch(c))
                prev = "ch"
            cells += 1
        elif r < 0.70:
            i = rng.choice([0, 1, 2, 3, 4, 5, 6, 7, 8, 10, 11, 12, 13, 14, 15])
            if prev == ("sp", i):
                continue
            items.append([1, i])
            prev = ("sp", i)
            cells += 1
        elif r < 0.80:
            items.append([2, ord(rng.choice("aeioucAEOUnN-x")), rng.randint(0, 1), rng.randint(0, 31)])
            prev = "ext"
            cells += 1
        elif r < 0.88:
            if cells + 1 >= n and not last:
                continue
            items.append([3, rng.choice([14, 14, 14, 15, 15, 0, 0, 1, rng.randint(0, 15)])])
            prev = "mid"
            cells += 1
        elif r < 0.94 and (prev in ("ch", "ext") or isinstance(prev, tuple)) and cells + 1 < n:
            items.append([5])
            prev = "bs"
            cells -= 1
    if items and items[-1] == ch(" "):
        items[-1] = ch("x")
    return items


def rand_program(rng):
    doubled = rng.random() < 0.6
    loads = []
    for _ in range(rng.choice([1, 1, 2, 2, 3, 4])):
        nrows = rng.choice([1, 1, 2, 2, 3, 4])
        if rng.random() < 0.6:
            start = rng.randint(1, 16 - nrows)
            rows = list(range(start, start + nrows))
        else:
            rows = rng.sample(range(1, 16), nrows)
        load = []
        for r in rows:
            indent = rng.choice([0, 0, 0, 4, 8, 12, 16, 20, 24, 28])
            if indent == 0:
                style = rng.choice([0, 0, 0, 0, 1, 14, 14, 15, 15, rng.randint(2, 13)])
            else:
                style = rng.choice([0, 0, 0, 1])
            tab = rng.choice([0, 0, 0, 1, 2, 3])
            load.append([r, indent, tab, style, rand_items(rng, 32 - indent - tab)])
        loads.append(load)
    return [doubled, loads]


def sweep_programs():
    out = []
    for doubled in (False, True):
        for r in range(1, 16):
            for ind in range(0, 32, 4):
                for tab in range(4):
                    out.append([doubled, [[[r, ind, tab, 0, text_items("Ab")]]]])
                if ind:                                           # underline bit of the indent preambles
                    out.append([doubled, [[[r, ind, 0, 1, text_items("un")]]]])
            for style in range(16):                               # every colour / underline / italics preamble
                load = [[r, 0, 0, style, text_items("st")]]
                if r < 15:
                    load.append([r + 1, 0, 0, 0, text_items("pl")])   # a plain preamble on the next row ends italics
                out.append([doubled, [load]])
            out.append([doubled, [[[r, 0, 2, 15, text_items("it") + [[3, 0]] + text_items("pl")]]]])
        for a in range(16):                                       # every mid-row code, italics off and on before it
            out.append([doubled, [[[15, 0, 0, 0, text_items("ab") + [[3, a]] + text_items("cd") + [[3, 0]] + text_items("ef")]]]])
            out.append([doubled, [[[14, 0, 0, 14, text_items("ab") + [[3, a]] + text_items("cd")],
                                   [15, 4, 0, 0, text_items("gh")]]]])
        for c in BASIC:
            if c != " ":
                out.append([doubled, [[[15, 0, 0, 0, [ch(c)] + text_items("mid") + [ch(c)] + text_items("x") + [ch(c)]]]]])
                out.append([doubled, [[[12, 0, 0, 0, text_items("Hi") + [ch(c), [5]] + text_items("BC")]]]])
        for i in range(16):
            if i != 9:
                out.append([doubled, [[[14, 4, 0, 0, [[1, i]] + text_items("ab") + [[1, i]] + text_items("c") + [[1, i]]]]]])
                out.append([doubled, [[[12, 0, 0, 0, text_items("Hi") + [[1, i], [5]] + text_items("BC")]]]])
        for grp in range(2):
            for i in range(32):
                e = [2, ord("e"), grp, i]
                out.append([doubled, [[[13, 0, 1, 0, [e] + text_items("ab") + [e] + text_items("c") + [e]]]]])
                out.append([doubled, [[[12, 0, 0, 0, text_items("Hi") + [[2, ord("A"), grp, i], [5]] + text_items("BC")]]]])
                out.append([doubled, [[[11, 0, 0, 0, text_items("Hi") + [e, [2, ord("A"), grp, i]] + text_items("BC")]]]])
    return out


def mid_on_empty_after_full(prog):
    """lc_ok8 of proofs/SccPoponStage8.v beyond dom_c05: a row filling its 32 cells is directly followed by a row in which
    a mid-row code arrives while the row shows no character yet (first item, after other mid-row codes, or after a
    backspace emptied the row): the reader appends the code's blank to the previous text, which trips the length check"""
    def cells_and_flag(items):
        acc, flag = [], False
        for it in items:
            if it[0] == 3:
                if not any(c == "cell" for c in acc):
                    flag = True
                acc.append("opt")
            elif it[0] == 5:
                if acc:
                    acc.pop()
            else:
                acc.append("cell")
        return len(acc), flag
    for load in prog[1]:
        info = [cells_and_flag(r[4]) for r in load]
        for (n, _), (_, flag) in zip(info, info[1:]):
            if n >= 32 and flag:
                return True
    return False


def build_stream(prog, words, clear, rng=None):
    lines = []
    frame = 30
    for ws in words:
        lines.append((frame, ["%04x" % w for w in ws]))
        frame += len(ws) + (rng.choice([8, 30, 90]) if rng else 30)
    lines.append((frame + 60, ["%04x" % w for w in clear]))
    return g.doc([(g.timecode(f, False), ws) for f, ws in lines])


def wire_obs(o):
    """canonical observation -> wire for request 502"""
    if isinstance(o, tuple):
        return Err(4)
    if isinstance(o, Err):
        return o
    caps = []
    for c in o.v:
        nodes = []
        for n in c[2]:
            if n[0] == 0:
                nodes.append([0, n[1]])
            elif n[0] == 1:
                nodes.append([1])
            else:
                nodes.append([2, n[1] is True])
        xy = c[3]
        good = xy is not None and not isinstance(xy[0], str)
        caps.append([c[0], c[1], nodes, Some([xy[0], xy[1]]) if good else None])
    return Ok(caps)


def show(o):
    if isinstance(o, Ok):
        return [[str(c[0]), str(c[1]), [n[:2] for n in c[2]], [str(v) for v in c[3]] if c[3] else None] for c in o.v]
    return repr(o)


def run(ctx):
    rng = ctx.rng
    res = {"evaluations": 0, "nontrivial": set(), "violations": [], "disagreements": [], "streams": 3, "notes": []}
    dist = {"sweep_programs": 0, "random_programs": 0, "soups": 0, "out_of_domain": 0, "tracker_leak_shape": 0,
            "doubled": 0, "items": {"ch": 0, "sp": 0, "ext": 0, "mid": 0, "bs": 0}, "loads": {}, "outcome": {}}
    res["distribution"] = dist
    progs = [("sweep", p) for p in sweep_programs()]
    dist["sweep_programs"] = len(progs)
    progs += [("random", rand_program(rng)) for _ in range(ctx.n(1500, 40000))]
    dist["random_programs"] = len(progs) - dist["sweep_programs"]
    emitted = oracle_batch([(501, p) for _, p in progs])
    cases = []
    for (kind, p), e in zip(progs, emitted):
        stream = build_stream(p, e[2], e[3], rng if kind == "random" else None)
        cases.append((kind, p, e[0] == 1, e[1] == 1, stream))
    obs = [sccobs.observe(c[4]) for c in cases]
    models = sccobs.model_batch([(c[4], 0) for c in cases])
    oks = oracle_batch([(502, [c[1], wire_obs(o)]) for c, o in zip(cases, obs)])
    names = {0: "ch", 1: "sp", 2: "ext", 3: "mid", 5: "bs"}
    for (kind, p, dom, indep, stream), o, m, ok in zip(cases, obs, models, oks):
        res["evaluations"] += 1
        dist["doubled"] += p[0]
        dist["loads"][len(p[1])] = dist["loads"].get(len(p[1]), 0) + 1
        for l in p[1]:
            for r in l:
                for it in r[4]:
                    dist["items"][names[it[0]]] += 1
        oc = "ok" if isinstance(o, Ok) else ("len" if isinstance(o, tuple) else impl.ERR_NAMES.get(o.code, o.code))
        dist["outcome"][oc] = dist["outcome"].get(oc, 0) + 1
        d = sccobs.same(o, m)
        if d:
            res["disagreements"].append({"stream": stream, "program": p, "difference": d})
        if not dom:
            dist["out_of_domain"] += 1
            continue
        if mid_on_empty_after_full(p):
            dist["mid_on_empty_after_full_row_excluded"] = dist.get("mid_on_empty_after_full_row_excluded", 0) + 1
            continue
        if sum(len(l) for l in p[1]) >= 2 or kind == "sweep":
            res["nontrivial"].add(stream)
        if not indep:
            dist["tracker_leak_shape"] += 1
        if ok != 1:
            res["violations"].append({
                "kind": "screen-mismatch", "replay": "program",
                "what": "the captions read differ from the CEA-608 screen of the program (characters, lines, italics, "
                        "position or grouping)",
                "input": p, "program": p, "stream": stream, "impl_obs": show(o)})
    # C: soups - decoder model vs implementation only
    soups = [sccsoup.soup(rng) for _ in range(ctx.n(1500, 40000))]
    so = [sccobs.observe(s) for s in soups]
    sm = sccobs.model_batch([(s, 0) for s in soups])
    for s, o, m in zip(soups, so, sm):
        res["evaluations"] += 1
        dist["soups"] += 1
        d = sccobs.same(o, m)
        if d:
            res["disagreements"].append({"stream": s, "difference": d, "which": "soup"})
    res["rule"] = ("A: 2 x (480 cursor addresses + 30 italic-preamble rows + 94 basic + 15 special + 64 extended characters in "
                   "first/middle/last position); B: random programs of 1-4 loads x 1-4 rows (adjacent or scattered), indent, "
                   "tab offset, italics preamble, items drawn from basic 62% / special 8% / extended 10% / mid-row 8% / "
                   "backspace 5%, doubled 60%; C: random soups over all code classes. Non-trivial: a sweep program or a "
                   "program with at least two rows, inside dom_c05. Distinct streams counted.")
    res["samples"] = [{"program": c[1], "stream": c[4]} for c in cases[-2:]]
    res["clauses"] = {
        "theorem": ["generated tables = CEA-608 (all basic / special / extended codes, the 15 x 32 preamble grid, tab "
                    "offsets, control codes, class disjointness, style classes)", "layout linear on all 480 positions",
                    "a doubled control / special / extended code counts once; PAC+TO doubled as a unit counts once; "
                    "PAC PAC TO TO drops the offset", "extended character replaces exactly its stand-in; backspace "
                    "deletes exactly one character", "italic nodes balanced per caption for ALL instruction lists; "
                    "the italics passes keep every text / break / reposition node"],
        "correspondence_only": ["popon_refines_608 (decoder state machine on whole programs): full decoder model vs "
                                "implementation on every program and soup; oracle ok_c05 on the implementation",
                                "mid-row code blank cell: a space or nothing is accepted (Opt)"]}
    return res


def replay(ctx, rec):
    p = rec["program"]
    e = oracle1(501, p)
    o = sccobs.observe(rec["stream"])
    ok = oracle1(502, [p, wire_obs(o)])
    return ok != 1, str(show(o))[:600]
