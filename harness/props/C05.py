"""C05 - SCC pop-on decoding reproduces the CEA-608 screen: text, rows, italics, position.

Inputs: abstract pop-on programs (coq/spec/SpecScc05.v): loads of rows; a row = preamble address code (row 1-15, indent
0-28, tab offset 0-3, style attribute: 7 colours x underline, italics, italics underline) + items (basic / special /
extended-with-stand-in characters, the 16 mid-row codes, backspace). The code words are produced by the Coq emitter
(request 501, from spec/Spec608.v, independent of pycaption's tables), single-coded; the harness then doubles control
codes PER CODE (all / none / each with probability 1/2; PAC + tab offset doubled as a unit) and lays the loads out on
timecode lines in varying ways: one load per line, several loads on a line, a load split over lines, loads WITHOUT
Erase-Non-displayed-Memory, Erase-Displayed-Memory before a load on its line / on lines of their own / absent, upper-case
hex digits, CRLF line ends, double blanks.
Streams:
  A  table sweep (deterministic, all single and all doubled): every cursor address; every preamble style of every row
     followed by a plain row; every mid-row code with italics off and on; every basic / special / extended character in
     first / middle / last position; backspace after every basic, special and extended code; extended after extended;
     backspace at the start of a row (known finding)
  B  bounded-exhaustive: ALL item sequences of length <= 3 over {character, blank, special, extended, italics on, plain,
     backspace} as the second row of a two-row load (adjacent / non-adjacent) x all-single / all-doubled
  C  random programs: 1-4 loads of 1-4 rows, incl. the shapes of the wider oracle domain dom_c05_wide (blanks at row ends,
     blank after a mid-row code, backspace with nothing to erase, transparent space, a row number used twice)
  D  random code-word soups that stay in pop-on mode: decoder-model correspondence only
Observation (public API): SCCReader().read(stream) -> captions: times, nodes (text / break / italics), layout.
Property oracle: Coq ok_c05 (request 502) on the implementation's captions for every program in dom_c05_wide.
Correspondence (at the level the property fixes): characters with italic flag per line, caption origin - the full extracted
decoder model (request 600) vs the implementation. Node segmentation, per-node layouts, alignment, times are NOT compared here.
"""
import itertools
import random as _random

import impl
import sccgen as g
import sccobs
import sccsoup
from wire import Ok, Err, Some, oracle_batch, oracle1

TABLES = ("GenScc.v",)
BASIC = [c for c in g.BASIC_CHARS]
LETTERS = "abcdefghijklmnopqrstuvwxyzABCDEFGHIJKLMNOPQRSTUVWXYZ0123456789.,!?'-:;()$%&/+=<>@[]"


def ch(c):
    return [0, ord(c)]


def text_items(s):
    return [ch(c) for c in s]


def rand_items(rng, maxlen, wide=False):
    """items of one row. wide: also the shapes of dom_c05_wide (blank first / last, blank after a mid-row code, backspace
    with nothing to erase / twice, transparent space) and, rarely, shapes outside it (backspace after a mid-row code,
    immediately repeated special) which are counted, not judged"""
    n = rng.randint(1, max(1, min(maxlen, rng.choice([2, 4, 8, 12, 20, 32]))))
    items = []
    cells = 0
    prev = None
    while cells < n:
        r = rng.random()
        last = cells == n - 1
        if r < 0.62 or (cells == 0 and r < 0.8 and not wide):
            c = rng.choice(LETTERS) if rng.random() < 0.9 else rng.choice("áéíóúçÑñ÷")
            blank_ok = (0 < cells < n - 1 and prev not in ("space", "mid")) or (wide and n > 1)
            if blank_ok and rng.random() < 0.15:
                items.append(ch(" "))
                prev = "space"
            else:
                items.append(ch(c))
                prev = "ch"
            cells += 1
        elif r < 0.70:
            i = rng.choice([0, 1, 2, 3, 4, 5, 6, 7, 8, 10, 11, 12, 13, 14, 15] + ([9] if wide else []))
            if prev == ("sp", i) and not (wide and rng.random() < 0.1):
                continue
            items.append([1, i])
            prev = ("sp", i)
            cells += 1
        elif r < 0.80:
            items.append([2, ord(rng.choice(g.BASIC_VISIBLE)), rng.randint(0, 1), rng.randint(0, 31)])
            prev = "ext"
            cells += 1
        elif r < 0.88:
            if cells + 1 >= n and not last:
                continue
            items.append([3, rng.choice([14, 14, 14, 15, 15, 0, 0, 1, rng.randint(0, 15)])])
            prev = "mid"
            cells += 1
        elif r < 0.94 and cells + 1 < n:
            if prev in ("ch", "ext", "space") or isinstance(prev, tuple) or (wide and rng.random() < 0.5):
                items.append([5])
                prev = "bs"
                cells = max(0, cells - 1)
    if not wide and items and items[-1] == ch(" "):
        items[-1] = ch("x")
    return items


def rand_program(rng):
    wide = rng.random() < 0.35
    loads = []
    for _ in range(rng.choice([1, 1, 2, 2, 3, 4])):
        nrows = rng.choice([1, 1, 2, 2, 3, 4])
        if rng.random() < 0.6:
            start = rng.randint(1, 16 - nrows)
            rows = list(range(start, start + nrows))
        else:
            rows = rng.sample(range(1, 16), nrows)
        if wide and nrows >= 2 and rng.random() < 0.3:
            rows[-1] = rows[0]                                  # a row number used twice in the load
        load = []
        for j, r in enumerate(rows):
            indent = rng.choice([0, 0, 0, 4, 8, 12, 16, 20, 24, 28])
            if wide and j == len(rows) - 1 and r == rows[0] and len(rows) > 1:
                indent = rng.choice([0, 12, 16, 20])
            if indent == 0:
                # 16 / 17: the INDENT form of the preamble code with indent 0 (the code pycaption's SCCWriter uses)
                style = rng.choice([0, 0, 0, 0, 1, 14, 14, 15, 15, rng.randint(2, 13), 16, 16, 17])
            else:
                style = rng.choice([0, 0, 0, 1])
            tab = rng.choice([0, 0, 0, 1, 2, 3])
            load.append([r, indent, tab, style, rand_items(rng, 32 - indent - tab, wide)])
        loads.append(load)
    return [False, loads]


ALPHABET = [[0, ord("a")], [0, 32], [1, 3], [2, ord("e"), 0, 1], [3, 14], [3, 0], [5]]


def enum_programs():
    """bounded-exhaustive: every item sequence of length <= 3 over ALPHABET as the second row (after 'xy' on row 5) of a
    two-row load, the second row directly below / elsewhere"""
    out = []
    for n in (1, 2, 3):
        for seq in itertools.product(ALPHABET, repeat=n):
            for r2 in (6, 9):
                out.append([False, [[[5, 0, 0, 0, text_items("xy")], [r2, 4, 0, 0, [list(i) for i in seq]]]]])
    return out


def sweep_programs():
    out = []
    for doubled in (False,):
        for r in range(1, 16):
            for ind in range(0, 32, 4):
                for tab in range(4):
                    # (the last columns hold one character only)
                    out.append([doubled, [[[r, ind, tab, 0, text_items("Ab" if ind + tab <= 30 else "A")]]]])
                if ind:                                           # underline bit of the indent preambles
                    out.append([doubled, [[[r, ind, 0, 1, text_items("un")]]]])
            for style in range(18):                               # every colour / underline / italics preamble + indent-0 form
                load = [[r, 0, 0, style, text_items("st")]]
                if r < 15:
                    load.append([r + 1, 0, 0, 0, text_items("pl")])   # a plain preamble on the next row ends italics
                out.append([doubled, [load]])
            out.append([doubled, [[[r, 0, 2, 15, text_items("it") + [[3, 0]] + text_items("pl")]]]])
        for a in range(16):                                       # every mid-row code, italics off and on before it
            out.append([doubled, [[[15, 0, 0, 0, text_items("ab") + [[3, a]] + text_items("cd") + [[3, 0]] + text_items("ef")]]]])
            out.append([doubled, [[[14, 0, 0, 14, text_items("ab") + [[3, a]] + text_items("cd")],
                                   [15, 4, 0, 0, text_items("gh")]]]])
        for c in BASIC:
            if c != " ":
                out.append([doubled, [[[15, 0, 0, 0, [ch(c)] + text_items("mid") + [ch(c)] + text_items("x") + [ch(c)]]]]])
                out.append([doubled, [[[12, 0, 0, 0, text_items("Hi") + [ch(c), [5]] + text_items("BC")]]]])
        for i in range(16):
            if i != 9:
                out.append([doubled, [[[14, 4, 0, 0, [[1, i]] + text_items("ab") + [[1, i]] + text_items("c") + [[1, i]]]]]])
                out.append([doubled, [[[12, 0, 0, 0, text_items("Hi") + [[1, i], [5]] + text_items("BC")]]]])
        for grp in range(2):
            for i in range(32):
                e = [2, ord("e"), grp, i]
                out.append([doubled, [[[13, 0, 1, 0, [e] + text_items("ab") + [e] + text_items("c") + [e]]]]])
                out.append([doubled, [[[12, 0, 0, 0, text_items("Hi") + [[2, ord("A"), grp, i], [5]] + text_items("BC")]]]])
                out.append([doubled, [[[11, 0, 0, 0, text_items("Hi") + [e, [2, ord("A"), grp, i]] + text_items("BC")]]]])
    # KNOWN FINDING C05-backspace-at-row-start: a backspace with nothing to erase in its own row
    for r2 in (6, 9):
        out.append([False, [[[5, 0, 0, 0, text_items("ab")], [r2, 0, 0, 0, [[5]] + text_items("cd")]]]])
        out.append([False, [[[5, 0, 0, 0, text_items("ab")], [r2, 0, 0, 0, text_items("c") + [[5], [5]] + text_items("d")]]]])
    return out


def _odd(b):
    return bin(b).count("1") % 2 == 1


_ROW_OF = {(hi, base): row for row, (hi, base) in g.ROW_CODE.items()}


def italics_sweep(mid_keys, pac_keys, thorough=False):
    """last round: EVERY code of the reader's regenerated mid-row table and EVERY key of its preamble table, sent WHILE
    ITALICS ARE ON and followed by characters on the same row and on a following row. Only the KEYS (code words) of
    pycaption's tables are used; what each word means is decoded here from the CEA-608 code assignments (mid-row codes
    0x11 0x20-0x2f: attribute = low nibble, 14 / 15 italics; 0x17 0x2e / 0x2f: black / black underline - foreground
    attributes like the colours, NOT italic; preamble codes: row from the byte pair, attribute = low five bits) and the
    expectation is ok_c05 of the program (spec/Spec608.v + SpecScc05.v: a non-italic mid-row code / any non-italic preamble
    code ends italics, an italic one keeps / starts them). The two black codes are not in the program type: the program
    carries the white code of the same underline bit (Mid 0 / Mid 1, same 608 semantics: a non-italic attribute cell) and
    the emitted word is replaced by the black one.
    -> list of (program, {emitted word: word sent}, table key that must occur in the stream), and counters"""
    out, info = [], {"mid_row_table_codes": 0, "black_mid_row_codes": 0, "mid_row_keys_not_608_mid_row": [],
                     "pac_table_keys": 0, "pac_keys_with_even_parity_byte": 0, "channel_2_keys_in_tables": 0}
    for key in sorted(mid_keys):
        b1, b2 = int(key[:2], 16), int(key[2:], 16)
        if not (_odd(b1) and _odd(b2)):
            info["mid_row_keys_not_608_mid_row"].append(key)
            continue
        h, l = b1 & 0x7f, b2 & 0x7f
        if h in (0x19, 0x1f):
            info["channel_2_keys_in_tables"] += 1
            continue
        if h == 0x11 and 0x20 <= l <= 0x2f:
            a, sub = l - 0x20, {}
        elif h == 0x17 and l in (0x2e, 0x2f):
            a = l - 0x2e                                           # white plain / white underline stands in
            sub = {int(g.midrow(a), 16): int(key, 16)}
            info["black_mid_row_codes"] += 1
        else:
            info["mid_row_keys_not_608_mid_row"].append(key)       # e.g. 94a8 (flash on): not a mid-row code of CEA-608
            continue
        info["mid_row_table_codes"] += 1
        for r in ((1, 13) if thorough else (13,)):
            # italics switched on by the preamble code / by a mid-row code; then the code under test; then characters on the
            # same row and on a following row (directly below: same caption / elsewhere: its own caption)
            out.append(([False, [[[r, 0, 0, 14, text_items("ab") + [[3, a]] + text_items("cd")],
                                  [r + 1, 4, 0, 0, text_items("ef")]]]], sub, key))
            out.append(([False, [[[r, 0, 0, 0, text_items("ab") + [[3, 14]] + text_items("cd") + [[3, a]] + text_items("ef")],
                                  [r + 2, 0, 0, 0, text_items("gh")]]]], sub, key))
            out.append(([False, [[[r, 4, 1, 0, text_items("a") + [[3, 15]] + text_items("c") + [[3, a]] + text_items("e") +
                                   [[3, 14]] + text_items("g")], [r + 1, 0, 0, 14, text_items("ij") + [[3, a]] + text_items("kl")]]]],
                        sub, key))
    for key in sorted(pac_keys):
        b1, b2 = int(key[:2], 16), int(key[2:], 16)
        info["pac_table_keys"] += 1
        if not (_odd(b1) and _odd(b2)):
            info["pac_keys_with_even_parity_byte"] += 1            # unreachable entries of the table
            continue
        h, l = b1 & 0x7f, b2 & 0x7f
        if h >= 0x18:
            info["channel_2_keys_in_tables"] += 1
            continue
        row = _ROW_OF[(h, l & 0x60)]
        attr = l & 0x1f
        if attr < 18:
            ind, style = 0, attr
        else:
            ind, style = ((attr - 16) // 2) * 4, attr & 1
        r_it = row + 2 if row + 2 <= 15 else row - 2               # the italic row sent first
        r_nx = row + 1 if row + 1 <= 15 else row - 1               # the following row
        out.append(([False, [[[r_it, 0, 0, 14 + (attr & 1), text_items("it") + [[3, 14]] + text_items("on")],
                              [row, ind, 0, style, text_items("ab") + ([[3, 14]] + text_items("cd") if attr % 4 == 1 else [])],
                              [r_nx, 0, 0, 16 if attr % 2 else 0, text_items("ef")]]]], {}, key))
    return out, info


def is_ctrl(w):
    return ((w >> 8) & 0x7f) < 0x20


def is_pac_word(w):
    return 0x10 <= ((w >> 8) & 0x7f) <= 0x17 and (w & 0x7f) >= 0x40


def is_tab_word(w):
    return ((w >> 8) & 0x7f) == 0x17 and 0x21 <= (w & 0x7f) <= 0x23


def double_codes(ws, mode, rng):
    """per-code doubling of a single-coded word list: every control code (PAC + tab offset as a unit) is sent twice when
    mode == 'all', never when 'none', with probability 1/2 each when 'mixed'. A control code that is meant twice in a row
    (two backspaces, the same special character twice) can only be transmitted doubled - CEA-608 reads an immediately
    repeated control pair as the redundant copy - so such neighbours are doubled in every mode."""
    units = []
    i = 0
    while i < len(ws):
        w = ws[i]
        unit = [w]
        if is_pac_word(w) and i + 1 < len(ws) and is_tab_word(ws[i + 1]):
            unit = [w, ws[i + 1]]
        i += len(unit)
        units.append(unit)
    out = []
    for k, unit in enumerate(units):
        ctrl = is_ctrl(unit[0])
        twin = ctrl and ((k > 0 and units[k - 1] == unit) or (k + 1 < len(units) and units[k + 1] == unit))
        d = ctrl and (twin or mode == "all" or (mode == "mixed" and rng.random() < 0.5))
        out += unit * 2 if d else unit
    return out


W_ENM, W_EDM = int(g.ENM, 16), int(g.EDM, 16)
LAYOUTS = ["line-per-load", "line-per-load", "no-enm", "edm-before-load", "edm-lines", "several-per-line", "split",
           "edm-inline", "edm-inline"]


W_EOC = int(g.EOC, 16)


def build_stream(prog, words, clear, rng=None, layout="line-per-load", doubling="none", text="plain", inline=None):
    """lay the loads out on timecode lines. The oracle does not depend on the layout.
    layout 'edm-inline' (wave 7, the layout of pycaption's own SCCWriter): every load line is ENM RCL rows EDM EOC - the
    words come from the Coq emitter emit_load_w (request 506, `inline`), the theorem C05_popon_refines_608_inline is
    about exactly these lines when the doubling is 'none' or 'all'."""
    rng = rng or _random.Random(0)
    loads = []
    if layout == "edm-inline":
        words = inline if inline is not None else [list(ws[:-1]) + [W_EDM, W_EOC] for ws in words]
    for li, ws in enumerate(words):
        ws = list(ws)
        if doubling == "writer-mixed":
            loads.append(ws)                                      # the words of emit_load_wm (request 507) as they are
            continue
        if layout == "no-enm" and ws and ws[0] == W_ENM:
            ws = ws[1:]                                           # a load without Erase-Non-displayed-Memory
        if layout == "edm-before-load" and li > 0:
            ws = [W_EDM] + ws                                     # 942c 94ae 9420 ... on the load's line
        loads.append(double_codes(ws, doubling, rng))
    lines = []
    frame = 30
    if layout == "several-per-line":
        chunk = []
        for ws in loads:
            chunk += ws
            if rng.random() < 0.5:
                lines.append(chunk)
                chunk = []
        if chunk:
            lines.append(chunk)
    elif layout == "split":
        for ws in loads:
            cut = rng.randint(1, len(ws) - 1) if len(ws) > 2 else len(ws)
            lines += [ws[:cut]] + ([ws[cut:]] if ws[cut:] else [])
    elif layout == "edm-lines":
        for ws in loads:
            lines += [ws, double_codes([W_EDM], doubling, rng)]
    else:
        lines = loads
    lines = lines + [double_codes(list(clear), "all" if doubling == "writer-mixed" else doubling, rng)]
    out = []
    for ws in lines:
        out.append((frame, ws))
        frame += len(ws) + rng.choice([8, 30, 90])
    fmt = "%04X" if text == "upper" else "%04x"
    # (a double blank BETWEEN words would make the reader see an empty "next word" after a mid-row code, which the
    #  parsed-lines model cannot express; blanks after the last word are harmless)
    body = "".join(g.timecode(f, False) + "\t" + " ".join(fmt % w for w in ws) + ("  " if text == "trailing-blank" else "")
                   + "\n\n" for f, ws in out)
    doc = g.HEADER + "\n\n" + body
    if text == "crlf":
        doc = doc.replace("\n", "\r\n")
    return doc


def wire_obs(o):
    """canonical observation -> wire for request 502"""
    if isinstance(o, tuple):
        return Err(4)
    if isinstance(o, Err):
        return o
    caps = []
    for c in o.v:
        nodes = []
        for n in c[2]:
            if n[0] == 0:
                nodes.append([0, n[1]])
            elif n[0] == 1:
                nodes.append([1])
            else:
                nodes.append([2, n[1] is True])
        xy = c[3]
        good = xy is not None and not isinstance(xy[0], str)
        caps.append([c[0], c[1], nodes, Some([xy[0], xy[1]]) if good else None])
    return Ok(caps)


def show(o):
    if isinstance(o, Ok):
        return [[str(c[0]), str(c[1]), [n[:2] for n in c[2]], [str(v) for v in c[3]] if c[3] else None] for c in o.v]
    return repr(o)


def reasons_out_of_domain(p):
    """why a program is outside dom_c05_wide (for the counters only)"""
    out = set()
    for load in p[1]:
        for r in load:
            prev = None
            stack = []                                             # visibility of the cells the row still shows
            for it in r[4]:
                if it[0] == 5:
                    if (prev is not None and prev[0] == 3) or (stack and stack[-1] is None):
                        out.add("backspace-onto-midrow-cell")
                    if stack:
                        stack.pop()
                else:
                    if it[0] == 1 and prev is not None and prev[0] == 1 and prev[1] == it[1]:
                        out.add("repeated-special")
                    stack.append(None if it[0] == 3 else not (it[0] == 0 and it[1] == 32) and not (it[0] == 1 and it[1] == 9))
                prev = it
            cells = len(stack)
            if not any(stack):
                out.add("row-without-visible-character")
            if r[1] + r[2] + cells > 32:
                out.add("row-beyond-column-32")
        def ncells(r):
            n = 0
            for it in r[4]:
                n = max(0, n - 1) if it[0] == 5 else n + 1
            return n
        for i, a in enumerate(load):
            for b in load[i + 1:]:
                if a[0] != b[0]:
                    continue
                ca, cb = a[1] + a[2], b[1] + b[2]
                if abs(ca - cb) < 4 or ca <= b[1] <= ca + 3:
                    out.add("same-row-within-3-columns")          # read as a tab offset, not as a new position
                elif not (ca + ncells(a) <= cb or cb + ncells(b) <= ca):
                    out.add("same-row-overwritten")
    return out or {"other"}


def has_rowstart_backspace(p):
    """a backspace arrives while its own row shows no character and an earlier row of the load has text"""
    for load in p[1]:
        for j, r in enumerate(load):
            cells = 0
            for it in r[4]:
                if it[0] == 5:
                    if cells == 0 and j > 0:
                        return True
                    cells = max(0, cells - 1)
                else:
                    cells += 1
    return False


def expected_caption_count(p):
    n = 0
    for load in p[1]:
        last = None
        for r in load:
            if last is None or r[0] != last + 1:
                n += 1
            last = r[0]
    return n


def judge_batch(cases):
    """cases: list of (program, stream) -> list of (obs, model, ok)"""
    obs = [sccobs.observe(c[1]) for c in cases]
    models = sccobs.model_batch([(c[1], 0) for c in cases])
    oks = oracle_batch([(502, [c[0], wire_obs(o)]) for c, o in zip(cases, obs)])
    return obs, models, oks


def shrink(p, layout, doubling, still_fails):
    """greedy: drop loads, rows, items while the program stays in the wide domain and still fails"""
    def variants(q):
        loads = q[1]
        for i in range(len(loads)):
            if len(loads) > 1:
                yield [q[0], loads[:i] + loads[i + 1:]]
        for i, l in enumerate(loads):
            for j in range(len(l)):
                if len(l) > 1:
                    yield [q[0], loads[:i] + [l[:j] + l[j + 1:]] + loads[i + 1:]]
        for i, l in enumerate(loads):
            for j, r in enumerate(l):
                for k in range(len(r[4])):
                    if len(r[4]) > 1:
                        r2 = r[:4] + [r[4][:k] + r[4][k + 1:]]
                        yield [q[0], loads[:i] + [l[:j] + [r2] + l[j + 1:]] + loads[i + 1:]]
    cur = p
    for _ in range(40):
        for q in variants(cur):
            if still_fails(q):
                cur = q
                break
        else:
            break
    return cur


def run(ctx):
    rng = ctx.rng
    res = {"evaluations": 0, "nontrivial": set(), "violations": [], "disagreements": [], "streams": 3, "notes": []}
    dist = {"sweep_programs": 0, "enumerated_programs": 0, "random_programs": 0, "soups": 0, "pacless_loads": 0,
            "in_strict_domain": 0, "in_wide_domain_only": 0, "out_of_domain": {}, "layout": {}, "doubling": {}, "text": {},
            "rowstart_backspace_programs": 0, "items": {"ch": 0, "sp": 0, "ext": 0, "mid": 0, "bs": 0}, "loads": {},
            "outcome": {}}
    res["distribution"] = dist
    progs = []
    for p in sweep_programs():
        for dbl in ("none", "all"):
            progs.append(("sweep", p, "line-per-load", dbl, "plain"))
    # wave 7: the writer's shape deterministically - indent-0-form preamble codes (attribute 16 / 17) on every row, the load
    # line ending EDM EOC, two loads so that the EDM of the second load ends the first caption
    for r in range(1, 16):
        for st in (16, 17):
            p = [False, [[[r, 0, 0, st, text_items("wr")]], [[16 - r, 0, 0, st, text_items("it")]] +
                                                              ([[17 - r, 0, 0, 16, text_items("er")]] if r > 1 else [])]]
            for dbl in ("none", "all"):
                progs.append(("sweep", p, "edm-inline", dbl, "plain"))
    for i_sp in range(16):                                        # wave 8: every special character, single among doubled codes
        if i_sp != 9:
            r = 1 + i_sp % 14
            p = [False, [[[r, 0, 0, 16, text_items("Hi ") + [[1, i_sp]]], [r + 1, 0, 0, 16, [[1, i_sp]] + text_items("a") + [[1, (i_sp + 1) % 16 if (i_sp + 1) % 16 != 9 else 10]] + text_items("b")]],
                         [[15, 0, 0, 16, text_items("x") + [[1, i_sp]] + text_items("y")]]]]
            progs.append(("sweep", p, "edm-inline", "writer-mixed", "plain"))
    for r in range(1, 15):                                        # an indent-0-form preamble code ends italics like any other
        for p in ([False, [[[r, 0, 0, 14, text_items("it")], [r + 1, 0, 0, 16, text_items("pl")]]]],
                  [False, [[[r + 1, 0, 0, 15, text_items("it")], [r, 0, 0, 17, text_items("pl")]]]]):
            progs.append(("sweep", p, "edm-inline", "all", "plain"))
    # last round: every mid-row code (incl. black 97ae / 972f) and every preamble key of the REGENERATED tables while italics
    # are on; keys only - meanings from CEA-608 (see italics_sweep)
    from pycaption.scc import constants as _c
    pac_keys = [hi + lo for hi, los in _c.PAC_BYTES_TO_POSITIONING_MAP.items() for lo in los]
    isw, isw_info = italics_sweep(list(_c.MID_ROW_CODES), pac_keys, ctx.thorough)
    subst, need_key = {}, {}
    nmid = (6 if ctx.thorough else 3) * isw_info["mid_row_table_codes"]
    for k, (p, sub, key) in enumerate(isw):
        # mid-row codes (incl. black 97ae / 972f): single and doubled in every tier; preamble keys: all single in the quick
        # tier, alternately single / doubled in the thorough tier
        for dbl in (("none", "all") if k < nmid else (("all",) if (k % 2 and ctx.thorough) else ("none",))):
            subst[len(progs)] = sub
            need_key[len(progs)] = key
            progs.append(("sweep", p, "line-per-load", dbl, "plain"))
    dist["italics_on_sweep"] = dict(isw_info, programs=len(need_key))
    dist["sweep_programs"] = len(progs)
    for p in enum_programs():
        for dbl in ("none", "all"):
            progs.append(("enum", p, "line-per-load", dbl, "plain"))
    dist["enumerated_programs"] = len(progs) - dist["sweep_programs"]
    for _ in range(ctx.n(1000, 40000)):
        lay = rng.choice(LAYOUTS)
        # wave 8: in the writer's layout a third of the programs in the writer's doubling - preamble and mode codes doubled,
        # the codes inside the rows (special / extended characters, mid-row codes, backspace) single: emit_load_wm (507)
        dbl = "writer-mixed" if (lay == "edm-inline" and rng.random() < 0.4) else rng.choice(["none", "all", "all", "mixed"])
        rp = rand_program(rng)
        if dbl == "writer-mixed" and any(a == b and a[0] in (1, 3, 5) for l in rp[1] for r in l for a, b in zip(r[4], r[4][1:])):
            dbl = "all"     # a code meant twice in a row (two backspaces ...) can only be transmitted doubled (see double_codes)
        progs.append(("random", rp, lay, dbl,
                      rng.choice(["plain", "plain", "plain", "upper", "crlf", "trailing-blank"])))
    dist["random_programs"] = len(progs) - dist["sweep_programs"] - dist["enumerated_programs"]
    emitted = oracle_batch([(501, p) for _, p, _, _, _ in progs])
    inl_idx = [i for i, pr in enumerate(progs) if pr[2] == "edm-inline"]
    inl = dict(zip(inl_idx, oracle_batch([(506, progs[i][1]) for i in inl_idx])))
    dist["edm_inline_programs_from_emit_load_w"] = len(inl_idx)
    wm_idx = [i for i in inl_idx if progs[i][3] == "writer-mixed"]
    wm = dict(zip(wm_idx, oracle_batch([(507, progs[i][1]) for i in wm_idx])))
    dist["writer_mixed_doubling"] = {"programs": len(wm_idx), "loads": 0, "loads_inside_dd_hypothesis": 0}
    for i in wm_idx:
        for okl, ws in wm[i]:
            dist["writer_mixed_doubling"]["loads"] += 1
            dist["writer_mixed_doubling"]["loads_inside_dd_hypothesis"] += okl == 1
        inl[i] = [ws for _, ws in wm[i]]
    # audit (wave 7): the doubled Coq emitters - the form the writer theorems are used in (wseg_line true) - cross-checked on
    # EVERY all-doubled program against the Python doubling of the single-coded emission that produces the stream
    dbl_idx = [i for i, pr in enumerate(progs) if pr[3] == "all"]
    dbl501 = oracle_batch([(501, [True, progs[i][1][1]]) for i in dbl_idx])
    dbl506 = dict(zip([i for i in dbl_idx if i in inl], oracle_batch([(506, [True, progs[i][1][1]]) for i in dbl_idx if i in inl])))
    dist["doubled_emitter_cross_checked_programs"] = len(dbl_idx)
    for i, e2 in zip(dbl_idx, dbl501):
        want = [double_codes(list(ws), "all", rng) for ws in emitted[i][2]]
        if [list(ws) for ws in e2[2]] != want or (i in dbl506 and [list(ws) for ws in dbl506[i]] !=
                                                  [double_codes(list(ws), "all", rng) for ws in inl[i]]):
            res["disagreements"].append({"which": "Coq doubled emitter (emit_load true / emit_load_w true) vs the Python doubling "
                                                  "of the single-coded emission", "program": progs[i][1]})
    cases = []
    for i, ((kind, p, layout, dbl, text), e) in enumerate(zip(progs, emitted)):
        if i in inl and i not in wm and [list(ws[:-1]) + [W_EDM, W_EOC] for ws in e[2]] != [list(ws) for ws in inl[i]]:
            res["disagreements"].append({"which": "emit_load_w (506) is not emit_load (501) with EDM before the EOC", "program": p})
        words = e[2]
        if subst.get(i):
            words = [[subst[i].get(w, w) for w in ws] for ws in words]
        stream = build_stream(p, words, e[3], _random.Random(rng.random()), layout, dbl, text, inl.get(i))
        if i in need_key and need_key[i] not in stream:
            res["disagreements"].append({"which": "the word emitted from the CEA-608 reading of a table key is not the key",
                                         "key": need_key[i], "program": p, "stream": stream})
        cases.append((kind, p, e[0] == 1, e[1] == 1, stream, layout, dbl, text))
    obs, models, oks = judge_batch([(c[1], c[4]) for c in cases])
    # the text front end of the model is the Coq tokeniser (request 605); the Python copy of the reader's rules is run
    # beside it on a sample of the texts
    sample = [c[4] for c in cases[::7]]
    dist["tokeniser_cross_checked_texts"] = len(sample)
    ndiff = sccobs.tokeniser_agrees(sample)
    if ndiff:
        res["disagreements"].append({"which": "Coq tokeniser (605) vs the Python copy of the reader's rules (600)",
                                     "texts_that_differ": ndiff})
    names = {0: "ch", 1: "sp", 2: "ext", 3: "mid", 5: "bs"}
    for (kind, p, dom, wide, stream, layout, dbl, text), o, m, ok in zip(cases, obs, models, oks):
        res["evaluations"] += 1
        for k, v in (("layout", layout), ("doubling", dbl), ("text", text)):
            dist[k][v] = dist[k].get(v, 0) + 1
        dist["loads"][len(p[1])] = dist["loads"].get(len(p[1]), 0) + 1
        for l in p[1]:
            for r in l:
                for it in r[4]:
                    dist["items"][names[it[0]]] += 1
        oc = "ok" if isinstance(o, Ok) else ("len" if isinstance(o, tuple) else impl.ERR_NAMES.get(o.code, o.code))
        dist["outcome"][oc] = dist["outcome"].get(oc, 0) + 1
        d = sccobs.same_view(o, m)
        if d:
            res["disagreements"].append({"stream": stream, "program": p, "difference": d})
        elif sccobs.blanks_differ(o, m):
            dist["info_blanks_differ_from_model"] = dist.get("info_blanks_differ_from_model", 0) + 1
        if not wide:
            for why in reasons_out_of_domain(p):
                dist["out_of_domain"][why] = dist["out_of_domain"].get(why, 0) + 1
            continue
        dist["in_strict_domain" if dom else "in_wide_domain_only"] += 1
        if sum(len(l) for l in p[1]) >= 2 or kind != "random":
            res["nontrivial"].add(stream)
        rsb = has_rowstart_backspace(p)
        dist["rowstart_backspace_programs"] += rsb
        if ok != 1:
            if not isinstance(o, Ok):
                shape = "error"
            elif len(o.v) != expected_caption_count(p):
                shape = "grouping"
            else:
                shape = "content"
            # known finding C05-backspace-at-row-start: only when the input has the shape AND the implementation did what
            # the faithful decoder model does (it erases the last character of the previous row)
            if rsb and d is None:
                shape = "backspace-at-row-start"

            def still_fails(q, layout=layout, dbl=dbl):
                e = oracle1(501, q)
                if e[1] != 1 or (shape != "backspace-at-row-start" and has_rowstart_backspace(q)):
                    return False
                st = build_stream(q, e[2], e[3], _random.Random(1), layout, dbl, "plain")
                return oracle1(502, [q, wire_obs(sccobs.observe(st))]) != 1
            # shrink the first few violations of every shape (the known row-start shape must not use up the budget)
            nshape = sum(1 for v in res["violations"] if v.get("shape") == shape)
            small = shrink(p, layout, dbl, still_fails) if nshape < 6 else p
            e = oracle1(501, small)
            sstream = build_stream(small, e[2], e[3], _random.Random(1), layout, dbl, "plain") if small is not p else stream
            so = sccobs.observe(sstream) if small is not p else o
            res["violations"].append({
                "kind": "screen-mismatch", "shape": shape, "replay": "program",
                "what": {"error": "read raised instead of returning the captions of the CEA-608 screen",
                         "grouping": "the rows are not grouped into captions as on the CEA-608 screen (consecutive rows = "
                                     "one caption, others separate)",
                         "content": "characters, italic flags, line structure or position of a caption differ from the "
                                    "CEA-608 screen",
                         "backspace-at-row-start": "a backspace sent while its row shows no character erases the last "
                                                   "character of the previous row (a 608 decoder erases nothing)"}[shape],
                "input": small, "program": small, "stream": sstream, "layout": layout, "doubling": dbl,
                "impl_obs": show(so)})
    # E (seed campaign): ONE SCCReader object reused after a read that RAISED - an over-long row (line-length error at the
    # end of read, after everything was decoded) or a malformed timecode in the middle of the file (timing error while
    # half-decoded captions, a queued pop-on cue and a non-empty buffer exist) - and then reading a well-formed pop-on
    # stream: text / rows / italics / position must equal a fresh reader's (and satisfy ok_c05 like them)
    def bad_file(kind):
        first = [g.ENM, g.RCL, g.pac(rng.randint(1, 15), rng.choice([0, 4, 8]), italics=False)] + g.text_words("left over") + \
                [g.MID_ITALICS] + g.text_words("it") + [g.EOC]
        if kind == "long-row":
            second = [g.ENM, g.RCL, g.pac(15)] + g.text_words("x" * rng.choice([33, 34, 40])) + [g.EOC]
            return g.doc([(g.timecode(30, False), first), (g.timecode(90, False), second), (g.timecode(200, False), [g.EDM])])
        second = [g.ENM, g.RCL, g.pac(rng.randint(1, 15), italics=True)] + g.text_words("never shown") + [g.EOC]
        tc = g.timecode(90, False)
        return g.doc([(g.timecode(30, False), first), (tc[:8] + "." + tc[9:], second), (g.timecode(200, False), [g.EDM])])
    pool = [c for c in cases if c[3] and c[0] in ("random", "sweep")]
    reuse = [rng.choice(pool) for _ in range(ctx.n(120, 3000))] if pool else []
    dist["reader_reused_after_a_raising_read"] = {"long-row": 0, "bad-timecode": 0, "earlier_read_ended": {}}
    rcases = []
    for c in reuse:
        kind = rng.choice(["long-row", "bad-timecode"])
        hist = [[bad_file(kind), {}]] + ([[bad_file("long-row"), {}]] if rng.random() < 0.25 else [])
        outs = []
        o2 = sccobs.observe(c[4], history=hist, outcomes=outs)
        o1 = sccobs.observe(c[4])
        res["evaluations"] += 1
        dist["reader_reused_after_a_raising_read"][kind] += 1
        for k in outs:
            dd_ = dist["reader_reused_after_a_raising_read"]["earlier_read_ended"]
            dd_[k] = dd_.get(k, 0) + 1
        rcases.append((c, kind, hist, o1, o2))
    roks = oracle_batch([(502, [c[1], wire_obs(o)]) for c, _, _, o1, o2 in rcases for o in (o1, o2)])
    for j, (c, kind, hist, o1, o2) in enumerate(rcases):
        d = sccobs.same_view(o1, o2)
        ok1, ok2 = roks[2 * j], roks[2 * j + 1]
        if d or (ok1 == 1 and ok2 != 1):
            res["violations"].append({
                "kind": "reader-reuse", "shape": kind, "replay": "reuse",
                "what": "a reader object that has raised on an earlier file reads a well-formed pop-on stream differently from "
                        "a fresh reader (text / rows / italics / position)",
                "input": c[1], "program": c[1], "stream": c[4], "history": hist, "difference": d,
                "impl_obs": show(o2), "fresh_obs": show(o1)})
    # D: soups that stay in pop-on mode - decoder model vs implementation at the level the property fixes
    soups = [sccsoup.soup(rng, popon_only=True) for _ in range(ctx.n(900, 40000))]
    # loads that never address a row (text right after ENM RCL / RCL): the position they get depends on whether the
    # tracker was reset - outside the statement, compared with the model only
    for row in (1, 7, 14, 15):
        for ind in (0, 8, 28):
            for lead in ([g.ENM, g.RCL], [g.RCL], [g.ENM, g.ENM, g.RCL, g.RCL]):
                first = [g.ENM, g.RCL, g.pac(row, ind)] + g.text_words("ab") + [g.EOC]
                soups.append(g.doc([(g.timecode(30, False), first), (g.timecode(90, False), [g.EDM]),
                                    (g.timecode(120, False), lead + g.text_words("cd") + [g.EOC]),
                                    (g.timecode(200, False), [g.EDM])]))
                dist["pacless_loads"] += 1
    so = [sccobs.observe(s) for s in soups]
    sm = sccobs.model_batch([(s, 0) for s in soups])
    for s_, o, m in zip(soups, so, sm):
        res["evaluations"] += 1
        dist["soups"] += 1
        d = sccobs.same_view(o, m)
        if d:
            res["disagreements"].append({"stream": s_, "difference": d, "which": "soup"})
    res["rule"] = ("A: sweep of cursor addresses, preamble styles, mid-row codes, every character code, backspace after "
                   "every code, backspace at a row start (x all-single / all-doubled); B: all item sequences of length <= 3 "
                   "over a 7-symbol alphabet x adjacent / non-adjacent second row x all-single / all-doubled; C: random "
                   "programs of 1-4 loads x 1-4 rows (35% with the shapes of the wide domain), layouts {line per load, no "
                   "ENM, EDM before the load, EDM lines, several loads per line, split loads, EDM inline before the EOC = the "
                   "writer's layout (words from emit_load_w)}, doubling {none, all, mixed "
                   "per code, writer-mixed = preamble / mode codes doubled and the codes inside rows single (emit_load_wm)}, text {plain, upper-case hex, CRLF, trailing blanks}; D: random pop-on soups; E: one reader object reused after a read "
                   "that raised (over-long row / malformed timecode mid-file) vs a fresh reader, on well-formed programs. Non-trivial: "
                   "a sweep / enumerated program or a program with at least two rows, inside dom_c05_wide. Distinct "
                   "streams counted.")
    res["samples"] = [{"program": c[1], "stream": c[4]} for c in cases[-2:]]
    res["clauses"] = {
        "theorem": ["generated tables = CEA-608 (all codes, the 15 x 32 preamble grid, tab offsets, control codes, classes)",
                    "popon_refines_608: the decoder MODEL satisfies ok_c05 for whole programs over the full item domain "
                    "(dom: load_wf per load; layout: one load per line starting ENM RCL, EDM lines anywhere - and, by "
                    "read_layout_invariant, every cutting / joining of these lines that keeps the instant of each word and "
                    "does not separate a mid-row code from a following punctuation word; at the level of the SCC text "
                    "through the Coq tokeniser: popon_refines_608_text)",
                    "wave 7: the same for the layout of pycaption's own SCCWriter - Erase-Displayed-Memory inside the load line before "
                    "its End-Of-Caption and preamble codes in the indent-0 form (attributes 16 / 17): popon_refines_608_inline, "
                    "from inline_edm (the one line = the clear line + the load line, for every quiet body) and the frame lemma",
                    "a repeated control code pair counts once (every state, every word); PAC+TO doubled as a unit counts "
                    "once; italics balanced for all instruction lists"],
        "correspondence_only": ["that pycaption behaves like the model: characters / italics / lines / origin of every "
                                "caption on every generated stream",
                                "stream layouts outside the theorems (no ENM, EDM FIRST on the load's line, several loads per "
                                "line, split loads), mixed doubling, the wide domain shapes: ok_c05 on the implementation",
                                "text-level tokenisation (upper case, CRLF, trailing blanks): the model is fed through "
                                "the Coq tokeniser (request 605; round trip on rendered text is a theorem); that the "
                                "real reader tokenises like it is this comparison"]}
    return res


def replay(ctx, rec):
    if rec.get("replay") == "reuse" or rec.get("kind") == "reader-reuse":
        o2 = sccobs.observe(rec["stream"], history=rec["history"])
        o1 = sccobs.observe(rec["stream"])
        d = sccobs.same_view(o1, o2)
        bad = bool(d) or (oracle1(502, [rec["program"], wire_obs(o1)]) == 1 and oracle1(502, [rec["program"], wire_obs(o2)]) != 1)
        return bad, str(d) + " " + str(show(o2))[:500]
    o = sccobs.observe(rec["stream"])
    ok = oracle1(502, [rec["program"], wire_obs(o)])
    return ok != 1, str(show(o))[:600]
