"""C20 - format detection: total, consistent with the documented order, recognises own output.

Streams
  A  exhaustive short strings over a symbol alphabet (digits, newlines, braces, arrow pieces, marker words)
  B  truncations of valid documents (writer outputs) at every code point
  C  random longer strings over the same symbols
  D  own output: writer(caption set) -> detect_format -> that reader reads it
Observation per string: the six readers' own detect outcome (documented order) + detect_format outcome.
Correspondence: observation == extracted model's observation.  Property oracle: Coq ok_detect (spec/SpecDetect.v)
evaluated on the implementation's observation.
"""
import itertools

import impl
import gens
from wire import Ok, Err, oracle_batch, r_result, r_opt, Some
import pycaption
from pycaption import (DFXPReader, MicroDVDReader, WebVTTReader, SAMIReader, SRTReader, SCCReader,
                       DFXPWriter, MicroDVDWriter, WebVTTWriter, SAMIWriter, SRTWriter, SCCWriter)

DOCUMENTED = [DFXPReader, MicroDVDReader, WebVTTReader, SAMIReader, SRTReader, SCCReader]
NAMES = ["DFXP", "MicroDVD", "WebVTT", "SAMI", "SRT", "SCC"]
SYMS = ["0", "1", "\n", "\r", "{", "}", "-", ">", "<", " ", "W", "E", "B", "V", "T", "/", "t",
        "</tt>", "WEBVTT", "<sami", "-->", "{1}{2}", "Scenarist_SCC V1.0", " ", "9", "</TT>", "<SAMI"]


def observe(s):
    ds = []
    for r in DOCUMENTED:
        o = impl.call(lambda: bool(r().detect(s)))
        ds.append(o)
    df = impl.call(lambda: pycaption.detect_format(s))
    if isinstance(df, Ok):
        cls = df.v
        if cls is None:
            df = Ok(None)
        elif cls in DOCUMENTED:
            df = Ok(Some(DOCUMENTED.index(cls)))
        else:
            df = Ok(Some(99))
    return ds, df


def obs_plain(ds, df):
    return ([d.v if isinstance(d, Ok) else ("raise", d.code) for d in ds],
            (None if df.v is None else df.v.v) if isinstance(df, Ok) else ("raise", df.code))


def model_plain(resp):
    ds = [r_result(x, bool) for x in resp[0]]
    df = r_result(resp[1], lambda o: r_opt(o))
    return ([d.v if isinstance(d, Ok) else ("raise", d.code) for d in ds],
            df.v if isinstance(df, Ok) else ("raise", df.code))


def modelable(s):
    # str.isdigit / str.lower outside ASCII are not modelled (DESIGN section 6)
    return all(ord(c) < 128 or c in "  \x85" or not (c.isdigit() or c.lower() != c or c.upper() != c) for c in s)


def check_strings(strings, res, tag):
    reqs_m, reqs_ok, obs = [], [], []
    for s in strings:
        ds, df = observe(s)
        obs.append((ds, df))
        reqs_m.append((2000, s))
        reqs_ok.append((2001, [len(s) > 0, ds, df]))
    models = oracle_batch(reqs_m)
    oks = oracle_batch(reqs_ok)
    for s, (ds, df), m, ok in zip(strings, obs, models, oks):
        res["evaluations"] += 1
        plain = obs_plain(ds, df)
        if any(plain[0]) or plain[1] is not None:
            res["nontrivial"].add(s)
        if ok != 1:
            res["violations"].append({
                "kind": "detect-raises" if any(isinstance(d, Err) for d in ds) or isinstance(df, Err) else "detect-inconsistent",
                "what": f"detect on {s!r}: readers {plain[0]}, detect_format {plain[1]}",
                "input": s, "stream": tag, "impl_obs": plain, "replay": "detect"})
        elif modelable(s) and model_plain(m) != plain:
            res["disagreements"].append({"input": s, "stream": tag, "impl": plain, "model": model_plain(m)})
    return res


WRITERS = [("DFXP", DFXPWriter, DFXPReader), ("MicroDVD", MicroDVDWriter, MicroDVDReader),
           ("WebVTT", WebVTTWriter, WebVTTReader), ("SAMI", SAMIWriter, SAMIReader),
           ("SRT", SRTWriter, SRTReader), ("SCC", SCCWriter, SCCReader)]
# markers of formats probed before the writer's own format (documented order)
EARLIER = {"DFXP": [], "MicroDVD": ["</tt>"], "WebVTT": ["</tt>"], "SAMI": ["</tt>", "webvtt"],
           "SRT": ["</tt>", "webvtt", "<sami"], "SCC": ["</tt>", "webvtt", "<sami"]}
BASIC = "abcdefghijklmnopqrstuvwxyz ABCDEFGHIJKLMNOPQRSTUVWXYZ0123456789.,!?'-"


def own_output_case(rng, fmt):
    name, W, R = fmt
    if name == "SCC":
        text = lambda: "".join(rng.choice(BASIC) for _ in range(rng.randint(1, 20))).strip() or "x"  # noqa: E731
        cs = gens.simple_capset(rng, 1, (1, 3), text=text, unit=1000000, maxlines=2)
        # SCC needs spacing; stretch times
        for i, c in enumerate(cs.get_captions("en-US")):
            c.start = (i * 10 + 5) * 10**6
            c.end = (i * 10 + 8) * 10**6
    else:
        def text():
            while True:
                t = gens.rand_text(rng, adversarial=0.5)
                if not any(m in t.lower() for m in EARLIER[name]) and gens.visible(t):
                    return t
        cs = gens.simple_capset(rng, 1, (1, 3), text=text)
    return cs


BOUNDARY_SPANS = [(0, 2000000), (1, 2000001), (39999, 2000000), (40000, 3000000), (0, 30000), (0, 39999),
                  (40000, 70000), (999, 1001), (3599999999, 3600000001), (86399000000, 86399999999)]


def boundary_cases(rng):
    """every non-SCC writer x first-cue spans on the frame / millisecond / hour boundaries (incl. a cue that lies
    inside MicroDVD frame 0 and a cue shorter than one frame), followed by an ordinary second cue"""
    from pycaption import CaptionSet, CaptionList
    out = []
    for fmt in WRITERS:
        if fmt[0] == "SCC":
            continue
        for (s, e) in BOUNDARY_SPANS:
            for text in ("hello", "25", "7 up"):
                caps = [gens.build_caption(s, e, [text]), gens.build_caption(e + 5000000, e + 7000000, ["second cue"])]
                out.append((fmt, CaptionSet({"en-US": CaptionList(caps)})))
    return out


def run_own_output(ctx, res, n):
    cases = boundary_cases(ctx.rng)
    for i in range(n):
        fmt = WRITERS[i % len(WRITERS)]
        cases.append((fmt, own_output_case(ctx.rng, fmt)))
    for fmt, cs in cases:
        name, W, R = fmt
        out = impl.call(lambda: W().write(cs))
        res["evaluations"] += 1
        if not isinstance(out, Ok):
            # a writer failure is not C20's business (C03/C07 own it); skip but count
            res["distribution"]["writer_raised"] = res["distribution"].get("writer_raised", 0) + 1
            continue
        doc = out.v
        det = impl.call(lambda: pycaption.detect_format(doc))
        good = isinstance(det, Ok) and det.v is R
        rd = None
        if good:
            rd = impl.call(lambda: R().read(doc))
            good = isinstance(rd, Ok) and not rd.v.is_empty()
        res["nontrivial"].add(("own", name, doc))
        res["distribution"]["own_" + name] = res["distribution"].get("own_" + name, 0) + 1
        if not good:
            first = cs.get_captions(cs.get_languages()[0])[0]
            shape = ("microdvd-cue-inside-frame-0" if name == "MicroDVD" and first.start * 25 // 10**6 == 0
                     and first.end * 25 // 10**6 == 0 else "other")
            res["violations"].append({
                "kind": "own-output-not-recognised:" + shape, "fmt": name, "shape": shape,
                "what": f"{name} writer output detected as {det!r} / read {rd!r}",
                "input": gens.describe_capset(cs), "document": doc, "replay": "own", "stream": "D"})


def documents(ctx):
    docs = []
    rng = ctx.rng
    for fmt in WRITERS:
        for _ in range(ctx.n(1, 4)):
            cs = own_output_case(rng, fmt)
            out = impl.call(lambda: fmt[1]().write(cs))
            if isinstance(out, Ok):
                docs.append(out.v)
    return docs


def run(ctx):
    res = {"evaluations": 0, "nontrivial": set(), "violations": [], "disagreements": [], "distribution": {},
           "streams": 4, "notes": []}
    # A: exhaustive short strings
    maxlen = ctx.n(3, 4)
    strings = [""]
    for L in range(1, maxlen + 1):
        strings.extend("".join(t) for t in itertools.product(SYMS, repeat=L))
    res["distribution"]["A_exhaustive_len_le_%d" % maxlen] = len(strings)
    check_strings(strings, res, "A")
    # B: truncations of writer outputs at every code point
    docs = documents(ctx)
    trunc = []
    for d in docs:
        step = 1 if len(d) < 1500 or ctx.thorough else max(1, len(d) // 1500)
        trunc.extend(d[:k] for k in range(0, len(d) + 1, step))
    res["distribution"]["B_truncations"] = len(trunc)
    check_strings(trunc, res, "B")
    # C: random longer strings
    rs = []
    for _ in range(ctx.n(4000, 100000)):
        L = ctx.rng.randint(5, 12)
        rs.append("".join(ctx.rng.choice(SYMS) for _ in range(L)))
    res["distribution"]["C_random"] = len(rs)
    check_strings(rs, res, "C")
    # D: own output
    run_own_output(ctx, res, ctx.n(120, 3000))
    res["rule"] = ("A: every string of <= %d symbols over %d symbols (digits, newlines, braces, arrow pieces, "
                   "marker words); B: every truncation of %d writer outputs; C: random 5-12 symbol strings; "
                   "D: writer outputs of random caption sets. Non-trivial = some sniffer accepts or detect_format "
                   "returns a reader (distinct strings counted)." % (maxlen, len(SYMS), len(docs)))
    nt = [s for s in res["nontrivial"] if isinstance(s, str)]
    res["samples"] = sorted(nt, key=len)[5:8] + [s for s in nt if "\n" in s][:3]
    res["clauses"] = {
        "theorem": ["never raises on non-empty strings (all strings)", "first match in documented order (all strings)",
                    "generated SUPPORTED_READERS order = documented order", "empty string raises no-captions"],
        "correspondence_only": ["own output is detected as its own format and read back (stream D)",
                                "str.isdigit/str.lower outside ASCII"]}
    return res


def replay(ctx, rec):
    if rec.get("replay") == "detect":
        s = rec["input"]
        ds, df = observe(s)
        from wire import oracle1
        ok = oracle1(2001, [len(s) > 0, ds, df])
        return ok != 1, obs_plain(ds, df)
    if rec.get("replay") == "own":
        doc = rec["document"]
        name = rec["fmt"]
        R = dict((n, r) for n, _, r in WRITERS)[name]
        det = impl.call(lambda: pycaption.detect_format(doc))
        good = isinstance(det, Ok) and det.v is R
        if good:
            rd = impl.call(lambda: R().read(doc))
            good = isinstance(rd, Ok) and not rd.v.is_empty()
        return (not good), repr(det)
    return False, "unknown replay kind"
