"""C20 - format detection: total, consistent with the documented order, recognises own output.

Streams
  A  exhaustive short strings: a core alphabet (digits, newlines, braces, arrow pieces, marker words) and an extended one
     (BOM, tab, NUL, every str.splitlines boundary, NBSP, non-ASCII digits and cased letters, CRLF)
  B  truncations of complete writer outputs (small documents at every code point, large ones sampled)
  C  random strings: symbol soup, random text with markers dropped in, long filler (10^4..10^5 chars) + marker
  D  own output: writer(caption set) -> detect_format -> that reader reads it (1-3 languages, empty languages, style
     nodes, line breaks inside text, later formats' markers in the text, 1..500 captions)
  E  marker boundary cases: each sniffing constant alone and with one character removed / changed

What alarms
  * violation: the PROPERTY ORACLE (Coq ok_detect, spec/SpecDetect.v) is false on what the implementation did, for
    every string of A, B, C, E; stream D: detect_format(writer output) is not the writer's reader, or that reader raises.
  * disagreement (model no longer mirrors the code where the property depends on it): stream E (sniffer outcome on the
    marker boundary cases) and detect_format on complete writer outputs (B, D).
  Everything else the model says (each sniffer's answer on arbitrary strings, sniffers on the empty string, a later
  sniffer raising after an earlier one accepted) is compared and COUNTED in the evidence, never alarmed on: the
  statement is parametric in "its own detect".
"""
import itertools
import re

import impl
import gens
import c20_nodes
from wire import Ok, Err, oracle_batch, oracle1, r_result, r_opt, Some
import pycaption
from pycaption import (DFXPReader, MicroDVDReader, WebVTTReader, SAMIReader, SRTReader, SCCReader,
                       DFXPWriter, MicroDVDWriter, WebVTTWriter, SAMIWriter, SRTWriter, SCCWriter,
                       CaptionSet, CaptionList, Caption, CaptionNode)

DOCUMENTED = [DFXPReader, MicroDVDReader, WebVTTReader, SAMIReader, SRTReader, SCCReader]
NAMES = ["DFXP", "MicroDVD", "WebVTT", "SAMI", "SRT", "SCC"]
CORE = ["0", "1", "\n", "\r", "{", "}", "-", ">", "<", " ", "W", "E", "B", "V", "T", "/", "t",
        "</tt>", "WEBVTT", "<sami", "-->", "{1}{2}", "Scenarist_SCC V1.0", "\u2028", "9", "</TT>", "<SAMI"]
EXT = ["\ufeff", "\t", "\x00", "\x0b", "\x0c", "\x1c", "\x1d", "\x1e", "\x85", "\u2028", "\u2029", "\xa0", "\u3000",
       "\r\n", "\u00b2", "\u0661", "\uff11", "\u2460", "\u07c0", "\u0130", "\u212a", "<sam\u0130", "\u00e9", "\u03a3", "a",
       "{\u0661}{\uff11}", "</t\u0131t>"]
# ² superscript two: isdigit, not \d.  ١ / １ / ߀: isdigit and \d.  ① circled one: isdigit only.
# İ: lower() = "i" + U+0307.  K Kelvin: lower() = "k".  ı dotless i, Σ sigma: lower() non-ASCII.


def call_fast(f):
    try:
        return Ok(f())
    except Exception as e:  # noqa
        impl.last_exc = e
        return Err(impl.err_code(e))


def observe(s):
    ds = [call_fast(lambda: bool(r().detect(s))) for r in DOCUMENTED]
    df = call_fast(lambda: pycaption.detect_format(s))
    if isinstance(df, Ok):
        cls = df.v
        if cls is None:
            df = Ok(None)
        elif cls in DOCUMENTED:
            df = Ok(Some(DOCUMENTED.index(cls)))
        else:
            df = Ok(Some(99))
    return ds, df


def plain_ds(ds):
    return [d.v if isinstance(d, Ok) else ("raise", d.code) for d in ds]


def plain_df(df):
    return ((None if df.v is None else df.v.v) if isinstance(df, Ok) else ("raise", df.code))


def model_plain(resp):
    ds = [r_result(x, bool) for x in resp[0]]
    df = r_result(resp[1], lambda o: r_opt(o))
    return ([d.v if isinstance(d, Ok) else ("raise", d.code) for d in ds],
            df.v if isinstance(df, Ok) else ("raise", df.code))


def bump(d, k, n=1):
    d[k] = d.get(k, 0) + n


def check_strings(strings, res, tag, strict_sniffers=False, complete_docs=False):
    """property oracle on every string; model comparison: alarm level only where the docstring says so"""
    dist = res["distribution"]
    obs = [observe(s) for s in strings]
    models = oracle_batch([(2000, s) for s in strings])
    oks = oracle_batch([(2001, [len(s) > 0, ds, df]) for s, (ds, df) in zip(strings, obs)])
    for s, (ds, df), m, ok in zip(strings, obs, models, oks):
        res["evaluations"] += 1
        pds, pdf = plain_ds(ds), plain_df(df)
        if any(x is True for x in pds) or pdf is not None:
            res["nontrivial"].add(s if len(s) < 300 else (tag, len(s), hash(s)))
        if any(ord(c) > 127 for c in s[:2000]):
            bump(dist, tag + "_strings_with_non_ascii")
        if ok[0] != 1:
            raised = isinstance(df, Err)
            res["violations"].append({
                "kind": ("detect-raises" if raised and s else "empty-not-no-captions" if not s else "detect-inconsistent"),
                "what": f"detect_format on {s[:120]!r}{'...' if len(s) > 120 else ''}: readers' own detect {pds}, "
                        f"detect_format {pdf}",
                "input": s, "stream": tag, "impl_obs": [pds, pdf], "replay": "detect"})
            continue
        mds, mdf = model_plain(m)
        if s and ok[1] != 1:
            bump(dist, "info_sniffer_raises_where_detect_format_does_not_consult_it")
        if not s:
            if mds != pds:
                bump(dist, "info_sniffers_on_empty_string_differ_from_model")
            continue
        if mds != pds:
            if strict_sniffers:
                res["disagreements"].append({"input": s, "stream": tag, "what": "sniffer outcome on a marker boundary case",
                                             "impl": pds, "model": mds})
            else:
                bump(dist, "info_sniffer_outcome_differs_from_model")
                for i in range(6):
                    if mds[i] != pds[i]:
                        bump(dist, "info_sniffer_outcome_differs_from_model_" + NAMES[i])
        if mdf != pdf:
            if complete_docs:
                res["disagreements"].append({"input": s, "stream": tag, "what": "detect_format on a complete writer output",
                                             "impl": pdf, "model": mdf})
            else:
                bump(dist, "info_detect_format_differs_from_model")
    return res


# ------------------------------------------------------------------------------------------------ stream E
def boundary_strings():
    """each sniffing constant alone (accepted by the owning sniffer), with each single character removed and with each
    single cased character case-flipped; nothing is put in front of or behind the constant, so a sniffer that becomes
    stricter about the POSITION of its marker agrees on all of them"""
    out = []
    for m in ["</tt>", "WEBVTT", "<sami", "Scenarist_SCC V1.0", "{1}{2}", "{12}{345}", "1\n-->", "12\n00:00:01,000 --> 00:00:02,000"]:
        out.append(m)
        for i in range(len(m)):
            out.append(m[:i] + m[i + 1:])
            if m[i].swapcase() != m[i]:
                out.append(m[:i] + m[i].swapcase() + m[i + 1:])
    out += ["Scenarist_SCC V1.0\n", "Scenarist_SCC V1.0\n\n00:00:00:00\t9420", "{1}{2}x", "{1}{}", "{a}{1}", "{1} {2}"]
    return sorted(set(out))


# ------------------------------------------------------------------------------------------------ stream D
WRITERS = [("DFXP", DFXPWriter, DFXPReader), ("MicroDVD", MicroDVDWriter, MicroDVDReader),
           ("WebVTT", WebVTTWriter, WebVTTReader), ("SAMI", SAMIWriter, SAMIReader),
           ("SRT", SRTWriter, SRTReader), ("SCC", SCCWriter, SCCReader)]
# decision xii: markers of formats probed BEFORE the writer's own format (documented order), case-insensitive where
# the sniffer is
EARLIER = {"DFXP": [], "MicroDVD": ["</tt>"], "WebVTT": ["</tt>"], "SAMI": ["</tt>", "WEBVTT"],
           "SRT": ["</tt>", "WEBVTT", "<sami"], "SCC": ["</tt>", "WEBVTT", "<sami"]}
OTHER_MARKER_TEXTS = ["WEBVTT", "<sami>", "<SAMI>", "Scenarist_SCC V1.0", "{1}{2}", "{1}{2}hi", "</tt>", "</TT>",
                      "1\n00:00:01,000 --> 00:00:02,000", "a --> b", "x</tt>y", "webvtt", "<sam\u0130"]
# not markers, but one character away from one: in the domain, must not disturb detection
NEAR_MARKER_TEXTS = ["WebVTT", "webvtt", "Webvtt", "a WebVTT file", "scenarist_scc v1.0", "</tt", "/tt>", "</t t>", "<tt>", "WEBVT", "EBVTT", "WEB VTT", "<sam", "sami", "< sami", "->", "-- >",
                     "Scenarist_SCC V1.", "{1}{", "{1}2}", "</tt\n>"]
INNER_BREAKS = ["a\nb", "a\n\nb", "a\rb", "a\r\nb", "a\x0bb", "a\x0cb", "a\x85b", "a\u2028b", "a\u2029b", "\nx", "x\n"]
FIRST_LANGUAGE_ONLY = ("WebVTT", "SCC")
LANG_NAMES = ["en-US", "fr", "de", "pt-BR", "zh-Hans", "und"]
STYLE_NODES = [{"italics": True}, {"bold": True}, {"underline": True}, {"italics": True, "bold": True}]


def has_marker(t, m):
    return (m in t) if m == "WEBVTT" else (m in t.lower())


def in_domain_text(name, t):
    return not any(has_marker(t, m) for m in EARLIER[name])


def literal_other_marker(name, t):
    """the literal reading of 'another format's marker': ANY other format's marker, also of formats probed later"""
    low = t.lower()
    hits = []
    if name != "DFXP" and "</tt>" in low:
        hits.append("dfxp")
    if name != "WebVTT" and "WEBVTT" in t:          # exact: the WebVTT sniffer does not lower-case
        hits.append("webvtt")
    if name != "SAMI" and "<sami" in low:
        hits.append("sami")
    if name not in ("SRT", "WebVTT") and "-->" in t:
        hits.append("srt")
    if name != "SCC" and "Scenarist_SCC V1.0" in t:  # exact: the SCC sniffer compares the header line as it is
        hits.append("scc")
    if name != "MicroDVD" and re.search(r"\{\d+\}\{\d+\}", t):
        hits.append("microdvd")
    return hits


def scc_charset():
    from pycaption.scc import constants as k
    chars = set()
    for table in ("CHARACTERS", "SPECIAL_CHARS", "EXTENDED_CHARS"):
        for v in getattr(k, table, {}).values():
            if isinstance(v, str) and len(v) == 1 and v not in "\n\r":
                chars.add(v)
    return sorted(chars)


def gen_text(rng, name, flavour, clean=False):
    """clean: resample until the text carries no earlier format's marker (large sets would otherwise never be in the
    domain)"""
    while True:
        t = gen_text1(rng, name, flavour)
        if not clean or in_domain_text(name, t):
            return t


def gen_text1(rng, name, flavour):
    r = rng.random()
    if flavour == "scc":
        cs = scc_charset()
        if r < 0.5:
            return "".join(rng.choice(cs) for _ in range(rng.randint(1, 40))).strip() or "x"
        return "".join(rng.choice("abcdefghij KLMNOP.,!?'-0123456789") for _ in range(rng.randint(1, 70))).strip() or "x"
    if r < 0.09:
        return rng.choice(OTHER_MARKER_TEXTS)
    if r < 0.14:
        return rng.choice(NEAR_MARKER_TEXTS)
    if r < 0.2:
        return rng.choice(INNER_BREAKS)
    if r < 0.23:
        return rng.choice(["|", "| |", "a|b", "|x", "x|"])
    return gens.rand_text(rng, adversarial=0.5)


def layouts():
    from pycaption.geometry import (Layout, Alignment, HorizontalAlignmentEnum, VerticalAlignmentEnum, Point, Size,
                                    UnitEnum)
    return [Layout(alignment=Alignment(HorizontalAlignmentEnum.CENTER, VerticalAlignmentEnum.BOTTOM)),
            Layout(origin=Point(Size(10, UnitEnum.PERCENT), Size(80, UnitEnum.PERCENT)))]


def gen_nodes(rng, name, flavour, clean=False):
    if flavour != "scc" and rng.random() < 0.25:
        # the caption shapes of the text properties (C03/C08 generator): empty lines, edge breaks, style spans
        import gens_text
        while True:
            nodes = gens_text.build_nodes(gens_text.rand_caption_nodes(rng))
            if not clean or all(in_domain_text(name, n.content) for n in nodes if n.type_ == CaptionNode.TEXT):
                return nodes
    nodes = []
    nlines = rng.randint(1, 3)
    styled = rng.random() < 0.25 and flavour != "scc"
    for i in range(nlines):
        if i:
            nodes.append(CaptionNode.create_break())
        if styled and rng.random() < 0.6:
            st = rng.choice(STYLE_NODES)
            nodes.append(CaptionNode.create_style(True, dict(st)))
            nodes.append(CaptionNode.create_text(gen_text(rng, name, flavour, clean)))
            nodes.append(CaptionNode.create_style(False, dict(st)))
        else:
            nodes.append(CaptionNode.create_text(gen_text(rng, name, flavour, clean)))
    return nodes


def own_output_case(rng, fmt, big=0):
    """a caption set; returns (set, info) - info says whether it lies in the domain of the own-output sentence"""
    name = fmt[0]
    flavour = "scc" if name == "SCC" else "text"
    nlangs = rng.choice([1, 1, 1, 2, 2, 3])
    langs = rng.sample(LANG_NAMES, nlangs)
    empty_at = set()
    positioned = [False]
    if nlangs > 1 and rng.random() < 0.4:
        empty_at.add(rng.randrange(nlangs))          # an empty first or later language
    d = {}
    for li, lang in enumerate(langs):
        if li in empty_at:
            d[lang] = CaptionList()
            continue
        n = big if (big and li == 0) else rng.randint(1, 4)
        caps = []
        if name == "SCC":
            t = rng.randrange(2, 40) * 10 ** 6
            for i in range(n):
                caps.append(Caption(t, t + 3 * 10 ** 6, gen_nodes(rng, name, flavour, bool(big))))
                t += 10 * 10 ** 6
        else:
            for (s, e) in gens.rand_times(rng, n):
                nodes = gen_nodes(rng, name, flavour, bool(big))
                lay = rng.choice(layouts()) if rng.random() < 0.2 else None      # positioned captions
                if lay is not None:
                    positioned[0] = True
                    for nd in nodes:
                        nd.layout_info = lay
                caps.append(Caption(s, e, nodes, layout_info=lay))
        d[lang] = CaptionList(caps)
    cs = CaptionSet(d)
    texts = [n.content for l in langs for c in d[l] for n in c.nodes if n.type_ == CaptionNode.TEXT]
    # WebVTT and SCC write the FIRST language only (documented in the writers): the text the document is produced
    # from is that language's text
    written = langs[:1] if name in FIRST_LANGUAGE_ONLY else langs
    wtexts = [n.content for l in written for c in d[l] for n in c.nodes if n.type_ == CaptionNode.TEXT]
    info = {
        "langs": nlangs, "empty_first": 0 in empty_at, "empty_later": bool(empty_at - {0}),
        "marker_free": all(in_domain_text(name, t) for t in texts),
        "visible": any(gens.visible(t) for t in wtexts),
        "literal_other": sorted({h for t in texts for h in literal_other_marker(name, t)}),
        "inner_break": any(any(ch in t for ch in "\n\r\x0b\x0c\x1c\x1d\x1e\x85\u2028\u2029") for t in texts),
        "styled": any(n.type_ == CaptionNode.STYLE for l in langs for c in d[l] for n in c.nodes),
        "ncaps": sum(len(d[l]) for l in langs), "positioned": positioned[0],
    }
    return cs, info


BOUNDARY_SPANS = [(0, 2000000), (1, 2000001), (39999, 2000000), (40000, 3000000), (0, 30000), (0, 39999),
                  (40000, 70000), (999, 1001), (3599999999, 3600000001), (86399000000, 86399999999)]


def boundary_cases():
    """every non-SCC writer x first-cue spans on the frame / millisecond / hour boundaries (incl. a cue that lies inside
    MicroDVD frame 0 and a cue shorter than one frame) followed by an ordinary second cue; plus the deterministic shapes
    behind the recorded findings: a single cue whose only text is '|', and (repaired) an empty first language and a line
    break inside a text node"""
    out = []
    plain = {"langs": 1, "empty_first": False, "empty_later": False, "marker_free": True, "visible": True,
             "literal_other": [], "inner_break": False, "styled": False, "ncaps": 2}
    for fmt in WRITERS:
        if fmt[0] == "SCC":
            continue
        for (s, e) in BOUNDARY_SPANS:
            for text in ("hello", "25", "7 up"):
                caps = [gens.build_caption(s, e, [text]), gens.build_caption(e + 5000000, e + 7000000, ["second cue"])]
                out.append((fmt, CaptionSet({"en-US": CaptionList(caps)}), dict(plain)))
        for text in ("|", " | ", "||"):
            out.append((fmt, CaptionSet({"en-US": CaptionList([gens.build_caption(423940689, 424940688, [text])])}),
                        dict(plain, ncaps=1)))
        for text in ("a\nb", "a\rb", "a\u2028b", "a\n\nb"):
            out.append((fmt, CaptionSet({"en-US": CaptionList([gens.build_caption(10 ** 6, 2 * 10 ** 6, [text])])}),
                        dict(plain, ncaps=1, inner_break=True)))
        for text in NEAR_MARKER_TEXTS:        # one character away from a marker: in the domain
            out.append((fmt, CaptionSet({"en-US": CaptionList([gens.build_caption(10 ** 6, 2 * 10 ** 6, ["hello"]),
                                                               gens.build_caption(3 * 10 ** 6, 4 * 10 ** 6, [text])])}),
                        dict(plain, inner_break="\n" in text)))
        out.append((fmt, CaptionSet({"en-US": CaptionList(), "fr": CaptionList([gens.build_caption(10 ** 6, 2 * 10 ** 6, ["x"])])}),
                    dict(plain, langs=2, empty_first=True, ncaps=1, visible=fmt[0] not in FIRST_LANGUAGE_ONLY)))
        out.append((fmt, CaptionSet({"en-US": CaptionList([gens.build_caption(10 ** 6, 2 * 10 ** 6, ["x"])]), "fr": CaptionList()}),
                    dict(plain, langs=2, empty_later=True, ncaps=1)))
    return out


def classify_failure(name, doc, det, rd):
    """shape of an own-output failure, from what FAILED (not from the input)"""
    lines = [l for l in doc.splitlines() if l]
    if name == "MicroDVD" and isinstance(det, Ok) and det.v is MicroDVDReader and isinstance(rd, Err):
        if rd.code == 3 and lines and re.match(r"\{0\}\{0\}", lines[0]):
            return "microdvd-cue-inside-frame-0"
        if rd.code == 1 and lines and all(re.fullmatch(r"\{\d+\}\{\d+\}", l) for l in lines):
            return "microdvd-only-cues-without-text"
    if name == "SRT" and isinstance(det, Ok) and det.v is None and doc.startswith("MULTI-LANGUAGE SRT\n"):
        return "srt-separator-before-first-cue"
    return "other"


def det_name(det):
    if isinstance(det, Err):
        return "raise:%d" % det.code
    return det.v.__name__ if det.v is not None else "None"


def judge_own(fmt, cs, info, res, docs_out=None):
    name, W, R = fmt
    dist = res["distribution"]
    out = impl.call(lambda: W().write(cs))
    res["evaluations"] += 1
    if not isinstance(out, Ok):
        # a writer failure is not C20's business (C03/C07/C17 own it); skip but count
        bump(dist, "D_writer_raised_" + name)
        return
    doc = out.v
    for k in ("empty_first", "empty_later", "inner_break", "styled", "positioned"):
        bump(dist, "D_" + k, int(bool(info.get(k))))
    bump(dist, "D_languages_%d" % info["langs"])
    bump(dist, "D_text_with_a_later_or_positional_marker", int(bool(info["literal_other"])))
    if not info["marker_free"]:
        bump(dist, "D_out_of_domain_text_has_earlier_marker(not judged)")
        return
    if not info["visible"] or not doc.strip():
        bump(dist, "D_out_of_domain_no_visible_text(not judged)")
        return
    if docs_out is not None:
        docs_out.append((name, doc))
    bump(dist, "D_judged_" + name)
    bump(dist, "D_doc_chars_max_" + name, max(0, len(doc) - dist.get("D_doc_chars_max_" + name, 0)))
    det = impl.call(lambda: pycaption.detect_format(doc))
    good = isinstance(det, Ok) and det.v is R
    rd = None
    if good:
        rd = impl.call(lambda: R().read(doc), timeout=120)
        good = isinstance(rd, Ok)
    res["nontrivial"].add(("own", name, hash(doc)))
    if good:
        return
    shape = classify_failure(name, doc, det, rd)
    v = {"kind": "own-output-not-recognised:" + shape, "fmt": name, "shape": shape, "det": det_name(det),
         "read_err": rd.code if isinstance(rd, Err) else None, "first_language_empty": bool(info["empty_first"]),
         "what": f"{name} writer output detected as {det_name(det)}"
                 + (f", {R.__name__}.read raised {impl.ERR_NAMES.get(rd.code, rd.code)}" if isinstance(rd, Err) else ""),
         "input": gens.describe_capset(cs) if info["ncaps"] <= 8 else "(%d captions)" % info["ncaps"],
         "document": doc, "replay": "own", "stream": "D"}
    if info["literal_other"] and shape == "other":
        # outside the LITERAL reading of the domain (text carries a later / positional format's marker): counted
        bump(dist, "info_own_output_failure_outside_literal_domain")
        res.setdefault("notes", []).append("own-output failure on text with another format's marker (%s): %s"
                                           % (",".join(info["literal_other"]), v["what"]))
        return
    res["violations"].append(v)


def run_own_output(ctx, res, n, docs_out, sets_out=None):
    cases = boundary_cases()
    for i in range(n):
        fmt = WRITERS[i % len(WRITERS)]
        cs, info = own_output_case(ctx.rng, fmt)
        cases.append((fmt, cs, info))
    for fmt in WRITERS:                                       # large documents (> 4 KB, > 64 KB)
        for big in ([60, 500] if not ctx.thorough else [60, 200, 500, 1500]):
            if fmt[0] == "SCC" and big > 200:
                big = 200
            cs, info = own_output_case(ctx.rng, fmt, big=big)
            cases.append((fmt, cs, info))
    for fmt, cs, info in cases:
        judge_own(fmt, cs, info, res, docs_out)
        if sets_out is not None and info["ncaps"] <= 60:
            sets_out.append((fmt[0], cs))


# ------------------------------------------------------------------------------------------------ stream C
FILLER_WORDS = ["lorem", "ipsum", "dolor", "sit", "amet", "12", "0", "-", ">", "<", "{", "}", "tt", "sami", "WEB", "VTT",
                "\n", "\n\n", "\r\n", " ", "  ", "\t", "\u00e9t\u00e9", "\u4e2d\u6587", "\U0001F600", "00:00:01,000", "--"]
MARKERS = ["</tt>", "</TT>", "WEBVTT", "<sami", "<SAMI", "-->", "{1}{2}", "Scenarist_SCC V1.0", "1\n00:00:01,000 --> 00:00:02,000\n"]


def random_strings(ctx):
    rng = ctx.rng
    syms = CORE + EXT
    out = []
    for _ in range(ctx.n(2000, 60000)):                       # symbol soup, 4-12 symbols
        out.append("".join(rng.choice(syms) for _ in range(rng.randint(4, 12))))
    for _ in range(ctx.n(1500, 30000)):                       # random text with markers dropped in
        parts = []
        for _ in range(rng.randint(1, 30)):
            r = rng.random()
            if r < 0.12:
                parts.append(rng.choice(MARKERS))
            elif r < 0.3:
                parts.append(chr(rng.choice([rng.randrange(32, 127), rng.randrange(128, 0x3000), rng.randrange(0x10000, 0x10400)])))
            elif r < 0.4:
                parts.append(rng.choice(EXT))
            else:
                parts.append(rng.choice(FILLER_WORDS))
        out.append("".join(parts))
    for _ in range(ctx.n(24, 200)):                           # long filler, marker late (or none)
        n = rng.choice([5000, 20000, 70000, 100000])
        words = []
        size = 0
        while size < n:
            w = rng.choice(FILLER_WORDS)
            words.append(w)
            size += len(w)
        head = rng.choice(["", "", "1\n", "{1}{2}", "Scenarist_SCC V1.0\n", "7\n00:00:01,000 --> 00:00:02,000\n"])
        tail = rng.choice(MARKERS + ["", ""])
        out.append(head + "".join(words) + tail + rng.choice(["", "x", "\n"]))
    return out


# ------------------------------------------------------------------------------------------------ stream F
def shape_request(name, doc):
    """parse a writer output into the pieces of the document shape of spec/SpecOwn.v (untrusted: the oracle
    re-assembles the document from the pieces and the harness compares it with the real one)"""
    if name == "SRT":
        blocks = (doc + "\n").split("\n\n")
        if blocks[-1] != "":
            return None
        cues = []
        for b in blocks[:-1]:
            lines = b.split("\n")
            if len(lines) < 2:
                return None
            cues.append([lines[1], "\n".join(lines[2:])])
        return (2002, [4, cues]) if cues else None
    if name == "MicroDVD":
        lines = doc.split("\n")
        if lines[-1] != "":
            return None
        cues = []
        for l in lines[:-1]:
            m = re.match(r"(\{[^{}]*\}\{[^{}]*\})(.*)\Z", l, re.S)
            if not m:
                return None
            cues.append([m.group(1), m.group(2)])
        if not cues:
            return None
        m = re.match(r"\{([^{}]*)\}\{([^{}]*)\}\Z", cues[0][0])
        return (2002, [1, [m.group(1), m.group(2), cues[0][1], cues[1:]]])
    if name == "WebVTT":
        if not doc.startswith("WEBVTT\n\n"):
            return None
        return (2002, [2, doc[len("WEBVTT\n\n"):].split("\n")])
    if name == "SCC":
        head = "Scenarist_SCC V1.0\n\n"
        if not doc.startswith(head):
            return None
        return (2002, [5, doc[len(head):]])
    if name == "DFXP":                       # skeleton: anything, the root element's closing tag, anything
        k = doc.rfind("</tt>")
        return (2002, [0, doc[:k], doc[k + 5:]]) if k >= 0 else None
    if name == "SAMI":                       # skeleton: opens with the <sami root tag
        return (2002, [3, doc[5:]]) if doc.startswith("<sami") else None
    return None


def run_shapes(res, judged):
    """judged: (format name, document) of every in-domain writer output of stream D.  Each one that is an INSTANCE of
    the theorem's document shape with true hypotheses is covered by C20_own_output_<fmt>: the model then predicts its
    own format, and the implementation must agree (alarm level)."""
    dist = res["distribution"]
    reqs, items = [], []
    for name, doc in judged:
        if name in ("DFXP", "SAMI") and len(doc) > 30000:
            bump(dist, "F_skeleton_instance_not_sent_document_over_30000_chars_" + name)
            continue
        rq = shape_request(name, doc)
        if rq is None:
            bump(dist, "F_not_parsed_as_shape_" + name)
            continue
        reqs.append(rq)
        items.append((name, doc))
    for (name, doc), r in zip(items, oracle_batch(reqs)):
        res["evaluations"] += 1
        if r == [-1] or r[0] != doc:
            bump(dist, "F_not_an_instance_of_the_shape_" + name)
            continue
        if r[1] != 1:
            bump(dist, "F_instance_but_hypotheses_false_" + name)
            continue
        bump(dist, "F_instances_covered_by_theorem_" + name)
        det = call_fast(lambda: pycaption.detect_format(doc))
        want = dict((n, rd) for n, _, rd in WRITERS)[name]
        if not (isinstance(det, Ok) and det.v is want):
            res["disagreements"].append({"input": doc[:2000], "stream": "F", "what": "document is an instance of the "
                                         "own-output theorem for %s but the implementation detects %s" % (name, det_name(det))})


def run(ctx):
    res = {"evaluations": 0, "nontrivial": set(), "violations": [], "disagreements": [], "distribution": {},
           "streams": 9, "notes": []}
    dist = res["distribution"]
    rng = ctx.rng
    # E: marker boundary cases (sniffer-level, alarm level)
    bs = boundary_strings()
    dist["E_marker_boundary_cases"] = len(bs)
    check_strings(bs, res, "E", strict_sniffers=True)
    # A: exhaustive short strings
    maxlen = ctx.n(3, 4)
    strings = [""]
    for L in range(1, maxlen + 1):
        strings.extend("".join(t) for t in itertools.product(CORE, repeat=L))
    dist["A_core_exhaustive_len_le_%d" % maxlen] = len(strings)
    check_strings(strings, res, "A")
    both = CORE + EXT
    ext2 = ["".join(t) for L in (1, 2) for t in itertools.product(both, repeat=L) if any(x in EXT for x in t)]
    dist["A_extended_exhaustive_len_le_2"] = len(ext2)
    check_strings(ext2, res, "A")
    if ctx.thorough:
        ext3 = ["".join(t) for t in itertools.product(both, repeat=3) if any(x in EXT for x in t)]
    else:
        ext3 = []
        while len(ext3) < 12000:
            t = [rng.choice(both) for _ in range(3)]
            if any(x in EXT for x in t):
                ext3.append("".join(t))
    dist["A_extended_len_3" + ("_exhaustive" if ctx.thorough else "_sampled")] = len(ext3)
    check_strings(ext3, res, "A")
    # C: random strings
    rs = random_strings(ctx)
    dist["C_random"] = len(rs)
    dist["C_longest"] = max(len(s) for s in rs)
    check_strings(rs, res, "C")
    # D: own output (collects the complete documents for B)
    judged = []
    sets = []
    run_own_output(ctx, res, ctx.n(240, 6000), judged, sets)
    docs = [d for _, d in judged]
    # G: the writer models that start from the text nodes, against the real writers (request 2003)
    c20_nodes.run_nodes(ctx, res, sets)
    c20_nodes.run_dfxp_nodes(ctx, res)
    # H: "that reader reads the document" on the read-back domain (request 2004)
    c20_nodes.run_read(ctx, res, sets)
    # I: non-default writer options (force= / lang=) and multi-language sets with an empty language
    import c20_options
    c20_options.run_options(ctx, res)
    # F: writer outputs as instances of the own-output theorems
    run_shapes(res, judged)
    # B: complete documents + truncations
    rng.shuffle(docs)
    small = [d for d in docs if len(d) < 1500][:ctx.n(12, 60)]
    large = [d for d in docs if len(d) >= 4096][:ctx.n(4, 24)]
    dist["B_complete_documents"] = len(docs)
    check_strings(docs if ctx.thorough else docs[:400], res, "B", complete_docs=True)
    trunc = []
    for d in small:
        trunc.extend(d[:k] for k in range(0, len(d)))
    for d in large:
        cuts = sorted({rng.randrange(len(d)) for _ in range(ctx.n(25, 60))} | {len(d) - k for k in range(1, 9)} | set(range(0, 20)))
        trunc.extend(d[:k] for k in cuts)
    dist["B_truncations"] = len(trunc)
    dist["B_longest"] = max([len(t) for t in trunc] + [0])
    check_strings(trunc, res, "B")
    res["rule"] = ("E: %d marker boundary cases; A: every string of <= %d symbols over %d core symbols, every string of <= 2 "
                   "symbols and %s strings of 3 symbols over %d symbols containing an extended one (BOM, tab, NUL, all "
                   "splitlines boundaries, NBSP, non-ASCII digits/letters); C: symbol soup, random text with markers, filler up "
                   "to 10^5 characters with a late marker; D: writer outputs of random caption sets (1-3 languages, empty "
                   "languages, styles, inner line breaks, foreign markers, up to 500 captions) + boundary grid; B: those "
                   "documents complete and truncated. Non-trivial = some sniffer accepts or detect_format returns a reader "
                   "(distinct strings counted)." % (len(bs), maxlen, len(CORE), "all" if ctx.thorough else "12000 sampled",
                                                    len(both)))
    nt = [s for s in res["nontrivial"] if isinstance(s, str)]
    res["samples"] = sorted(nt, key=len)[5:8] + [s for s in nt if "\n" in s][:3]
    res["clauses"] = {
        "theorem": ["model: no sniffer raises on a non-empty string (all strings over all code points, generated Unicode tables)",
                    "model: detect_format = first reader in the documented order whose own detect accepts; satisfies ok_detect",
                    "generated SUPPORTED_READERS order = documented order; generated sniffing constants = the documented ones",
                    "empty string raises no-captions",
                    "model: own output of the SCC / SRT / MicroDVD / WebVTT document shapes is detected as its own format "
                    "under marker-freeness (see design/C20.md for the exact hypotheses)",
                    "writer models FROM THE TEXT NODES (model/OwnWrite.v): every SRT / MicroDVD document of a caption set whose "
                    "caption texts carry no earlier format's marker, and every WebVTT document whatever the text, is "
                    "detected as its own format (C20_own_nodes_srt / _mdvd / _vtt)",
                    "SCC from the text nodes: every document the SCC writer model returns is detected as SCC (body characters "
                    "proved over the complete generated tables)",
                    "MicroDVD / SRT read-back: on the domains excluding the recorded findings the reader model returns one "
                    "caption per written cue with the written instants and text pieces (C20_own_read_mdvd, C20_own_read_srt)",
                    "DFXP / SAMI skeletons: a document containing </tt> is DFXP; a document opening with <sami and "
                    "carrying neither </tt> nor WEBVTT is SAMI"],
        "correspondence_only": ["detect_format iterates SUPPORTED_READERS and calls reader().detect (streams A-C via the oracle)",
                                "own output is read back by its reader (stream D); DFXP / SAMI documents (bs4) are instances of the "
                                "skeleton shapes (stream F)",
                                "the SRT / MicroDVD / WebVTT writer models equal the real writers (stream G, request 2003); "
                                "WebVTT with layout / Caption.style / style classes, float times, SCC texts with a TAB are outside "
                                "the node-level models",
                                "real writer outputs have the document shapes of the own-output theorems",
                                "the hand-written sniffer bodies (markers generated, boundary cases stream E)",
                                "str.lower on non-ASCII code points as far as an ASCII marker can see it (decision 5)"]}
    return res


def replay(ctx, rec):
    if rec.get("replay") == "detect":
        s = rec["input"]
        ds, df = observe(s)
        ok = oracle1(2001, [len(s) > 0, ds, df])
        return ok[0] != 1, [plain_ds(ds), plain_df(df)]
    if rec.get("replay") == "own":
        doc = rec["document"]
        name = rec["fmt"]
        R = dict((n, r) for n, _, r in WRITERS)[name]
        det = impl.call(lambda: pycaption.detect_format(doc))
        good = isinstance(det, Ok) and det.v is R
        if good:
            rd = impl.call(lambda: R().read(doc), timeout=120)
            good = isinstance(rd, Ok)
        return (not good), repr(det)
    if rec.get("replay") == "own-read":
        rd = c20_nodes.real_read(rec["fmt"], rec["document"])
        want = [(e[0], e[1], list(e[2])) for e in rec["expected"]]
        return (not (isinstance(rd, Ok) and rd.v == want)), repr(rd)
    if rec.get("replay") == "own-detect":
        doc = rec["document"]
        R = dict((n, r) for n, _, r in WRITERS)[rec["fmt"]]
        det = impl.call(lambda: pycaption.detect_format(doc))
        return (not (isinstance(det, Ok) and det.v is R)), repr(det)
    return False, "unknown replay kind"
