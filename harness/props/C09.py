"""C09 - writing never alters its input and is deterministic.

Real side (harness/iso_worker.py, one process per PYTHONHASHSEED): random HISTORIES - 1-3 caption sets (built through
the API: px / % / partial layouts, unbalanced style nodes, concurrent captions, empty languages, float times; or read
from the six formats), then 3-8 write() calls of the eight writers with option combinations, on shared and fresh
writer objects (the same set again with the same object, with a fresh object, after other sets were written, after
a write that raised), now and then an edit.  Per operation the worker records: the deep structural snapshot of EVERY
live set (identity-insensitive), output digest / exception class, span tags, the writer's instance attributes, which
slots of input objects were rebound (identity level), which slots of the writer's own deepcopy were assigned
(copy footprint, through a spy on copy.deepcopy), deepcopy count, references from the writer object into the input.

Model side (coq/model/Store.v, Iso.v, extracted): the same history in the store model -> predicted snapshot of every
set after every op, error exit, span token counts, open_span, copy footprint, deepcopy count.
Wave 7: the same histories with the writers executed as HEAP PROGRAMS (coq/model/HeapProg.v, request 902: statements that
load from / store into any object, instance registers, rendering state machines) - compared with the real heap and with the
store model; request 903 re-evaluates the ownership and assigned-before-read analyses (see heap_program_stream).
Property oracle: Coq ok_c09 (coq/spec/SpecIso.v) on the implementation's digests: no write changes any set (also when
it raises); equal (writer class, options, set snapshot) => equal bytes.  Across processes: the same histories under
PYTHONHASHSEED 0,1,2,3,17,4242 must give identical outputs.
"""
import json

import impl  # noqa: F401
import iso_gen as G
import iso_core as C

SEEDS = C.SEEDS
TABLES = ()     # no generated constant table is part of this property's tie
EXPOSING = [  # directed search: sets on which every assignment a writer makes is visible, per writer class
    {"layout": "pad", "styles": [["s1", {"color": "red", "text-align": "left"}], ["p", {"italics": True}]],
     "langs": [{"lang": "en-US", "layout": "rel_noext", "caps": [
         {"start": 1000000, "end": 2000000, "style": {"color": "red"}, "layout": "rel_noext",
          "nodes": [["s", True, {"italics": True}, "rel_noext"], ["t", "one", "rel_over"], ["b", None], ["t", "two", None]]},
         {"start": 1000000, "end": 2000000, "style": None, "layout": "rel_over", "nodes": [["t", "three", "rel_noext"]]},
         {"start": 3000000, "end": 4000000, "style": {"text-align": "center"}, "layout": None,
          "nodes": [["t", "four", None]]}]},
         {"lang": "fr", "layout": "rel_over", "caps": [
             {"start": 1000000, "end": 2000000, "style": None, "layout": "rel_noext", "nodes": [["t", "un", None]]}]}]},
]


def violation_record(h, i, clause, extra, prop="C09"):
    op = h[i] if 0 <= i < len(h) else {}
    what = {1: "write() changed the snapshot of a caption set",
            2: "the same writer class/options on a set with the same snapshot returned different text "
               "(same object again / fresh object / after other writes / alone in a fresh process)",
            7: "the same history gives different writer output in a process with another PYTHONHASHSEED"}.get(clause, str(clause))
    rec = {"kind": C.CLAUSES[clause], "what": "%s: op %d %s in [%s]" % (what, i, json.dumps({k: op.get(k) for k in ("op", "kind", "wopts", "kw", "w", "set")}), C.describe_history(h)),
           "input": h, "history": h, "op_index": i, "clause": clause, "replay": "history", "writer": op.get("kind")}
    rec.update(extra)
    return rec


def plan_seeds(n, thorough):
    """seed 0 runs everything; thorough: every other seed too; quick: the other five seeds share the histories, so that
    EVERY history runs in a second process with a non-zero hash seed"""
    plan = {0: list(range(n))}
    others = [s for s in SEEDS if s != 0]
    if thorough:
        for s in others:
            plan[s] = list(range(n))
    else:
        for k, s in enumerate(others):
            plan[s] = [j for j in range(n) if j % len(others) == k]
    return plan


def run(ctx):
    rng = ctx.rng
    n = ctx.n(225, 2000)
    histories = [G.history_c09(rng) for _ in range(n)]
    # regression corpus first: defect 15 (open_span leak) on the four writers that have the flag
    histories = CORPUS + histories
    # pristine twins: the last write of a history, alone in a fresh process ("after other sets were written" /
    # "in another process" must give the same bytes as that)
    twins = []           # (history index, twin index)
    for hi in range(len(histories)):
        h = histories[hi]
        ws = [k for k, op in enumerate(h) if op["op"] == "write"]
        cands = []
        seen_keys = set()
        for pos, k in enumerate(ws):
            op = h[k]
            nedits = sum(1 for q in h[:k] if q["op"] == "edit" and q["set"] == op["set"])
            key = json.dumps([op["kind"], op.get("wopts"), op.get("kw"), op["set"], nedits], sort_keys=True)
            if pos == 0 or key in seen_keys:
                seen_keys.add(key)
                continue             # first write of the process / same (writer, options, set, edits so far) again
            seen_keys.add(key)
            # written after something else was written in this process; first the writes that follow an edit of
            # their own set (object-keyed memoisation), then the later ones
            cands.append((0 if nedits and any(h[j]["op"] == "write" and h[j]["set"] == op["set"] for j in ws[:pos]) else 1,
                          -pos, pos))
        for _, _, pos in sorted(cands)[:(2 if len(h) <= 5 else 1) + (1 if cands and sorted(cands)[0][0] == 0 else 0)]:
            t = G.pristine_twin(h, pos)
            if t is not None:
                twins.append((hi, len(histories)))
                histories.append(t)
    n = len(histories)
    r = C.check_batch(histories, ctx.repo, plan_seeds(n, ctx.thorough), "C09", ("write",))
    res = {"evaluations": 0, "nontrivial": set(), "violations": [], "disagreements": [], "streams": 0,
           "distribution": {}, "notes": []}
    dist = res["distribution"]
    kinds, errs, reuse, nops = {}, {}, 0, 0
    hi_of = {id(h): k for k, h in enumerate(histories)}
    twinned = set(hi for hi, _ in twins)
    for h, obs in zip(histories, r["results"]):
        res["evaluations"] += 1
        seen_w = set()
        reused = False
        for op, o in zip(h, obs):
            nops += 1
            if op["op"] == "write" and not o.get("skipped"):
                kinds[op["kind"]] = kinds.get(op["kind"], 0) + 1
                if o.get("err"):
                    errs["%s:%s" % (op["kind"], o["err"])] = errs.get("%s:%s" % (op["kind"], o["err"]), 0) + 1
                if op["w"] in seen_w:
                    reused = True
                seen_w.add(op["w"])
        if reused:
            reuse += 1
        if reused or hi_of[id(h)] in twinned:
            res["nontrivial"].add(json.dumps(h, sort_keys=True))
    dist.update({"histories": n, "operations": nops, "writes_by_writer": kinds, "writes_that_raised": errs,
                 "histories_with_a_reused_writer_object": reuse,
                 "hash_seeds": {str(s): len(v) for s, v in plan_seeds(n, ctx.thorough).items()},
                 "pristine_reads": len(r["pristine"])})
    pairs = [(histories[ti], r["results"][ti], histories[hi], r["results"][hi]) for hi, ti in twins]
    dist["pristine_twin_pairs"] = len(pairs)
    for (hi, ti), verdict in zip(twins, C.evaluate_pairs(pairs, 901)):
        for (i, clause) in verdict:
            if clause == 2:
                r["violations"].append((hi, i, 2, {"twin": histories[ti]}))
                break
    seen = set()
    for (hi, i, clause, extra) in r["violations"]:
        if clause in (1, 2, 7) and (clause, histories[hi][i].get("kind")) not in seen and len(seen) < 6:
            seen.add((clause, histories[hi][i].get("kind")))
            h = histories[hi]
            if "twin" not in extra:
                try:
                    h = C.shrink(h, ctx.repo, "C09", clause, extra.get("hashseed"), budget=12)
                    i = min(i, len(h) - 1)
                except Exception:  # noqa
                    pass
            res["violations"].append(violation_record(h, i, clause, extra))
    C.detail_summary(histories, r["details"], res)
    heap_program_stream(histories, r, res)
    # correspondence streams actually run: (1) model snapshots vs real heap per operation, (2) pristine twins,
    # (3) the same histories in processes with other hash seeds (each evaluated by the oracle on its own)
    res["streams"] = 2 + (1 if pairs else 0) + (1 if len(r["by_seed"]) > 1 else 0)   # 2 = store model + heap programs
    dist["oracle_evaluated_in_processes_with_hashseed"] = sorted(r["by_seed"])
    for (hi, d) in r["disagreements"][:40]:
        res["disagreements"].append({"history": histories[hi], "op_index": d["i"], "what": d["what"],
                                     "model": d.get("model"), "impl": d.get("impl")})
    if res["disagreements"] and not res["violations"]:
        # directed search: the writers involved in a disagreement, on sets where every assignment is visible
        kinds_hit = sorted(set(histories[hi][d["i"]].get("kind") for hi, d in r["disagreements"]
                               if 0 <= d["i"] < len(histories[hi]) and histories[hi][d["i"]]["op"] == "write"))
        extra_h = []
        for k in kinds_hit or G.WRITER_KINDS:
            for spec in EXPOSING:
                for wo in ({}, {"video_width": 640, "video_height": 360}, {"relativize": False}):
                    if k == "legacy" and wo:
                        continue
                    extra_h.append([{"op": "build", "spec": spec},
                                    {"op": "write", "kind": k, "wopts": wo, "kw": {}, "w": 0, "set": 0},
                                    {"op": "write", "kind": k, "wopts": wo, "kw": {}, "w": 0, "set": 0},
                                    {"op": "write", "kind": k, "wopts": wo, "kw": {}, "w": 1, "set": 0}])
        r2 = C.check_batch(extra_h, ctx.repo, {0: list(range(len(extra_h)))}, "C09", ("write",))
        res["evaluations"] += len(extra_h)
        dist["directed_search_histories"] = len(extra_h)
        seen = set()
        for (hi, i, clause, extra) in r2["violations"]:
            if clause in (1, 2, 7) and (clause, extra_h[hi][i].get("kind")) not in seen and len(seen) < 5:
                seen.add((clause, extra_h[hi][i].get("kind")))
                res["violations"].append(violation_record(extra_h[hi], i, clause, extra))
    res["rule"] = ("random histories: 1-3 caption sets (API-built with px/%/partial/padding/webvtt layouts, unbalanced "
                   "style nodes, concurrent captions, empty languages; or read from SRT/WebVTT/MicroDVD/DFXP/SAMI/SCC "
                   "documents), 3-8 write() calls of the 8 writers x relativize/fit_to_screen/video size/inline "
                   "positioning/default_positioning/force/lang, the focus (writer, options, set) written by the same "
                   "object again, by a fresh object and after other writes, edits in between; shapes: rich-then-plain "
                   "set on one object, A by one object then B by a fresh one; a history whose last write was first "
                   "made after other writes has a pristine twin (creation ops + that write alone in a fresh process) "
                   "and the oracle is evaluated on twin;history. Non-trivial = a history in which some writer object "
                   "is used more than once or that has a pristine twin; distinct histories counted.")
    res["samples"] = [C.describe_history(h) for h in histories[len(CORPUS):len(CORPUS) + 5]]
    res["clauses"] = {
        "theorem": ["HEAP PROGRAMS (wave 7): each writer is a program that may load from and store into any object, the "
                    "argument included; a static ownership analysis is proved sound for EVERY program (accepted => no "
                    "pre-existing location assigned, normal and raising exits, any store / options / history); the eight "
                    "writer programs are accepted; the variants without the deepcopy, with copy.copy, or assigning before "
                    "the copy are rejected and refuted (C09_ownership_analysis_sound, C09_heap_program_frame, "
                    "C09_writer_programs_owned, C09_copy_discipline_variants_refuted)",
                    "THE MODEL MEETS THE ORACLE: ok_c09 evaluated on the model's own observations of any history of reads, "
                    "builds, edits and writes reports nothing (C09_model_meets_oracle)",
                    "a write (any of the 8 writer models, any options, any instance state, also on its error exits) "
                    "leaves every pre-existing location, hence the snapshot of every caption set, unchanged; lifted "
                    "to arbitrary histories",
                    "deepcopy allocates only fresh locations and the copy is closed (points only into itself)",
                    "with the open_span reset the result of a write does not depend on the writer's instance state "
                    "(fresh = reused = after other writes); without it it does (refuted, witness)"],
        "correspondence_only": ["the model abstracts each writer to its effect summary (copy, assignments, instance "
                                "state, error exits, span state machine); that the real writers have exactly these "
                                "effects is checked per operation on the real heap",
                                "byte-identical output for equal (writer, options, snapshot incl. internal sharing): "
                                "compared between runs of the real writers only (same object, fresh object, pristine twin "
                                "process, a second process with another PYTHONHASHSEED; quick: one extra seed per history, "
                                "thorough: all six) - never with a model prediction",
                                "WebVTT/SRT/MicroDVD/SCC error exits are observed, not predicted"]}
    res["trusted_extra"] = ["harness/iso_worker.py, iso_snap.py, iso_core.py: heap observers (snapshot, id()-graph "
                            "walk, copy.deepcopy spy) and the comparison with the model's predictions"]
    return res


PROMOTED = ("copy-count", "own-copy-footprint", "error-exit", "span-tags", "open-span-after")
ATTRS = {(2, 1): "_captions", (2, 2): "_styles", (2, 3): "layout_info", (3, 1): "layout_info",
         (4, 1): "start", (4, 2): "end", (4, 3): "nodes", (4, 4): "style", (4, 5): "layout_info",
         (5, 1): "type_", (5, 2): "content", (5, 3): "start", (5, 4): "layout_info", (5, 5): "position"}


def heap_program_stream(histories, r, res):
    """wave 7: the writers executed as HEAP PROGRAMS (coq/model/HeapProg.v, request 902) on the same histories.
    (a) program model vs real heap: snapshots of every set after every op and the other property-level observations
        break the tie exactly as for the store model; effect-summary details (own-copy footprint, copy count, error
        exit) are counted;
    (b) program model vs store model (Iso.write): error exit, copy count, footprint (as a set), changed locations and
        the emitted tokens (span open / close, SAMI blank sync), open_span after the call and every snapshot must agree -
        two independently written models of the same code (the programs take nothing from Iso.write since the rendering
        state machines and the instance registers are part of them); a mismatch is a model bug and
        breaks the tie (it cannot be caused by a harmless rewrite of pycaption);
    (c) request 903: the ownership analysis accepts the eight writer programs and rejects the six variants that skip
        the copy / copy shallowly / assign before copying (the proof obligation, re-evaluated in the extracted code)."""
    from wire import oracle_batch
    dist = res["distribution"]
    batch = [C.model_ops(h, o, r["pristine"]) for h, o in zip(histories, r["results"])]
    progs = C.run_model(batch, 902)
    n_writes, by_writer, assigned, raised, emitting = 0, {}, 0, 0, 0
    tr_cmp = tr_eq = tr_len = tr_input = 0
    tr_ex = []
    details, mm = [], 0
    for hi, (h, o, mp, ms) in enumerate(zip(histories, r["results"], progs, r["models"])):
        for d in C.compare(h, o, mp, r["pristine"], "C09"):
            d = dict(d)
            d["what"] = "heap program: " + d["what"]
            if d.get("detail") in PROMOTED:
                # audit (wave 7): the writer-specific content of the programs is tied to the code at ALARM level
                d["what"] += " [effect summary: %s]" % d["detail"]
                d["detail"] = None
            (details if d.get("detail") else r["disagreements"]).append((hi, d))
        if mp is None or ms is None:
            continue
        for i, (op, (a, ta), (b, tb)) in enumerate(zip(h, ms, mp)):
            if ta != tb:
                mm += 1
                r["disagreements"].append((hi, {"i": i, "what": "heap program vs store model: snapshots after the op differ"}))
            if op["op"] != "write":
                continue
            n_writes += 1
            by_writer[op["kind"]] = by_writer.get(op["kind"], 0) + 1
            assigned += 1 if any(x[0] < 1000 for x in b["fp"]) else 0
            raised += 1 if b["err"] else 0
            emitting += 1 if b["tokens"] else 0
            if (op["kind"] == "sami" and not b["err"] and not (o[i].get("err") or 0) and "n_blank" in o[i]
                    and b["tokens"].count(3) != o[i]["n_blank"]):
                r["disagreements"].append((hi, {"i": i, "what": "heap program: SAMI blank syncs (&nbsp; paragraphs) in the output",
                                                "model": b["tokens"].count(3), "impl": o[i]["n_blank"]}))
            for key in ("err", "copies", "changed_below", "tokens", "open"):
                if a[key] != b[key]:
                    mm += 1
                    r["disagreements"].append((hi, {"i": i, "what": "heap program vs store model: %s" % key,
                                                    "model": a[key], "impl": b[key]}))
            # the ORDERED store trace of the program (attribute assignments to class instances that existed when the
            # last deepcopy returned) vs the attribute assignments the real write() performed on input / copy objects
            # (recorded through __setattr__ hooks in the worker); compared when both exit the same way
            mtrace = [[C.KIND_CLASS[x[0] - 1000], ATTRS.get((x[0] - 1000, x[1]), str(x[1]))] for x in reversed(b["fp"]) if x[0] >= 1000]
            rtrace = [[c_, a_] for c_, a_, _ in o[i].get("store_trace", [])]
            if (o[i].get("err") or 0) == b["err"] and "store_trace" in o[i] and len(rtrace) < 600:
                tr_cmp += 1
                tr_len += len(rtrace)
                if any(r_ == "input" for _, _, r_ in o[i]["store_trace"]):
                    tr_input += 1
                if mtrace == rtrace:
                    tr_eq += 1
                elif len(tr_ex) < 4:
                    tr_ex.append({"op": {k_: v_ for k_, v_ in op.items() if k_ in ("kind", "wopts", "kw")},
                                  "model": mtrace[:12], "impl": rtrace[:12], "lengths": [len(mtrace), len(rtrace)]})
            b = dict(b)
            b["fp"] = [x for x in b["fp"] if x[0] < 1000]
            if set(a["fp"]) != set(b["fp"]):
                mm += 1
                r["disagreements"].append((hi, {"i": i, "what": "heap program vs store model: footprint on the copy",
                                                "model": sorted(set(a["fp"])), "impl": sorted(set(b["fp"]))}))
    verdict = oracle_batch([(903, [])])[0]
    ok903 = (verdict != [-1] and all(verdict[0]) and len(verdict[0]) == 8 and not any(verdict[1]) and len(verdict[1]) == 6
             and all(verdict[2]) and len(verdict[2]) == 8 and not any(verdict[3]) and len(verdict[3]) == 5)
    if not ok903:
        r["disagreements"].append((0, {"i": 0, "what": "ownership analysis: writer programs accepted / variants rejected",
                                       "model": verdict}))
    counts = {}
    for (hi, d) in details:
        key = "%s:%s" % (d["detail"], histories[hi][d["i"]].get("kind"))
        counts[key] = counts.get(key, 0) + 1
    dist["heap_programs"] = {"writes_executed": n_writes, "by_writer": by_writer, "writes_that_assign_on_their_copy": assigned,
                             "writes_that_raise": raised, "mismatches_with_store_model": mm,
                             "ownership_and_assigned_before_read_analyses_8_accepted_11_variants_rejected": bool(ok903),
                             "writes_that_emit_tokens": emitting,
                             "ordered_store_trace_vs_real_setattr_trace": {"writes_compared": tr_cmp, "equal": tr_eq,
                                                                           "assignments_in_the_real_traces": tr_len,
                                                                           "real_traces_with_an_assignment_to_an_INPUT_object": tr_input,
                                                                           "mismatch_examples": tr_ex},
                             "detail_mismatches_with_code": counts,
                             "detail_examples": list({json.dumps([d["detail"], histories[hi][d["i"]].get("kind"),
                                                                  sorted(histories[hi][d["i"]].get("wopts") or {}), d.get("model"), d.get("impl")]):
                                                      {"what": d["what"], "model": d.get("model"), "impl": d.get("impl"),
                                                       "op": {k: v for k, v in histories[hi][d["i"]].items()
                                                              if k in ("kind", "wopts", "kw")}}
                                                      for (hi, d) in details if d["detail"] != "model-tree-vs-dag"}.values())[:8]}


def replay(ctx, rec):
    h = rec["history"]
    if rec.get("twin"):
        res = C.run_jobs([({"mode": "histories", "histories": [rec["twin"], h]}, 0)], ctx.repo)[0]
        verdict = C.evaluate_pairs([(rec["twin"], res[0], h, res[1])], 901)[0]
        return any(c == 2 for (_, c) in verdict), [(i, C.CLAUSES[c]) for (i, c) in verdict]
    ok, r = C.still_fails(h, ctx.repo, "C09", rec["clause"], rec.get("hashseed"))
    return ok, [(i, C.CLAUSES[c]) for (_, i, c, _) in r["violations"]]


def _unbalanced(lang="en-US"):
    return {"layout": None, "styles": None, "langs": [{"lang": lang, "layout": None, "caps": [
        {"start": 1000000, "end": 2000000, "style": None, "layout": None,
         "nodes": [["s", True, {"italics": True}, None], ["t", "open", None]]}]}]}


def _balanced(lang="en-US"):
    return {"layout": None, "styles": None, "langs": [{"lang": lang, "layout": None, "caps": [
        {"start": 1000000, "end": 2000000, "style": None, "layout": None,
         "nodes": [["s", True, {"italics": True}, None], ["t", "fine", None], ["s", False, {"italics": True}, None]]}]}]}


CORPUS = []
for _k in ("dfxp", "sami", "legacy", "single"):
    # defect 15: a style start without its end, then a balanced set on the same writer object vs a fresh one
    CORPUS.append([{"op": "build", "spec": _unbalanced()}, {"op": "build", "spec": _balanced()},
                   {"op": "write", "kind": _k, "wopts": {}, "kw": {}, "w": 0, "set": 1},
                   {"op": "write", "kind": _k, "wopts": {}, "kw": {}, "w": 0, "set": 0},
                   {"op": "write", "kind": _k, "wopts": {}, "kw": {}, "w": 0, "set": 1},
                   {"op": "write", "kind": _k, "wopts": {}, "kw": {}, "w": 1, "set": 1}])
