"""C03 - written text survives a conformant parser.

Streams
  A  caption sets (1-4 captions; 1-4 visible lines each over metacharacter-heavy text, random code points, U+00A0 /
     U+200B/E/F / U+FEFF / U+2028 as data; empty lines as consecutive breaks, empty text nodes and white-space-only text
     nodes; flat style spans anywhere, also inside a word; in one set of five style dictionaries carrying flags with the
     value False; for SRT, in ~30 % of the sets two consecutive captions with the same timing) x 7 writers.
       property oracle   : the document parsed by the observer the property names (lxml strict XML / html.parser /
                           the Coq WebVTT, SRT, MicroDVD reference grammars) must give one cue per caption (SRT: per run of
                           equally timed captions) with the authored lines - Coq ok_cues_strict (spec/SpecTextLines.v):
                           per line equal after trimming leading/trailing white space ONLY, empty lines dropped;
       correspondence    : the extracted writer model (coq/model/TextWrite.v) must produce LITERALLY the same <p> payload
                           (DFXP x3, SAMI) / the same document (WebVTT, SRT, MicroDVD); any difference is a disagreement.
  B  spec-parser validation: the Coq strict XML content parser against lxml on every payload and on mutated
     (mostly ill-formed) payloads - both must accept/reject together and build the same tree.
  C  single strings (every string of length <= 4/5 over 9 symbols, every pair over 23 symbols incl. quotes | { } digits,
     random lines), as one-line and as two-line captions, through all 7 public writers; judged exactly like stream A.
  E  shared objects and history: ONE CaptionSet object whose languages share their CaptionList / Caption / node objects
     (or one language), with >= 2 captions of equal (start, end), written by a merging writer first and then twice by all
     seven writers; every document of the history is judged like stream A (per language).
  F  (wave 7) WebVTT captions whose nodes fall into 1-4 layout groups (node-level layout_info changes inside the caption: the
     writer emits one cue per group): junction-formed metacharacter sequences ('-->' from 'up --' + '> down', '&amp;', '</i>',
     timing-line and header look-alikes ...) at a text-node boundary (nothing or a style node between the two text nodes) in
     the first / middle / last group (deterministic grid) + random captions; the Coq cue grammar must see one cue per group
     with the lines of that group's nodes (ok_cues_strict); the document must equal the model's (model/TextWriteVtt.v, 305).
  G  (wave 7) style dictionaries with a colour (quotes of both kinds, & < >, tab / LF / CR, entity look-alikes) through the
     three DFXP writers: judged like A, payloads also through B (attribute values: Coq strict parser = lxml).
  H  (round 3) ONE writer object (DFXP x3, SAMI) whose first write() RAISED while a style span was open (a bytes text node inside
     an italic span; a pixel-positioned caption after a styled caption without video size), then writes a valid styled set:
     judged exactly like a fresh writer's document (and literally against the model).  Also consecutive captions with equal
     (start, end) whose EARLIER caption ends with a style-end node, through the merging writers (legacy / single DFXP, SRT).
Known findings are recognised by the FAILURE (the observed lines equal the authored ones with a blank after every SAMI
text node / with U+00A0 for every empty WebVTT text node), never by the shape of the input.
"""
import itertools
import re

import impl
import gens_text as G
from wire import Ok, Err, oracle_batch, Some  # noqa: F401
from pycaption import DFXPWriter, SAMIWriter, WebVTTWriter, SRTWriter, MicroDVDWriter
from pycaption.dfxp.extras import LegacyDFXPWriter, SinglePositioningDFXPWriter

WRITERS = [
    ("DFXP", DFXPWriter, "xml", (0, "")),
    ("DFXP-legacy", LegacyDFXPWriter, "xml", (1, "")),
    ("DFXP-single", SinglePositioningDFXPWriter, "xml", (0, ' region="bottom"')),
    ("SAMI", SAMIWriter, "html", (2, "")),
    ("WebVTT", WebVTTWriter, "vtt", 302),
    ("SRT", SRTWriter, "srt", 303),
    ("MicroDVD", MicroDVDWriter, "mdvd", 304),
]
METACHARS = set("&<>\"'|{}\\/;#-")


def nontrivial_line(l):
    return any(c in METACHARS for c in l)


def excluded(spec, fmt):
    """domain restrictions, counted in the distribution"""
    if fmt == "MicroDVD":
        if any(n[0] == "t" and "|" in n[1] for n in spec):
            return "mdvd_pipe_in_text"
    return None


def observe(kind, doc):
    """-> ('py', cues) or ('coq', request)"""
    if kind == "xml":
        return ("py", G.dfxp_cues(doc))
    if kind == "html":
        return ("py", G.sami_cues(doc))
    if kind == "vtt":
        return ("coq", (311, doc))
    if kind == "srt":
        return ("coq", (312, doc))
    return ("coq", (313, doc))


def run_sets(ctx, res, nsets):
    rng = ctx.rng
    cases = []
    for k in range(nsets):
        ncap = rng.randint(1, 4)
        adv = rng.choice([0.2, 0.5, 0.8])
        G.FALSE_KEYS[0] = rng.random() < 0.2
        base = [G.rand_caption_nodes(rng, adversarial=adv, styles=rng.choice([0.0, 0.3, 0.6]), intra=0.15) for _ in range(ncap)]
        for (fmt, W, kind, mreq) in WRITERS:
            specs = []
            for s in base:
                why = excluded(s, fmt)
                if why:
                    res["distribution"][why] = res["distribution"].get(why, 0) + 1
                else:
                    specs.append(s)
            if not specs:
                continue
            spans = [G.times(i) for i in range(len(specs))]
            if fmt == "SRT" and len(specs) > 1 and rng.random() < 0.3:
                # consecutive captions with the same (start, end): the SRT writer may merge them (one cue, lines in order)
                j = rng.randint(1, len(specs) - 1)
                spans[j] = spans[j - 1]
                res["distribution"]["srt_equal_timestamps"] = res["distribution"].get("srt_equal_timestamps", 0) + 1
            cs = G.capset(specs, spans=spans)
            out = impl.call(lambda: W().write(cs))
            cases.append((fmt, kind, mreq, specs, out, spans))
        G.FALSE_KEYS[0] = False
    return process_cases(ctx, res, cases)


MERGING = ("SRT", "DFXP-legacy", "DFXP-single")      # writers that merge consecutive captions with equal (start, end)


def merge_equal(specs, spans):
    """what 'one cue per caption' means for SRT when consecutive captions share (start, end): they may be one cue"""
    out, osp = [], []
    for s, sp in zip(specs, spans):
        if osp and osp[-1] == sp:
            out[-1] = out[-1] + [("b",)] + list(s)
        else:
            out.append(list(s))
            osp.append(sp)
    return out, osp


def process_cases(ctx, res, cases):
    """per case: observe the written document with the reference parser, judge every caption with the Coq oracle
    ok_cues_strict (trim only), compare the output literally with the model's"""
    records = []
    reqs = []
    for case in cases:
        fmt, kind, mreq, specs, out = case[:5]
        spans = case[5] if len(case) > 5 else [G.times(i) for i in range(len(specs))]
        exp_specs = specs
        if fmt in MERGING:
            exp_specs, _ = merge_equal(specs, spans)
        # a set with the same captions under several languages: DFXP / MicroDVD write language after language,
        # SAMI writes the languages of one sync point side by side (stream E)
        how = case[6] if len(case) > 6 else None
        if how == "concat":
            exp_specs = list(exp_specs) + list(exp_specs)
        elif how == "interleave":
            exp_specs = [x for e in exp_specs for x in (e, e)]
        rec = {"fmt": fmt, "kind": kind, "specs": specs, "exp_specs": exp_specs, "spans": spans, "out": out,
               "observed": None, "model": [], "obs_error": None, "how": how, "hist": case[7] if len(case) > 7 else None}
        records.append(rec)
        for s in exp_specs:
            reqs.append((321, G.wire_nodes(s)))
    authored_all = oracle_batch(reqs)
    pos = 0
    obs_reqs, obs_slots, model_reqs, model_slots = [], [], [], []
    for rec in records:
        n = len(rec["exp_specs"])
        rec["authored"] = authored_all[pos:pos + n]
        pos += n
        if not isinstance(rec["out"], Ok):
            continue
        doc = rec["out"].v
        try:
            how, val = observe(rec["kind"], doc)
        except Exception as e:  # the strict parser refused the document
            rec["obs_error"] = repr(e)[:300]
            how, val = "py", None
        if how == "py":
            rec["observed"] = val
        else:
            obs_slots.append(rec)
            obs_reqs.append(val)
        mreq = next(w[3] for w in WRITERS if w[0] == rec["fmt"])
        if isinstance(mreq, tuple):
            for s in rec["exp_specs"]:            # legacy / single-positioning DFXP write the merged captions
                model_reqs.append((301, [mreq[0], mreq[1], G.wire_nodes(s)]))
                model_slots.append(rec)
        else:
            caps = []
            twice = 2 if rec["how"] == "concat" else 1
            for s, (st, en) in list(zip(rec["specs"], rec["spans"])) * twice:
                tl = {302: G.vtt_timing, 303: G.srt_timing, 304: G.mdvd_prefix}[mreq](st, en)
                caps.append([tl, G.wire_nodes(s)])
            model_reqs.append((mreq, caps))
            model_slots.append(rec)
    for rec, r in zip(obs_slots, oracle_batch(obs_reqs)):
        rec["observed"] = None if r == [] else r[0]
        if r == []:
            rec["obs_error"] = "reference grammar rejects the document"
    for rec, r in zip(model_slots, oracle_batch(model_reqs)):
        rec["model"].append(r)
    # the property oracle, caption by caption
    ok_reqs, ok_slots = [], []
    for rec in records:
        if rec["observed"] is not None and len(rec["observed"]) == len(rec["authored"]):
            for i, (a, o) in enumerate(zip(rec["authored"], rec["observed"])):
                ok_reqs.append((323, [[a], [o]]))
                ok_slots.append((rec, i))
    oks = {}
    for (rec, i), r in zip(ok_slots, oracle_batch(ok_reqs)):
        oks.setdefault(id(rec), {})[i] = r
    viols = []
    for rec in records:
        fmt = rec["fmt"]
        res["evaluations"] += len(rec["exp_specs"])
        res["distribution"]["docs_" + fmt] = res["distribution"].get("docs_" + fmt, 0) + 1
        res["distribution"]["captions"] = res["distribution"].get("captions", 0) + len(rec["exp_specs"])
        for s, a in zip(rec["exp_specs"], rec["authored"]):
            if any(nontrivial_line(l) for l in a) or len(a) > 1:
                res["nontrivial"].add((fmt, tuple(a), tuple(n[0] for n in s)))
        out = rec["out"]
        if not isinstance(out, Ok) or rec["observed"] is None or len(rec["observed"]) != len(rec["authored"]):
            viols.append(classify(rec, None))
        else:
            for i, r in sorted(oks.get(id(rec), {}).items()):
                if r != 1:
                    viols.append(classify(rec, i))
        # literal correspondence with the model: any difference is a broken tie (a `disagreement`), whatever it is
        if isinstance(out, Ok):
            doc = out.v
            if rec["kind"] in ("xml", "html"):
                pl = [p.strip() for p in G.p_payloads(doc)]
                if rec["kind"] == "html":
                    pl = [p for p in pl if p != "&nbsp;"]
                model = [m.strip() for m in rec["model"]]
                rec["payloads"] = pl
                exact = (pl == model)
                mshow, ishow = model, pl
            else:
                exact = (rec["model"][0] == doc)
                mshow, ishow = rec["model"][0], doc
            key = "model_exact_equal" if exact else "model_exact_differs"
            res["distribution"][key] = res["distribution"].get(key, 0) + 1
            if not exact and len(res["disagreements"]) < 50:
                res["disagreements"].append({"fmt": fmt, "what": "writer output differs literally from the model's",
                                             "nodes": rec["specs"], "impl": ishow, "model": mshow})
    # SAMI known finding: failure-keyed classification (the observed line IS the authored one with a blank after
    # every text node); everything else keeps its own kind
    cand = [v for v in viols if v["kind"] == "cue-text" and v["fmt"] == "SAMI"]
    if cand:
        rs = oracle_batch([(320, [[G.py_lines_sp(v["input"][0])], [v["observed"]]]) for v in cand])
        for v, r in zip(cand, rs):
            if r == 1:
                v["kind"] = "blank-inserted-at-node-boundary"
                v["what"] = "SAMI: a blank is written after every text node / </span>: " + v["what"]
    # WebVTT known finding, failure-keyed: the observed lines ARE the authored ones with U+00A0 for every empty text node
    cand = [v for v in viols if v["kind"] == "cue-text" and v["fmt"] == "WebVTT"
            and any(n[0] == "t" and n[1] == "" for n in v["input"][0])]
    if cand:
        alt = oracle_batch([(321, G.wire_nodes([("t", "\u00a0") if (n[0] == "t" and n[1] == "") else n for n in v["input"][0]]))
                            for v in cand])
        rs = oracle_batch([(323, [[a], [v["observed"]]]) for a, v in zip(alt, cand)])
        for v, r in zip(cand, rs):
            if r == 1:
                v["kind"] = "nbsp-for-empty-text-node"
                v["what"] = "WebVTT: &nbsp; written for an empty text node inside a line: " + v["what"]
    shrunk = set()
    for v in viols:
        key = (v["kind"], v["fmt"])
        if v.get("hist"):
            v["replay"] = "history"
            v["all_specs"], v["all_spans"] = v.pop("_all_specs", None), v.pop("_all_spans", None)
            res["violations"].append(v)
            continue
        if key not in shrunk and len(shrunk) < 6 and v["kind"] not in ("blank-inserted-at-node-boundary", "nbsp-for-empty-text-node"):
            shrunk.add(key)
            v = shrink(ctx, v)
        res["violations"].append(v)
    return records


def classify(rec, i):
    """i = index of the failing caption, or None for a document-level failure"""
    fmt = rec["fmt"]
    out = rec["out"]
    base = {"fmt": fmt, "replay": "write", "shape": "caption", "document": out.v if isinstance(out, Ok) else None}
    if rec.get("hist"):
        base["hist"] = rec["hist"]
        base["_all_specs"], base["_all_spans"] = rec["specs"], rec["spans"]
        base["shape"] = "shared-objects-and-history"
    if not isinstance(out, Ok):
        return dict(base, kind="writer-raises", what=f"{fmt} writer raised {impl.ERR_NAMES.get(out.code, out.code)}",
                    input=rec["specs"], spans=rec["spans"])
    if rec["observed"] is None:
        return dict(base, kind="unparseable-output", input=rec["specs"], spans=rec["spans"],
                    what=f"{fmt} output rejected by the reference parser: {rec['obs_error']}")
    if i is None:
        return dict(base, kind="cue-count", input=rec["specs"], spans=rec["spans"], authored=rec["authored"], observed=rec["observed"],
                    what=f"{fmt}: {len(rec['authored'])} captions written, reference parser sees {len(rec['observed'])} cues")
    return dict(base, kind="cue-text", input=[rec["exp_specs"][i]], spans=None, authored=rec["authored"][i], observed=rec["observed"][i],
                what=f"{fmt}: cue lines {rec['observed'][i]!r} are not the authored lines {rec['authored'][i]!r}")


def check_one(fmt, specs, spans=None):
    """True when the property holds for this writer and these captions (strict oracle)"""
    W, kind = next((w[1], w[2]) for w in WRITERS if w[0] == fmt)
    spans = spans or [G.times(i) for i in range(len(specs))]
    exp = merge_equal(specs, spans)[0] if fmt == "SRT" else specs
    authored = oracle_batch([(321, G.wire_nodes(s)) for s in exp])
    out = impl.call(lambda: W().write(G.capset(specs, spans=spans)))
    if not isinstance(out, Ok):
        return False, ("raise", out.code)
    try:
        how, val = observe(kind, out.v)
    except Exception as e:
        return False, ("unparseable", repr(e)[:200])
    if how == "coq":
        r = oracle_batch([val])[0]
        if r == []:
            return False, ("unparseable", "reference grammar")
        val = r[0]
    ok = oracle_batch([(323, [authored, val])])[0]
    return ok == 1, {"authored": authored, "observed": val, "document": out.v}


def shrink(ctx, v):
    """greedy: fewer captions, fewer nodes, shorter texts, while the violation persists"""
    fmt, specs = v["fmt"], [[tuple(n) for n in s] for s in v["input"]]
    if v.get("spans"):
        return v
    budget = [60]

    def bad(sp):
        if budget[0] <= 0 or not sp or any(not s for s in sp):
            return False
        budget[0] -= 1
        try:
            vis = oracle_batch([(322, l) for l in oracle_batch([(321, G.wire_nodes(s)) for s in sp])])
            if not all(x == 1 for x in vis):
                return False
            return not check_one(fmt, sp)[0]
        except Exception:
            return False
    if not bad(specs):
        return v
    changed = True
    while changed and budget[0] > 0:
        changed = False
        for i in range(len(specs)):
            cand = specs[:i] + specs[i + 1:]
            if bad(cand):
                specs, changed = cand, True
                break
        if changed:
            continue
        for i, s in enumerate(specs):
            for j in range(len(s)):
                cand = specs[:i] + [s[:j] + s[j + 1:]] + specs[i + 1:]
                if bad(cand):
                    specs, changed = cand, True
                    break
                if s[j][0] == "t" and len(s[j][1]) > 1:
                    for t2 in (s[j][1][:len(s[j][1]) // 2], s[j][1][len(s[j][1]) // 2:], s[j][1][1:], s[j][1][:-1]):
                        cand = specs[:i] + [s[:j] + [("t", t2)] + s[j + 1:]] + specs[i + 1:]
                        if bad(cand):
                            specs, changed = cand, True
                            break
                    if changed:
                        break
            if changed:
                break
    okv, detail = check_one(fmt, specs)
    if not okv:
        v = dict(v)
        v["input"] = specs
        if isinstance(detail, dict):
            v.update(detail)
        v["what"] = v["what"] + " (shrunk)"
    return v


# ---- stream B: the Coq XML content parser against lxml --------------------------------------------------
XMLNS = ('<p xmlns="http://www.w3.org/ns/ttml" xmlns:tts="http://www.w3.org/ns/ttml#styling" '
         'xmlns:ttm="http://www.w3.org/ns/ttml#metadata">')
NSMAP = {"http://www.w3.org/ns/ttml": "", "http://www.w3.org/ns/ttml#styling": "tts:",
         "http://www.w3.org/ns/ttml#metadata": "ttm:", "http://www.w3.org/XML/1998/namespace": "xml:"}


def _qn(tag):
    m = re.match(r"\{([^}]*)\}(.*)", tag)
    if not m:
        return tag
    return NSMAP.get(m.group(1), "{" + m.group(1) + "}") + m.group(2)


def lxml_tree(payload):
    from lxml import etree
    try:
        root = etree.fromstring((XMLNS + payload + "</p>").encode("utf-8"),
                                etree.XMLParser(recover=False, resolve_entities=False))
    except Exception:
        return None

    def kids(e):
        out = []
        if e.text:
            out.append([0, e.text])
        for ch in e:
            if not isinstance(ch.tag, str):
                return None
            k = kids(ch)
            out.append([1, _qn(ch.tag), sorted([_qn(a), v] for a, v in ch.attrib.items()), k])
            if ch.tail:
                out.append([0, ch.tail])
        return out
    return kids(root)


def norm_tree(t):
    out = []
    for x in t:
        if x[0] == 0:
            out.append([0, x[1]])
        else:
            out.append([1, x[1], sorted([a, v] for a, v in x[2]), norm_tree(x[3])])
    return out


MUT_ATOMS = ["<", ">", "&", "\"", "'", "/", "<br/>", "</span>", "<span>", "<span a=\"1\">", "&amp;", "&#60;", "&#x3C;",
             "&#0;", "&#xD800;", "&bogus;", "&amp", "]]>", "<br>", "</br>", " ", "=", "<a b='c' b='d'>", "<a b=\"<\">",
             "<a b='&lt;'/>", "\r\n", "\r", "\x0b", "￾", "<1a/>", "<a:b c:d=\"e\"/>", "<a  b = 'c'  />", "<a b='1'c='2'/>"]


def run_xml_validation(ctx, res, payloads, n_mut):
    rng = ctx.rng
    inputs = list(dict.fromkeys(payloads))
    base = inputs[:] or ["a"]
    for _ in range(n_mut):
        p = rng.choice(base)
        for _ in range(rng.randint(1, 2)):
            r = rng.random()
            i = rng.randint(0, len(p))
            if r < 0.4 and p:
                j = min(len(p), i + rng.randint(1, 3))
                p = p[:i] + p[j:]
            elif r < 0.9:
                p = p[:i] + rng.choice(MUT_ATOMS) + p[i:]
            else:
                p = p[:i] + p[i:][::-1][:3] + p[i:]
        inputs.append(p)
    skipped = 0
    todo = []
    for p in inputs:
        tags = "".join(re.findall(r"<[^<>]*>", p))
        if "<!" in p or "<?" in p or any(ord(c) > 127 for c in tags):
            skipped += 1
            continue
        todo.append(p)
    res["distribution"]["B_xml_inputs"] = len(todo)
    res["distribution"]["B_skipped_comment_pi_nonascii_tag"] = skipped
    outs = oracle_batch([(310, p) for p in todo])
    acc = rej = 0
    for p, o in zip(todo, outs):
        res["evaluations"] += 1
        lx = lxml_tree(p)
        coq = None if o == [] else norm_tree(o[0])
        if lx is None:
            rej += 1
        else:
            acc += 1
        if (lx is None) != (coq is None) or (lx is not None and lx != coq):
            res["disagreements"].append({"what": "Coq content_parse differs from lxml (spec parser validation)",
                                         "payload": p, "lxml": lx, "coq": coq})
    res["distribution"]["B_accepted"] = acc
    res["distribution"]["B_rejected"] = rej


# ---- stream C: single strings, through the public API ----------------------------------------------------
def run_strings(ctx, res, maxlen, nrand):
    """every visible string of length <= maxlen over the metacharacters + random lines, each as a one-line caption
    (and, for a sample, as the second line of a two-line caption), 40 captions per set, through every writer"""
    syms = ["&", "<", ">", "-", "a", ";", "]", "#", " ", '"', "'", "|", "{", "}", "1"]
    strings = []
    for L in range(1, maxlen + 1):
        strings.extend("".join(t) for t in itertools.product(syms, repeat=L))
    strings = [s for s in strings if s.strip()]
    if len(strings) > ctx.n(9000, 200000):
        strings = ctx.rng.sample(strings, ctx.n(9000, 200000))
    for _ in range(nrand):
        strings.append(G.rand_line(ctx.rng, adversarial=0.8))
    res["distribution"]["C_strings"] = len(strings)
    cases = []
    for k in range(0, len(strings), 40):
        chunk = strings[k:k + 40]
        two = (k // 40) % 4 == 0
        for (fmt, W, kind, mreq) in WRITERS:
            if fmt in ("DFXP-legacy", "DFXP-single") and (k // 40) % 5:
                continue
            specs = [[("t", "x" + s), ("b",), ("t", s)] if two else [("t", s)] for s in chunk]
            specs = [sp for sp in specs if not excluded(sp, fmt)]
            if not specs:
                continue
            cs = G.capset(specs)
            out = impl.call(lambda: W().write(cs))
            cases.append((fmt, kind, mreq, specs, out))
    process_cases(ctx, res, cases)


# ---- stream E: shared objects inside one set, and the history of one set object --------------------------------------
def history_cases(specs, spans, mode, order):
    """ONE CaptionSet object - mode 'alias-list': the same CaptionList under two languages, 'alias-captions': two lists of
    the same Caption objects, 'alias-nodes': two caption lists whose captions share their node objects, 'plain': one
    language - written by the writers named in `order`, one after the other.  Every document is a case of its own."""
    from pycaption import CaptionSet, CaptionList, Caption
    caps = [Caption(s, e, G.build_nodes(sp)) for (s, e), sp in zip(spans, specs)]
    if mode == "alias-list":
        cl = CaptionList(caps)
        cs = CaptionSet({"en-US": cl, "fr": cl})
    elif mode == "alias-captions":
        cs = CaptionSet({"en-US": CaptionList(caps), "fr": CaptionList(list(caps))})
    elif mode == "alias-nodes":
        cs = CaptionSet({"en-US": CaptionList(caps), "fr": CaptionList([Caption(c.start, c.end, list(c.nodes)) for c in caps])})
    else:
        cs = CaptionSet({"en-US": CaptionList(caps)})
    two = mode != "plain"
    cases = []
    for step, fmt in enumerate(order):
        W, kind, mreq = next((w[1], w[2], w[3]) for w in WRITERS if w[0] == fmt)
        out = impl.call(lambda: W().write(cs))
        hist = {"mode": mode, "order": list(order), "step": step}
        if not two or fmt == "WebVTT":                       # WebVTT writes the first language only
            cases.append((fmt, kind, mreq, specs, out, spans, None, hist))
        elif fmt == "SRT":
            # the languages are joined by a 'MULTI-LANGUAGE SRT' line: every part is an SRT document of its own
            parts = out.v.split("MULTI-LANGUAGE SRT\n") if isinstance(out, Ok) else [None, None]
            if len(parts) != 2:
                cases.append((fmt, kind, mreq, specs, out, spans, "concat", hist))     # reported as cue-count / unparseable
            else:
                for part in parts:
                    cases.append((fmt, kind, mreq, specs, Ok(part) if part is not None else out, spans, None, hist))
        else:
            cases.append((fmt, kind, mreq, specs, out, spans, "interleave" if fmt == "SAMI" else "concat", hist))
    return cases


def run_histories(ctx, res, n):
    rng = ctx.rng
    names = [w[0] for w in WRITERS]
    cases = []
    for k in range(n):
        ncap = rng.randint(2, 4)
        specs = [G.rand_caption_nodes(rng, adversarial=rng.choice([0.5, 0.8]), styles=rng.choice([0.0, 0.3]), intra=0.1)
                 for _ in range(ncap)]
        if rng.random() < 0.5:
            specs[0] = [("t", rng.choice(["Tom & Jerry", "a<b & c>d", "R&D <3", "&amp; &lt;"]))] + ([("b",)] + specs[0] if rng.random() < 0.5 else [])
        specs = [sp for sp in specs if not excluded(sp, "MicroDVD")] or [[("t", "Tom & Jerry")], [("t", "x")]]
        spans = [G.times(i) for i in range(len(specs))]
        mode = rng.choice(["alias-list", "alias-captions", "alias-nodes", "plain", "plain"])
        if len(specs) > 1 and (mode == "plain" or rng.random() < 0.3):
            j = rng.randint(1, len(specs) - 1)
            spans[j] = spans[j - 1]                         # >= 2 captions with equal (start, end)
        if mode != "plain" and len(set(spans)) < len(spans):
            # SAMI puts the second language of equally timed captions into the FIRST sync of that time: no fixed order
            order_names = [x for x in names if x != "SAMI"]
            key = "E_sami_skipped_equal_times_two_languages"
            res["distribution"][key] = res["distribution"].get(key, 0) + 1
        else:
            order_names = list(names)
        first = rng.choice(["DFXP-legacy", "DFXP-single", "SRT"])
        order = [first] + rng.sample(order_names, len(order_names)) + rng.sample(order_names, len(order_names))
        res["distribution"]["E_histories_" + mode] = res["distribution"].get("E_histories_" + mode, 0) + 1
        cases += history_cases(specs, spans, mode, order)
    res["distribution"]["E_documents"] = len(cases)
    process_cases(ctx, res, cases)



# ---- stream G (wave 7): style dictionaries with a colour - attribute values through quoteattr, three DFXP writers ----------
COLOR_SYMS = ['"', "'", "<", "&", ">", "\t", "\n", "\r", " ", ";", "a", "\u00e9", "]", "#", "=", "/", "&amp;", "&quot;", "&#10;"]


def run_colors(ctx, res, n):
    """captions [span(colour) text /span] and spans inside a line; the colour is any string over quotes of both kinds, markup
    characters, tab / LF / CR, entity look-alikes.  Judged like stream A (text lines through lxml strict + literal model tie);
    the payloads go through stream B as well (Coq strict parser = lxml, attribute values included), so the theorems
    C03_quoteattr_roundtrip / C03_dfxp_payload_parse_color are tied to the real writers on exactly these values."""
    rng = ctx.rng
    cases = []
    for k in range(n):
        specs = []
        for _ in range(rng.randint(1, 3)):
            col = "".join(rng.choice(COLOR_SYMS) for _ in range(rng.randint(0, 6)))
            if k % 4 == 0:                      # audit w7: every 4th colour holds both quote kinds (the &quot; branch of quoteattr)
                col = col[:2] + '"' + col[2:4] + "'" + col[4:]
            st = (rng.random() < 0.5, rng.random() < 0.2, False, col)
            line = G.rand_line(rng, adversarial=0.6)
            sp = [("s", True) + st, ("t", line), ("s", False) + st]
            if rng.random() < 0.4:
                sp = [("t", "pre ")] + sp + [("b",), ("t", G.rand_line(rng, adversarial=0.6))]
            specs.append(sp)
            res["distribution"]["G_colour_values"] = res["distribution"].get("G_colour_values", 0) + 1
            if '"' in col and "'" in col:
                res["distribution"]["G_colour_both_quotes"] = res["distribution"].get("G_colour_both_quotes", 0) + 1
            if any(c in col for c in "\t\n\r"):
                res["distribution"]["G_colour_tab_lf_cr"] = res["distribution"].get("G_colour_tab_lf_cr", 0) + 1
        for (fmt, W, kind, mreq) in WRITERS[:3]:
            cs = G.capset(specs)
            out = impl.call(lambda: W().write(cs))
            cases.append((fmt, kind, mreq, specs, out))
    return process_cases(ctx, res, cases)


# ---- stream H (wave 7, round 3): writer OBJECTS with a past, and merged captions whose first ends with a style-end node ----
def poisoned_first_write(w, mode):
    """make the writer object `w` raise in the middle of a write(), while a style span is open; -> name of the exception"""
    from pycaption.geometry import Layout, Point, Size, UnitEnum
    it = ("s", True, True, False, False, None)
    if mode == "bytes":          # an unwritable text node (bytes) inside an italic span
        cs = G.capset([[it, ("t", "x"), ("t", "y"), ("s", False) + it[2:]], [("t", "z")]])
        cs.get_captions("en-US")[0].nodes[2].content = b"bytes"
    else:                        # a pixel-positioned caption after a styled caption, no video size: RelativizationError
        cs = G.capset([[it, ("t", "x")], [("t", "y")]])
        cap = cs.get_captions("en-US")[1]
        lay = Layout(origin=Point(Size(10, UnitEnum.PIXEL), Size(10, UnitEnum.PIXEL)))
        cap.layout_info = lay
        for n in cap.nodes:
            n.layout_info = lay
    r = impl.call(lambda: w.write(cs))
    return None if isinstance(r, Ok) else impl.ERR_NAMES.get(r.code, str(r.code))


def used_writer_cases(specs, mode, names):
    cases, raised = [], {}
    for (fmt, W, kind, mreq) in WRITERS:
        if fmt not in names:
            continue
        w = W()
        raised[fmt] = poisoned_first_write(w, mode)
        cs = G.capset(specs)
        out = impl.call(lambda: w.write(cs))
        cases.append((fmt, kind, mreq, specs, out))
    return cases, raised


def run_used_writers(ctx, res, n):
    rng = ctx.rng
    d = res["distribution"]
    names = ("DFXP", "DFXP-legacy", "DFXP-single", "SAMI")
    for mode in ("bytes", "pixels-no-video-size"):
        cases, meta = [], []
        for _ in range(n):
            specs = [G.rand_caption_nodes(rng, adversarial=0.5, styles=0.9, intra=0.1) for _ in range(rng.randint(1, 3))]
            specs[0] = [("s", True, True, False, False, None), ("t", rng.choice(["a & b", "x<y", "it"])), ("s", False, True, False, False, None),
                        ("b",)] + specs[0]
            cs_, raised = used_writer_cases(specs, mode, names)
            for fmt, exc in raised.items():
                key = "H_%s_first_write_%s" % (mode, ("raised_" + exc) if exc else "did_not_raise")
                d[key] = d.get(key, 0) + 1
            cases += cs_
        before = len(res["violations"])
        process_cases(ctx, res, cases)
        for v in res["violations"][before:]:
            if v.get("replay") == "write":
                v["replay"], v["shape"], v["poison"] = "used-writer", "writer-reused-after-raise", mode
    # consecutive captions with equal (start, end), the EARLIER one ending with a style-end node (merging DFXP writers)
    cases = []
    for _ in range(n):
        first = G.rand_caption_nodes(rng, adversarial=0.4, styles=0.0, max_lines=2)
        st = rng.choice([(True, False, False, None), (True, True, False, None), (False, False, False, "red")])
        first = first[:-1] + [("s", True) + st, first[-1], ("s", False) + st] if first[-1][0] == "t" else \
            first + [("s", True) + st, ("t", "end"), ("s", False) + st]
        second = G.rand_caption_nodes(rng, adversarial=0.4, styles=rng.choice([0.0, 0.5]), max_lines=2)
        specs = [first, second] + ([G.rand_caption_nodes(rng, styles=0.3)] if rng.random() < 0.4 else [])
        spans = [G.times(0), G.times(0)] + ([G.times(0) if rng.random() < 0.5 else G.times(1)] if len(specs) > 2 else [])
        for (fmt, W, kind, mreq) in WRITERS:
            if fmt in ("DFXP-legacy", "DFXP-single", "SRT"):
                cs = G.capset(specs, spans=spans)
                out = impl.call(lambda: W().write(cs))
                cases.append((fmt, kind, mreq, specs, out, spans))
                d["H_merged_first_ends_with_style_end"] = d.get("H_merged_first_ends_with_style_end", 0) + 1
    process_cases(ctx, res, cases)


# ---- stream F (wave 7): WebVTT captions written as several cues (layout groups), junction-formed metacharacter sequences --
JUNCTIONS = [("up --", "> down"), ("x -", "-> y"), ("a --", ">"), ("-", "->"), ("--", ">"), ("a -", "-", "> c"), ("-", "-", ">"),
             ("a &", "amp; b"), ("&", "lt;"), ("&", "gt;"), ("a &am", "p;"), ("&#", "60;"), ("&#x3", "C;"), ("&n", "bsp;"),
             ("a <", "/i> b"), ("<", "i>"), ("</", "i>"), ("<", "b"), ("00:00:01.000 --", "> 00:00:02.000"), ("WEB", "VTT"),
             ("NO", "TE x"), ("-->", "-->"), ("--", "->"), ("->", "-->x")]
GROUP_SETTINGS = ["", " line:10%", " position:20% align:start", " line:80% size:50%", " align:end"]


def _group_layouts():
    from pycaption.geometry import Layout, Point, Size, UnitEnum
    out = [None]
    for k in range(1, len(GROUP_SETTINGS)):
        out.append(Layout(origin=Point(Size(10 * k, UnitEnum.PERCENT), Size(5 * k, UnitEnum.PERCENT)),
                          webvtt_positioning=GROUP_SETTINGS[k].strip()))
    return out


def rand_group(rng, lid, junction):
    """nodes of one layout group, every node tagged with its layout id (a break: the group's or none).
    junction = tuple of texts that are ADJACENT text nodes (nothing or a style node between them), or None"""
    nodes = []
    blid = lambda: lid if rng.random() < 0.7 else 0        # noqa: E731
    if rng.random() < 0.4:
        nodes += [(lid, ("t", G.rand_line(rng, adversarial=0.8) or "x")), (blid(), ("b",))]
    if junction is None:
        nodes.append((lid, ("t", (G.rand_line(rng, adversarial=0.8).strip() or "x"))))
    else:
        between = rng.choice(["none", "none", "style-open", "style-close", "style-plain"])
        sty = ("s", True, True, False, False, None) if rng.random() < 0.6 else ("s", True, False, True, True, None)
        end = ("s", False) + sty[2:]
        if between == "style-close":
            nodes.append((lid, sty))
        for k, t in enumerate(junction):
            if k:
                if between == "style-open" and k == 1:
                    nodes.append((lid, sty))
                elif between == "style-close" and k == 1:
                    nodes.append((lid, end))
                elif between == "style-plain" and k == 1:
                    nodes.append((lid, ("s", True, False, False, False, "red")))
            nodes.append((lid, ("t", t)))
        if between == "style-open":
            nodes.append((lid, end))
        elif between == "style-plain":
            nodes.append((lid, ("s", False, False, False, False, "red")))
    if rng.random() < 0.4:
        nodes += [(blid(), ("b",)), (lid, ("t", G.rand_line(rng, adversarial=0.8).strip() or "y"))]
    elif rng.random() < 0.2:
        nodes += [(blid(), ("b",))]
    return nodes


def groups_doc(lcaps):
    """write captions given as lists of groups (each a list of (layout id, node)) with the real WebVTTWriter"""
    from pycaption import CaptionSet, CaptionList, Caption
    lay = _group_layouts()
    caps = []
    for i, groups in enumerate(lcaps):
        flat = [ln for g in groups for ln in g]
        nodes = G.build_nodes([n for _, n in flat])
        for node, (lid, _) in zip(nodes, flat):
            node.layout_info = lay[lid]
        st, en = G.times(i)
        caps.append(Caption(st, en, nodes))
    cs = CaptionSet({"en-US": CaptionList(caps)})
    return impl.call(lambda: WebVTTWriter().write(cs))


def judge_groups(lcaps, out):
    """-> (violation dict or None, model document or None): one cue per layout group with the lines of its nodes"""
    base = {"fmt": "WebVTT", "replay": "vtt-layout-groups", "shape": "layout-groups", "input": lcaps,
            "document": out.v if isinstance(out, Ok) else None}
    exp_nodes = [[n for _, n in g] for groups in lcaps for g in groups]
    authored = oracle_batch([(321, G.wire_nodes(s)) for s in exp_nodes])
    caps = [[G.vtt_timing(*G.times(i)), [[lid, G.wire_nodes([n])[0]] for g in groups for lid, n in g]] for i, groups in enumerate(lcaps)]
    model = oracle_batch([(305, [list(GROUP_SETTINGS), caps])])[0]
    if not isinstance(out, Ok):
        return dict(base, kind="writer-raises", what="WebVTT writer raised on a caption with several layout groups"), model
    r = oracle_batch([(311, out.v)])[0]
    if r == []:
        return dict(base, kind="unparseable-output", what="WebVTT output rejected by the reference grammar"), model
    observed = r[0]
    if len(observed) != len(authored):
        return dict(base, kind="cue-count", authored=authored, observed=observed,
                    what=f"WebVTT: {len(authored)} layout groups written, reference parser sees {len(observed)} cues"), model
    oks = oracle_batch([(323, [[a], [o]]) for a, o in zip(authored, observed)])
    for i, ok in enumerate(oks):
        if ok != 1:
            return dict(base, kind="cue-text", authored=authored[i], observed=observed[i], group=i,
                        what=f"WebVTT: the cue of layout group {i} reads {observed[i]!r}, authored {authored[i]!r}"), model
    return None, model


def run_layout_groups(ctx, res, nrand):
    rng = ctx.rng
    sets = []
    # deterministic grid: every junction in the first / middle / last group of a three-group caption and in both groups of two
    for j, junction in enumerate(JUNCTIONS):
        for pos in range(3):
            lids = rng.sample(range(1, len(GROUP_SETTINGS)), 3)
            sets.append([[rand_group(rng, lids[g], junction if g == pos else None) for g in range(3)]])
        lids = rng.sample(range(1, len(GROUP_SETTINGS)), 2)
        sets.append([[rand_group(rng, lids[0], junction), rand_group(rng, lids[1], JUNCTIONS[(j + 1) % len(JUNCTIONS)])]])
    for _ in range(nrand):
        lcaps = []
        for _c in range(rng.randint(1, 3)):
            k = rng.choice([1, 2, 2, 3, 3, 4])
            lids = [rng.randint(1, len(GROUP_SETTINGS) - 1)]
            while len(lids) < k:
                x = rng.randint(1, len(GROUP_SETTINGS) - 1)
                if x != lids[-1]:
                    lids.append(x)
            if k == 1 and rng.random() < 0.5:
                lids = [0]
            lcaps.append([rand_group(rng, lid, rng.choice(JUNCTIONS) if rng.random() < 0.6 else None) for lid in lids])
        sets.append(lcaps)
    d = res["distribution"]
    # audit w7: IRREGULAR layout shapes (a layout-0 text node between two layouts, a style END node carrying the next group's
    # layout, a layout-0 style node): what a group is there is the writer's own business - only the LITERAL model tie (305) and
    # the acceptance by the cue grammar are judged, no per-group oracle
    it = ("s", True, True, False, False, None)
    irregular = [[(1, ("t", "a")), (0, ("t", "b")), (2, ("t", "c"))],
                 [(1, ("t", "up --")), (0, ("t", "> down")), (2, ("b",)), (2, ("t", "c"))],
                 [(1, it), (1, ("t", "a")), (2, ("s", False) + it[2:]), (2, ("t", "b"))],
                 [(1, ("t", "a")), (0, it), (2, ("t", "b --")), (2, ("t", ">")), (0, ("s", False) + it[2:])],
                 [(0, ("t", "x")), (1, ("t", "y")), (0, ("b",)), (0, ("t", "z")), (2, it), (2, ("t", "w")), (1, ("s", False) + it[2:])]]
    for _ in range(40):
        flat = []
        for _k in range(rng.randint(2, 6)):
            lid = rng.choice([0, 0, 1, 2, 3])
            flat.append((lid, rng.choice([("t", rng.choice(["a", "x -", "->", "--", ">", "q & r"])), ("b",), it, ("s", False) + it[2:]])))
        if any(n[0] == "t" for _, n in flat) and flat[0][1][0] != "b":
            irregular.append(flat)
    for flat in irregular:
        lc_ = [[flat]]
        out = groups_doc(lc_)
        caps = [[G.vtt_timing(*G.times(0)), [[lid, G.wire_nodes([n])[0]] for lid, n in flat]]]
        model = oracle_batch([(305, [list(GROUP_SETTINGS), caps])])[0]
        res["evaluations"] += 1
        d["F_irregular_layout_shapes"] = d.get("F_irregular_layout_shapes", 0) + 1
        if not isinstance(out, Ok) or not (isinstance(model, list) and len(model) == 2):
            d["F_irregular_no_document"] = d.get("F_irregular_no_document", 0) + 1
            continue
        same = model[0] == out.v
        d["F_irregular_model_exact_equal" if same else "F_irregular_model_exact_differs"] = \
            d.get("F_irregular_model_exact_equal" if same else "F_irregular_model_exact_differs", 0) + 1
        if not same and len(res["disagreements"]) < 50:
            res["disagreements"].append({"fmt": "WebVTT", "what": "writer output (irregular layout shapes) differs literally from the model's",
                                         "nodes": lc_, "impl": out.v, "model": model[0]})
        if oracle_batch([(311, out.v)])[0] == []:
            res["violations"].append({"fmt": "WebVTT", "kind": "unparseable-output", "shape": "layout-groups-irregular", "replay": "vtt-layout-groups",
                                      "input": lc_, "document": out.v, "what": "WebVTT output rejected by the reference grammar"})
    for lcaps in sets:
        out = groups_doc(lcaps)
        v, model = judge_groups(lcaps, out)
        ngroups = sum(len(g) for g in lcaps)
        res["evaluations"] += ngroups
        d["F_documents"] = d.get("F_documents", 0) + 1
        d["F_layout_groups"] = d.get("F_layout_groups", 0) + ngroups
        d["F_captions_with_%d_groups" % min(4, max(len(g) for g in lcaps))] = d.get("F_captions_with_%d_groups" % min(4, max(len(g) for g in lcaps)), 0) + 1
        for groups in lcaps:
            for g in groups:
                res["nontrivial"].add(("WebVTT-group", tuple(n[1] for _, n in g if n[0] == "t"), len(groups)))
        if v is not None:
            res["violations"].append(v)
        if isinstance(out, Ok) and not (isinstance(model, list) and len(model) == 2):
            d["F_model_request_bad"] = d.get("F_model_request_bad", 0) + 1         # audit w7: never skip the literal tie silently
            if len(res["disagreements"]) < 50:
                res["disagreements"].append({"fmt": "WebVTT", "what": "request 305 (model document) gave no answer for this input",
                                             "nodes": lcaps, "impl": out.v, "model": model})
        if isinstance(out, Ok) and isinstance(model, list) and len(model) == 2:
            exact = model[0] == out.v
            key = "F_model_exact_equal" if exact else "F_model_exact_differs"
            d[key] = d.get(key, 0) + 1
            if not exact and len(res["disagreements"]) < 50:
                res["disagreements"].append({"fmt": "WebVTT", "what": "writer output (layout groups) differs literally from the model's",
                                             "nodes": lcaps, "impl": out.v, "model": model[0]})


def run(ctx):
    res = {"evaluations": 0, "nontrivial": set(), "violations": [], "disagreements": [], "distribution": {},
           "streams": 7, "notes": []}
    records = run_sets(ctx, res, ctx.n(260, 6000))
    payloads = []
    for rec in records:
        payloads.extend(rec.get("payloads") or [])
    for rec in run_colors(ctx, res, ctx.n(120, 4000)):
        payloads.extend(rec.get("payloads") or [])
    run_xml_validation(ctx, res, payloads, ctx.n(1500, 40000))
    run_strings(ctx, res, ctx.n(4, 5), ctx.n(500, 20000))
    run_histories(ctx, res, ctx.n(60, 1500))
    run_layout_groups(ctx, res, ctx.n(250, 8000))
    run_used_writers(ctx, res, ctx.n(12, 800))
    res["rule"] = ("A: caption sets of 1-4 captions x 7 writers (DFXP, legacy DFXP, single-positioning DFXP, SAMI, WebVTT, "
                   "SRT, MicroDVD); non-trivial = a caption with a metacharacter (& < > quotes | { } \\ / ; # -) or more "
                   "than one line, counted as distinct (writer, authored lines, node shape). B: <p> payloads and mutated "
                   "payloads, Coq XML parser vs lxml. C: every string of length <= %d over 9 symbols, pairs over 23 symbols, "
                   "random lines; one- and two-line captions." % ctx.n(4, 5))
    nt = [x for x in res["nontrivial"] if x[0] != "str"]
    res["samples"] = [{"writer": x[0], "lines": list(x[1])} for x in sorted(nt, key=lambda x: -len(str(x)))[:3]] + \
                     [{"writer": x[0], "lines": list(x[1])} for x in nt[:3]]
    res["clauses"] = {
        "theorem": ["strict XML parse of xml_escape(s) is the text s (all strings over XML Char)",
                    "DFXP / legacy DFXP <p> payload models: strict parse = token list of the abstract writer; well-formed and "
                    "all visible characters and breaks in order for balanced flat spans (interior white space NOT covered)",
                    "WebVTT: cue-text reading (HTML character references) of encode(s) is s; the assembled cue text never "
                    "contains '-->' and has no empty line inside (all node lists); no document-level theorem",
                    "wave 7: quoteattr - the strict parser reads the attribute value written for ANY string over XML Char back "
                    "as that string (C03_quoteattr_roundtrip, _content_roundtrip); the DFXP payload theorems hold for style "
                    "dictionaries with any colour (C03_*_payload_parse_color, _wellformed_color)",
                    "round 4: the WebVTT model DOCUMENT (node-level layouts) is accepted by the block grammar and read as exactly one "
                    "cue per layout group with the lines of that group's cue text (C03_vtt_doc_cues_partial: raw payload lines; "
                    "the per-line display against the authored lines is not part of it)",
                    "wave 7: WebVTT captions written as several cues (layout groups): no cue text of any group contains "
                    "'-->' (C03_vtt_groups_no_arrow); one layout = the single cue text (C03_vtt_groups_one_layout)",
                    "SRT: model document (merge of equally timed captions included) read by the block grammar satisfies "
                    "ok_cues_strict against the authored lines (C03_srt_doc_meets_oracle)",
                    "MicroDVD: model document read by the line grammar satisfies ok_cues_strict for texts without '|' "
                    "(C03_mdvd_doc_meets_oracle)"],
        "correspondence_only": ["document level: header/attributes/indentation through bs4 prettify, judged by lxml (strict) / "
                                "html.parser", "the model's <p> payload / document equals the implementation's literally on "
                                "every generated caption set (a difference is reported as a disagreement)",
                                "authored lines survive with their interior white space for DFXP x3, SAMI, WebVTT (oracle on "
                                "real output only)", "Coq XML content parser agrees with lxml on payloads and mutated payloads",
                                "WebVTT layout groups: one cue per group with the lines of its nodes (oracle on real output, "
                                "stream F) and the document equals the model's (request 305) - no theorem about the cue LINES"]}
    res["trusted_extra"] = ["observers: lxml.etree (strict, no recovery) for DFXP; html.parser for SAMI; "
                            "Coq reference grammars (spec/SpecTextVtt.v, SpecTextBlocks.v) for WebVTT/SRT/MicroDVD"]
    return res


def replay(ctx, rec):
    if rec.get("replay") == "history":
        h = rec["hist"]
        specs = [[tuple(n) for n in s] for s in rec["all_specs"]]
        spans = [tuple(x) for x in rec["all_spans"]]
        r = {"evaluations": 0, "nontrivial": set(), "violations": [], "disagreements": [], "distribution": {}, "notes": []}
        process_cases(ctx, r, history_cases(specs, spans, h["mode"], h["order"]))
        bad = [v for v in r["violations"] if v["kind"] not in ("blank-inserted-at-node-boundary", "nbsp-for-empty-text-node")]
        return bool(bad), [(v["fmt"], v["hist"]["step"], v["what"][:200]) for v in bad[:3]]
    if rec.get("replay") == "vtt-layout-groups":
        lcaps = [[[(int(l), tuple(n)) for l, n in g] for g in groups] for groups in rec["input"]]
        v, _ = judge_groups(lcaps, groups_doc(lcaps))
        return (v is not None), (v or {}).get("what")
    if rec.get("replay") == "used-writer":
        specs = [[tuple(n) for n in sp] for sp in rec["input"]]
        r = {"evaluations": 0, "nontrivial": set(), "violations": [], "disagreements": [], "distribution": {}, "notes": []}
        process_cases(ctx, r, used_writer_cases(specs, rec["poison"], (rec["fmt"],))[0])
        bad = [v for v in r["violations"] if v["kind"] not in ("blank-inserted-at-node-boundary", "nbsp-for-empty-text-node")]
        return bool(bad), [v["what"][:200] for v in bad[:2]]
    if rec.get("replay") == "write":
        specs = [[tuple(n) for n in s] for s in rec["input"]]
        spans = [tuple(x) for x in rec["spans"]] if rec.get("spans") else None
        ok, detail = check_one(rec["fmt"], specs, spans)
        return (not ok), detail
    return False, "unknown replay kind"
