"""C03 - written text survives a conformant parser.

Streams
  A  caption sets (1-4 visible lines per caption over metacharacter-heavy text, optional empty lines, optional flat
     style spans) x 7 writers.  Per writer output:
       property oracle   : the document parsed by the observer the property names (lxml strict XML / html.parser /
                           the Coq WebVTT, SRT, MicroDVD reference grammars) must give one cue per caption with the
                           authored lines (Coq ok_cues, spec/SpecTextLines.v);
       correspondence    : the extracted writer model (coq/model/TextWrite.v) must produce the same <p> payload
                           (DFXP x3, SAMI) / the same document (WebVTT, SRT, MicroDVD).
  B  spec-parser validation: the Coq strict XML content parser against lxml on every payload and on mutated
     (mostly ill-formed) payloads - both must accept/reject together and build the same tree.
  C  single strings (every visible string of length <= 4/5 over the metacharacters + random lines), each as a
     one-line caption, 40 per caption set, through the public writers; judged exactly like stream A.
"""
import itertools
import re

import impl
import gens_text as G
from wire import Ok, Err, oracle_batch, Some  # noqa: F401
from pycaption import DFXPWriter, SAMIWriter, WebVTTWriter, SRTWriter, MicroDVDWriter
from pycaption.dfxp.extras import LegacyDFXPWriter, SinglePositioningDFXPWriter

WRITERS = [
    ("DFXP", DFXPWriter, "xml", (0, "")),
    ("DFXP-legacy", LegacyDFXPWriter, "xml", (1, "")),
    ("DFXP-single", SinglePositioningDFXPWriter, "xml", (0, ' region="bottom"')),
    ("SAMI", SAMIWriter, "html", (2, "")),
    ("WebVTT", WebVTTWriter, "vtt", 302),
    ("SRT", SRTWriter, "srt", 303),
    ("MicroDVD", MicroDVDWriter, "mdvd", 304),
]
METACHARS = set("&<>\"'|{}\\/;#-")


def nontrivial_line(l):
    return any(c in METACHARS for c in l)


def excluded(spec, fmt):
    """domain restrictions, counted in the distribution"""
    if fmt == "MicroDVD":
        if any(n[0] == "t" and "|" in n[1] for n in spec):
            return "mdvd_pipe_in_text"
    if fmt in ("SAMI", "DFXP-legacy", "SRT") and G.has_inner_word_boundary(spec):
        # these writers put a space after every text node; a node boundary inside a word is outside the
        # comparison fixed by DESIGN 7.0 iv (counted, see design/C03.md)
        return "inner_word_boundary_space_writers"
    return None


def observe(kind, doc):
    """-> ('py', cues) or ('coq', request)"""
    if kind == "xml":
        return ("py", G.dfxp_cues(doc))
    if kind == "html":
        return ("py", G.sami_cues(doc))
    if kind == "vtt":
        return ("coq", (311, doc))
    if kind == "srt":
        return ("coq", (312, doc))
    return ("coq", (313, doc))


def run_sets(ctx, res, nsets):
    rng = ctx.rng
    cases = []       # (fmt, specs, doc or Err, observer result, model request)
    for k in range(nsets):
        ncap = rng.randint(1, 4)
        adv = rng.choice([0.2, 0.5, 0.8])
        base = [G.rand_caption_nodes(rng, adversarial=adv, styles=rng.choice([0.0, 0.3, 0.6]), intra=0.12) for _ in range(ncap)]
        for (fmt, W, kind, mreq) in WRITERS:
            specs = []
            for s in base:
                why = excluded(s, fmt)
                if why:
                    res["distribution"][why] = res["distribution"].get(why, 0) + 1
                else:
                    specs.append(s)
            if not specs:
                continue
            cs = G.capset(specs)
            out = impl.call(lambda: W().write(cs))
            cases.append((fmt, kind, mreq, specs, out))
    return process_cases(ctx, res, cases)


def process_cases(ctx, res, cases):
    # requests to the oracle: authored lines, model outputs, coq observers
    reqs = []
    for (fmt, kind, mreq, specs, out) in cases:
        for s in specs:
            reqs.append((321, G.wire_nodes(s)))
    authored_all = oracle_batch(reqs)
    pos = 0
    obs_reqs, obs_slots = [], []
    model_reqs, model_slots = [], []
    records = []
    for (fmt, kind, mreq, specs, out) in cases:
        authored = authored_all[pos:pos + len(specs)]
        pos += len(specs)
        rec = {"fmt": fmt, "kind": kind, "specs": specs, "authored": authored, "out": out, "observed": None,
               "model": None, "impl_payloads": None, "obs_error": None}
        records.append(rec)
        if not isinstance(out, Ok):
            continue
        doc = out.v
        try:
            how, val = observe(kind, doc)
        except Exception as e:  # the strict parser refused the document
            rec["obs_error"] = repr(e)[:300]
            how, val = "py", None
        if how == "py":
            rec["observed"] = val
        else:
            obs_slots.append(rec)
            obs_reqs.append(val)
        # model
        if isinstance(mreq, tuple):
            for s in specs:
                model_reqs.append((301, [mreq[0], mreq[1], G.wire_nodes(s)]))
                model_slots.append(rec)
        else:
            caps = []
            for i, s in enumerate(specs):
                st, en = G.times(i)
                tl = {302: G.vtt_timing, 303: G.srt_timing, 304: G.mdvd_prefix}[mreq](st, en)
                caps.append([tl, G.wire_nodes(s)])
            model_reqs.append((mreq, caps))
            model_slots.append(rec)
    for rec, r in zip(obs_slots, oracle_batch(obs_reqs)):
        rec["observed"] = None if r == [] else r[0]
        if r == []:
            rec["obs_error"] = "reference grammar rejects the document"
    for rec, r in zip(model_slots, oracle_batch(model_reqs)):
        if rec["model"] is None:
            rec["model"] = []
        rec["model"].append(r)
    # property oracle (Coq ok_cues) on what the implementation produced
    ok_reqs, ok_slots = [], []
    for rec in records:
        if rec["observed"] is not None:
            ok_reqs.append((320, [rec["authored"], rec["observed"]]))
            ok_slots.append(rec)
    oks = dict((id(rec), r) for rec, r in zip(ok_slots, oracle_batch(ok_reqs)))
    inexact = []
    shrunk = set()
    for rec in records:
        res["evaluations"] += len(rec["specs"])
        fmt = rec["fmt"]
        res["distribution"]["docs_" + fmt] = res["distribution"].get("docs_" + fmt, 0) + 1
        res["distribution"]["captions"] = res["distribution"].get("captions", 0) + len(rec["specs"])
        for s, a in zip(rec["specs"], rec["authored"]):
            if any(nontrivial_line(l) for l in a) or len(a) > 1:
                res["nontrivial"].add((fmt, tuple(a), tuple(n[0] for n in s)))
        out = rec["out"]
        good = isinstance(out, Ok) and rec["observed"] is not None and oks.get(id(rec)) == 1
        if not good:
            v = classify(rec)
            key = (v["kind"], v["fmt"], v["shape"])
            if key not in shrunk and len(shrunk) < 6:
                shrunk.add(key)
                v = shrink(ctx, v)
            res["violations"].append(v)
            continue
        # correspondence.  Exact equality with the model is measured (distribution: model_exact_*); the alarm level is
        # the level the property fixes: the model's output, read by the same reference parser, must give the same
        # normalised lines as the implementation's output (a white-space-only rewrite of a writer is not a finding).
        doc = out.v
        if rec["kind"] in ("xml", "html"):
            pl = [p.strip() for p in G.p_payloads(doc)]
            if rec["kind"] == "html":
                pl = [p for p in pl if p != "&nbsp;"]
            model = [m.strip() for m in rec["model"]]
            exact = (pl == model)
            rec["payloads"] = pl
            rec["model_parse"] = ("payloads", model)
        else:
            exact = (rec["model"][0] == doc)
            rec["model_parse"] = ("doc", rec["model"][0])
        key = "model_exact_equal" if exact else "model_exact_differs"
        res["distribution"][key] = res["distribution"].get(key, 0) + 1
        if not exact:
            inexact.append(rec)
    # property-level correspondence for the outputs that are not literally the model's
    reqs, slots = [], []
    for rec in inexact:
        how, val = rec["model_parse"]
        if how == "payloads":
            for m in val:
                reqs.append((310, m))
                slots.append(rec)
        else:
            code = {"vtt": 311, "srt": 312, "mdvd": 313}[rec["kind"]]
            reqs.append((code, val))
            slots.append(rec)
    outs = oracle_batch(reqs) if reqs else []
    per = {}
    for rec, o in zip(slots, outs):
        per.setdefault(id(rec), []).append(o)
    reqs2, slots2 = [], []
    for rec in inexact:
        o = per[id(rec)]
        if rec["model_parse"][0] == "payloads":
            mobs = [x[1] if x != [] else None for x in o]
        else:
            mobs = o[0][0] if o[0] != [] else None
        if mobs is None or any(x is None for x in mobs):
            res["disagreements"].append({"fmt": rec["fmt"], "what": "the model's output is rejected by the reference parser",
                                         "nodes": rec["specs"], "model": rec["model"]})
            continue
        reqs2.append((320, [mobs, rec["observed"]]))
        slots2.append((rec, mobs))
    for (rec, mobs), r in zip(slots2, oracle_batch(reqs2) if reqs2 else []):
        if r != 1:
            res["disagreements"].append({"fmt": rec["fmt"], "what": "model and implementation outputs read differently",
                                         "nodes": rec["specs"], "impl_lines": rec["observed"], "model_lines": mobs,
                                         "impl": rec["out"].v, "model": rec["model"]})
    return records


def classify(rec):
    fmt = rec["fmt"]
    out = rec["out"]
    if not isinstance(out, Ok):
        kind, what = "writer-raises", f"{fmt} writer raised {impl.ERR_NAMES.get(out.code, out.code)}"
    elif rec["observed"] is None:
        kind, what = "unparseable-output", f"{fmt} output rejected by the reference parser: {rec['obs_error']}"
    else:
        a, o = rec["authored"], rec["observed"]
        if len(a) != len(o):
            kind = "cue-count"
            what = f"{fmt}: {len(a)} captions written, reference parser sees {len(o)} cues"
        else:
            kind = "cue-text"
            what = f"{fmt}: cue lines differ from the authored lines"
    return {"kind": kind, "fmt": fmt, "what": what, "input": rec["specs"], "authored": rec["authored"],
            "observed": rec["observed"], "document": out.v if isinstance(out, Ok) else None, "replay": "write",
            "shape": shape_of(rec)}


def shape_of(rec):
    """coarse classification used by known-finding matching"""
    fmt = rec["fmt"]
    for s in rec["specs"]:
        types = [n[0] for n in s]
        if fmt == "SRT" and any(types[i] == "b" and types[i + 1] == "b" for i in range(len(types) - 1)):
            return "srt-consecutive-breaks"
    return "other"


def check_one(fmt, specs):
    """True when the property holds for this writer and these captions"""
    W, kind = next((w[1], w[2]) for w in WRITERS if w[0] == fmt)
    authored = oracle_batch([(321, G.wire_nodes(s)) for s in specs])
    out = impl.call(lambda: W().write(G.capset(specs)))
    if not isinstance(out, Ok):
        return False, ("raise", out.code)
    try:
        how, val = observe(kind, out.v)
    except Exception as e:
        return False, ("unparseable", repr(e)[:200])
    if how == "coq":
        r = oracle_batch([val])[0]
        if r == []:
            return False, ("unparseable", "reference grammar")
        val = r[0]
    ok = oracle_batch([(320, [authored, val])])[0]
    return ok == 1, {"authored": authored, "observed": val, "document": out.v}


def shrink(ctx, v):
    """greedy: fewer captions, fewer nodes, shorter texts, while the violation persists"""
    fmt, specs = v["fmt"], [list(s) for s in v["input"]]
    budget = [60]

    def bad(sp):
        if budget[0] <= 0 or not sp or any(not s for s in sp):
            return False
        budget[0] -= 1
        try:
            vis = oracle_batch([(322, l) for l in oracle_batch([(321, G.wire_nodes(s)) for s in sp])])
            if not all(x == 1 for x in vis):
                return False
            return not check_one(fmt, sp)[0]
        except Exception:
            return False
    changed = True
    while changed and budget[0] > 0:
        changed = False
        for i in range(len(specs)):
            cand = specs[:i] + specs[i + 1:]
            if bad(cand):
                specs, changed = cand, True
                break
        if changed:
            continue
        for i, s in enumerate(specs):
            for j in range(len(s)):
                cand = specs[:i] + [s[:j] + s[j + 1:]] + specs[i + 1:]
                if bad(cand):
                    specs, changed = cand, True
                    break
                if s[j][0] == "t" and len(s[j][1]) > 1:
                    for t2 in (s[j][1][:len(s[j][1]) // 2], s[j][1][len(s[j][1]) // 2:], s[j][1][1:], s[j][1][:-1]):
                        cand = specs[:i] + [s[:j] + [("t", t2)] + s[j + 1:]] + specs[i + 1:]
                        if bad(cand):
                            specs, changed = cand, True
                            break
                    if changed:
                        break
            if changed:
                break
    okv, detail = check_one(fmt, specs)
    if not okv:
        v = dict(v)
        v["input"] = specs
        if isinstance(detail, dict):
            v.update(detail)
        v["what"] = v["what"] + " (shrunk)"
        v["shape"] = shape_of({"fmt": fmt, "specs": specs})
    return v


# ---- stream B: the Coq XML content parser against lxml --------------------------------------------------
XMLNS = ('<p xmlns="http://www.w3.org/ns/ttml" xmlns:tts="http://www.w3.org/ns/ttml#styling" '
         'xmlns:ttm="http://www.w3.org/ns/ttml#metadata">')
NSMAP = {"http://www.w3.org/ns/ttml": "", "http://www.w3.org/ns/ttml#styling": "tts:",
         "http://www.w3.org/ns/ttml#metadata": "ttm:", "http://www.w3.org/XML/1998/namespace": "xml:"}


def _qn(tag):
    m = re.match(r"\{([^}]*)\}(.*)", tag)
    if not m:
        return tag
    return NSMAP.get(m.group(1), "{" + m.group(1) + "}") + m.group(2)


def lxml_tree(payload):
    from lxml import etree
    try:
        root = etree.fromstring((XMLNS + payload + "</p>").encode("utf-8"),
                                etree.XMLParser(recover=False, resolve_entities=False))
    except Exception:
        return None

    def kids(e):
        out = []
        if e.text:
            out.append([0, e.text])
        for ch in e:
            if not isinstance(ch.tag, str):
                return None
            k = kids(ch)
            out.append([1, _qn(ch.tag), sorted([_qn(a), v] for a, v in ch.attrib.items()), k])
            if ch.tail:
                out.append([0, ch.tail])
        return out
    return kids(root)


def norm_tree(t):
    out = []
    for x in t:
        if x[0] == 0:
            out.append([0, x[1]])
        else:
            out.append([1, x[1], sorted([a, v] for a, v in x[2]), norm_tree(x[3])])
    return out


MUT_ATOMS = ["<", ">", "&", "\"", "'", "/", "<br/>", "</span>", "<span>", "<span a=\"1\">", "&amp;", "&#60;", "&#x3C;",
             "&#0;", "&#xD800;", "&bogus;", "&amp", "]]>", "<br>", "</br>", " ", "=", "<a b='c' b='d'>", "<a b=\"<\">",
             "<a b='&lt;'/>", "\r\n", "\r", "\x0b", "￾", "<1a/>", "<a:b c:d=\"e\"/>", "<a  b = 'c'  />", "<a b='1'c='2'/>"]


def run_xml_validation(ctx, res, payloads, n_mut):
    rng = ctx.rng
    inputs = list(dict.fromkeys(payloads))
    base = inputs[:] or ["a"]
    for _ in range(n_mut):
        p = rng.choice(base)
        for _ in range(rng.randint(1, 2)):
            r = rng.random()
            i = rng.randint(0, len(p))
            if r < 0.4 and p:
                j = min(len(p), i + rng.randint(1, 3))
                p = p[:i] + p[j:]
            elif r < 0.9:
                p = p[:i] + rng.choice(MUT_ATOMS) + p[i:]
            else:
                p = p[:i] + p[i:][::-1][:3] + p[i:]
        inputs.append(p)
    skipped = 0
    todo = []
    for p in inputs:
        tags = "".join(re.findall(r"<[^<>]*>", p))
        if "<!" in p or "<?" in p or any(ord(c) > 127 for c in tags):
            skipped += 1
            continue
        todo.append(p)
    res["distribution"]["B_xml_inputs"] = len(todo)
    res["distribution"]["B_skipped_comment_pi_nonascii_tag"] = skipped
    outs = oracle_batch([(310, p) for p in todo])
    acc = rej = 0
    for p, o in zip(todo, outs):
        res["evaluations"] += 1
        lx = lxml_tree(p)
        coq = None if o == [] else norm_tree(o[0])
        if lx is None:
            rej += 1
        else:
            acc += 1
        if (lx is None) != (coq is None) or (lx is not None and lx != coq):
            res["disagreements"].append({"what": "Coq content_parse differs from lxml (spec parser validation)",
                                         "payload": p, "lxml": lx, "coq": coq})
    res["distribution"]["B_accepted"] = acc
    res["distribution"]["B_rejected"] = rej


# ---- stream C: single strings, through the public API ----------------------------------------------------
def run_strings(ctx, res, maxlen, nrand):
    """every string of length <= maxlen over the metacharacters (visible ones) + random lines, each as a
    one-line caption, 40 captions per set, through every writer; judged exactly like stream A"""
    syms = ["&", "<", ">", "-", "a", ";", "]", "#", " "]
    strings = []
    for L in range(1, maxlen + 1):
        strings.extend("".join(t) for t in itertools.product(syms, repeat=L))
    strings = [s for s in strings if s.strip()]
    for _ in range(nrand):
        strings.append(G.rand_line(ctx.rng, adversarial=0.8))
    res["distribution"]["C_strings"] = len(strings)
    cases = []
    for k in range(0, len(strings), 40):
        chunk = strings[k:k + 40]
        for (fmt, W, kind, mreq) in WRITERS:
            if fmt in ("DFXP-legacy", "DFXP-single"):
                continue
            specs = [[("t", s)] for s in chunk if not excluded([("t", s)], fmt)]
            if not specs:
                continue
            cs = G.capset(specs)
            out = impl.call(lambda: W().write(cs))
            cases.append((fmt, kind, mreq, specs, out))
    process_cases(ctx, res, cases)
    # the string-level models (private helpers are NOT called; this is model-side only): the theorems' functions
    # agree with what the documents above contain is already checked by the correspondence in process_cases.


def run(ctx):
    res = {"evaluations": 0, "nontrivial": set(), "violations": [], "disagreements": [], "distribution": {},
           "streams": 3, "notes": []}
    records = run_sets(ctx, res, ctx.n(260, 6000))
    payloads = []
    for rec in records:
        payloads.extend(rec.get("payloads") or [])
    run_xml_validation(ctx, res, payloads, ctx.n(1500, 40000))
    run_strings(ctx, res, ctx.n(4, 5), ctx.n(500, 20000))
    res["rule"] = ("A: caption sets of 1-4 captions x 7 writers (DFXP, legacy DFXP, single-positioning DFXP, SAMI, WebVTT, "
                   "SRT, MicroDVD); non-trivial = a caption with a metacharacter (& < > quotes | { } \\ / ; # -) or more "
                   "than one line, counted as distinct (writer, authored lines, node shape). B: <p> payloads and mutated "
                   "payloads, Coq XML parser vs lxml. C: every string of length <= %d over 9 symbols + random lines."
                   % ctx.n(4, 5))
    nt = [x for x in res["nontrivial"] if x[0] != "str"]
    res["samples"] = [{"writer": x[0], "lines": list(x[1])} for x in sorted(nt, key=lambda x: -len(str(x)))[:3]] + \
                     [{"writer": x[0], "lines": list(x[1])} for x in nt[:3]]
    res["clauses"] = {
        "theorem": ["strict XML parse of xml_escape(s) is the text s (all strings over XML Char)",
                    "WebVTT: cue-text reading of encode(s) is s; encode(s) never contains '-->'; the cue text never has a "
                    "blank line inside (all node lists)",
                    "SRT cue content never contains a blank line and its lines are the non-blank authored lines (all node lists)",
                    "MicroDVD line grammar gives back the authored lines for texts without '|' (all node lists)"],
        "correspondence_only": ["document level: header/attributes/indentation through bs4 prettify, judged by lxml (strict) / "
                                "html.parser", "the model's <p> payload / document equals the implementation's on the generated "
                                "captions", "Coq XML content parser agrees with lxml on payloads and mutated payloads"]}
    res["trusted_extra"] = ["observers: lxml.etree (strict, no recovery) for DFXP; html.parser for SAMI; "
                            "Coq reference grammars (spec/SpecTextVtt.v, SpecTextBlocks.v) for WebVTT/SRT/MicroDVD"]
    return res


def replay(ctx, rec):
    if rec.get("replay") == "write":
        specs = [[tuple(n) for n in s] for s in rec["input"]]
        ok, detail = check_one(rec["fmt"], specs)
        return (not ok), detail
    return False, "unknown replay kind"
