"""C15 - SCC lines longer than 32 characters are never returned silently.

Inputs: real SCC streams in the three caption modes (pop-on, paint-on, roll-up 2/3/4), control codes doubled or
single, rows of 0-40 basic characters; in every stream one load carries 2-4 rows that end up as captions sharing a
start time (rows on non-adjacent screen rows) or as lines of one caption (adjacent rows); EVERY transmission order
of that load is generated (a "group").
Observation (public API): SCCReader().read(stream) -> exception class + message, or the line lengths of the
returned captions; plus the captions the reader had stored (reader.caption_stash.get_all()) as (format_start, text).
Correspondence: message / outcome == extracted model length_check (coq/model/SccLen.v) on the stored captions.
Property oracle: Coq ok_c15 (coq/spec/SpecSccLen.v) on the implementation's outcome; order-independence is checked
across each group.
"""
import itertools

import impl
import sccgen as g
import sccobs
from wire import Ok, Err, Some, oracle_batch, oracle1, r_opt
from pycaption import SCCReader

TABLES = ("GenScc.v",)
LENS = [0, 1, 2, 10, 31, 32, 33, 34, 40]
ALPHA = "abcdefghijklmnopqrstuvwxyzABCDEFGHIJKLMNOPQRSTUVWXYZ0123456789.,!?'-"
MSG_HEAD = "32 character limit for caption cue in scc file.\nLines longer than 32:\n"


def rand_row(rng, n):
    """a row of n displayed characters drawn from every code of the basic / special / extended tables:
    (tokens, text shown on a 608 screen per the independent tables of sccgen)"""
    toks = g.rand_tokens(rng, n) if n else []
    return toks, g.tokens_text(toks)


def rand_len(rng, p_long):
    r = rng.random()
    if r < p_long:
        return rng.choice([33, 34, 40, rng.randint(33, 40)])
    if r < p_long + 0.08:
        return 0                                        # a preamble with no text (empty row)
    if r < p_long + 0.28:
        return rng.choice(LENS[1:6])
    return rng.randint(1, 32)


def mk_row(rng, row, n):
    toks, text = rand_row(rng, n)
    return (row, text, toks)


def gen_group(rng, shape=None, mode=None, doubled=None):
    """-> (mode, doubled, loads, k) : loads = list of lists of (row, text, tokens); load k is the permuted one"""
    mode = mode or rng.choice(["pop", "pop", "paint", "roll2", "roll3", "roll4"])
    doubled = (rng.random() < 0.6) if doubled is None else doubled
    nloads = rng.randint(1, 3)
    k = rng.randrange(nloads)
    p_long = rng.choice([0.0, 0.15, 0.3, 0.5])
    loads = []
    for i in range(nloads):
        if i == k and (shape == "break+repos" or (shape is None and rng.random() < 0.1)):
            # a row with text, an EMPTY row exactly one row below it, then a non-adjacent long row: a pending line
            # break and a pending repositioning at once
            r0 = rng.randint(1, 13)
            far = rng.choice([r for r in range(1, 16) if abs(r - r0) > 2])
            loads.append([mk_row(rng, r0, rng.randint(1, 20)), (r0 + 1, "", []), mk_row(rng, far, rng.choice([33, 34]))])
            continue
        nrows = rng.choice([2, 2, 3, 3, 4]) if i == k else rng.choice([1, 1, 2])
        if rng.random() < 0.3:
            start = rng.randint(1, 16 - nrows)           # adjacent rows: lines of one caption (in ascending order)
            rows = list(range(start, start + nrows))
        else:
            rows = rng.sample(range(1, 16), nrows)
        loads.append([mk_row(rng, r, rand_len(rng, p_long)) for r in rows])
    return mode, doubled, loads, k


def flash_stream():
    """a stream on which read() raises the timing error (a caption displayed for one frame)"""
    return g.doc([(g.timecode(60, False), [g.ENM, g.RCL, g.pac(15)] + g.text_words("flash") + [g.EOC, g.EDM])])


def build_stream(mode, doubled, loads):
    lines = []
    t = 60
    for load in loads:
        ws = []
        if mode == "pop":
            ws += g.dbl([g.ENM, g.RCL], doubled)
        elif mode == "paint":
            ws += g.dbl([g.RDC], doubled)
        else:
            ws += g.dbl([{"roll2": g.RU2, "roll3": g.RU3, "roll4": g.RU4}[mode], g.CR], doubled)
        for row, text, toks in load:
            ws += g.dbl([g.pac(row)], doubled) + g.tokens_words(toks, doubled)
        if mode == "pop":
            ws += g.dbl([g.EOC], doubled)
        lines.append((g.timecode(t, False), ws))
        t += 30 * 8
    if mode == "pop":
        lines.append((g.timecode(t, False), g.dbl([g.EDM], doubled)))
    return g.doc(lines)


def observe(stream, r=None):
    """-> (kind, payload, stash)  kind: 'ok' (payload = returned caps), 'len' (payload = message), 'err' (code)"""
    r = r or SCCReader()
    res = impl.call(lambda: r.read(stream))
    st = impl.call(lambda: [(c.format_start(), "".join(c.get_text_nodes())) for c in r.caption_stash.get_all()])
    stash = st.v if isinstance(st, Ok) else None
    if isinstance(res, Ok):
        caps = [(c.format_start(), "".join(c.get_text_nodes())) for c in res.v.get_captions("en-US")]
        return "ok", caps, stash
    if res.code == 4:
        return "len", str(impl.last_exc.args[0]), stash
    return "err", res.code, stash


def wire_caps(caps):
    return [[k, t] for k, t in caps]


def run(ctx):
    rng = ctx.rng
    res = {"evaluations": 0, "nontrivial": set(), "violations": [], "disagreements": [], "distribution": {},
           "streams": 4, "notes": []}
    dist = {"mode": {}, "perm_group_sizes": {}, "outcome": {"ok": 0, "len": 0, "no-captions": 0},
            "shared_start_streams": 0, "rows_over_32": 0, "rows_at_32_or_33": 0, "stash_unavailable": 0}
    res["distribution"] = dist
    cases = []       # (gid, mode, doubled, loads, stream)
    ngroups = ctx.n(140, 4000)
    fixed = [("break+repos", m, d) for m in ("pop", "paint", "roll2", "roll3", "roll4") for d in (False, True)]
    for gid in range(ngroups + len(fixed)):
        if gid < len(fixed):
            mode, doubled, loads, k = gen_group(rng, *fixed[gid])
        else:
            mode, doubled, loads, k = gen_group(rng)
        perms = list(itertools.permutations(loads[k]))
        dist["perm_group_sizes"][len(perms)] = dist["perm_group_sizes"].get(len(perms), 0) + 1
        dist["mode"][mode] = dist["mode"].get(mode, 0) + 1
        for p in perms:
            ls = [list(p) if i == k else l for i, l in enumerate(loads)]
            cases.append((gid, mode, doubled, ls, build_stream(mode, doubled, ls)))
    obs = [observe(c[4]) for c in cases]
    # model + oracle requests
    reqs = []
    for (gid, mode, doubled, loads, stream), (kind, payload, stash) in zip(cases, obs):
        caps = stash if stash is not None else (payload if kind == "ok" else [])
        out = Some(payload) if kind == "len" else None
        reqs.append((1500, wire_caps(caps)))
        reqs.append((1501, [wire_caps(payload if kind == "ok" else caps), out]))
        # the statement's own reading: the outcome is decided by the TRANSMITTED rows (their characters per the
        # independent CEA-608 tables): error iff some transmitted row has more than 32 characters, naming its full text
        reqs.append((1501, [[["", t] for l in loads for (_, t, _) in l if t != ""], out]))
    ans = oracle_batch(reqs)
    # second correspondence stream: the FULL decoder model (request 600) on the same streams: outcome + exact message
    full = sccobs.model_batch([(c[4], 0) for c in cases])
    for (gid, mode, doubled, loads, stream), (kind, payload, stash), m in zip(cases, obs, full):
        if kind == "len":
            same = isinstance(m, tuple) and m[1] == payload
        elif kind == "ok":
            same = isinstance(m, Ok) and [sccobs.cap_text(c) for c in m.v] == [t for _, t in payload]
        else:
            same = isinstance(m, Err) and m.code == payload
        if not same:
            res["disagreements"].append({"which": "full decoder model", "stream": stream,
                                         "impl": [kind, payload if kind != "ok" else [t for _, t in payload]],
                                         "model": repr(m)[:300]})
    by_group = {}
    for i, ((gid, mode, doubled, loads, stream), (kind, payload, stash)) in enumerate(zip(cases, obs)):
        res["evaluations"] += 1
        model = r_opt(ans[3 * i])
        ok = ans[3 * i + 1]
        ok_rows = ans[3 * i + 2]
        rows = [t for l in loads for (_, t, _) in l if t != ""]
        nlong = sum(1 for t in rows if len(t) > 32)
        dist["rows_over_32"] += nlong
        dist["rows_at_32_or_33"] += sum(1 for t in rows if len(t) in (32, 33))
        desc = {"mode": mode, "doubled": doubled, "loads": [[(r, t) for (r, t, _) in l] for l in loads]}
        if kind == "err":
            if payload == 1 and not rows:
                dist["outcome"]["no-captions"] += 1
                continue
            res["violations"].append({"kind": "other-error", "replay": "stream", "stream": stream, "input": desc,
                                      "what": f"read raised {impl.ERR_NAMES.get(payload, payload)} instead of the "
                                              f"line-length error or captions"})
            continue
        dist["outcome"][kind] += 1
        by_group.setdefault(gid, []).append((kind, stream, desc))
        if stash is None:
            dist["stash_unavailable"] += 1
        keys = [k for k, _ in (stash or [])]
        if len(set(keys)) < len(keys):
            dist["shared_start_streams"] += 1
            if nlong or any(len(t) in (32, 33) for t in rows):
                res["nontrivial"].add(stream)
        if ok != 1:
            if kind == "ok":
                bad = [l for _, t in payload for l in t.split("\n") if len(l) > 32]
                res["violations"].append({"kind": "long-line-returned", "replay": "stream", "stream": stream,
                                          "input": desc, "what": f"read returned a caption line of {len(bad[0])} "
                                          f"characters without raising the line-length error: {bad[0]!r}"})
            else:
                res["violations"].append({"kind": "error-misses-line", "replay": "stream", "stream": stream,
                                          "input": desc, "impl_message": payload,
                                          "what": "line-length error raised but it does not name every stored line "
                                                  "longer than 32 (or no stored line is longer than 32)"})
            continue
        if ok_rows != 1:
            longrows = [t for t in rows if len(t) > 32]
            res["violations"].append({
                "kind": "long-row-silent" if kind == "ok" else "error-misses-row", "replay": "rows", "stream": stream,
                "rows": rows, "input": desc, "impl_message": payload if kind == "len" else None,
                "what": (f"a transmitted row of {len(longrows[0])} characters was returned silently (no line-length "
                         f"error): {longrows[0]!r}" if kind == "ok" and longrows else
                         "the line-length error does not name every transmitted row longer than 32 characters with "
                         "its full text (or no transmitted row is longer than 32)")})
            continue
        # correspondence with the model (exact message)
        impl_out = payload if kind == "len" else None
        if stash is not None and model != impl_out:
            res["disagreements"].append({"stream": stream, "input": desc, "impl": impl_out, "model": model})
        # the stored lines are the transmitted rows (decoder tie, reported as a disagreement only)
        if stash is not None:
            got = sorted(l for _, t in stash for l in t.split("\n") if l != "")
            if got != sorted(rows):
                res["disagreements"].append({"stream": stream, "input": desc, "what": "stored lines differ from the "
                                             "transmitted rows", "impl": got, "expected": sorted(rows)})
    # HISTORIES: one reader object reads a first stream (which may raise the line-length or the timing error) and then
    # a second one: the second outcome must be that of a fresh reader and must be decided by the second stream's rows
    hist = []
    pool = [c for c in cases]
    for _ in range(ctx.n(150, 3000)):
        first = rng.choice([None, None, "flash"])
        c1 = rng.choice(pool) if first is None else None
        s1 = c1[4] if c1 else flash_stream()
        c2 = rng.choice(pool)
        hist.append((s1, c2))
    hreq = []
    hobs = []
    for s1, c2 in hist:
        r = SCCReader()
        k1, _, _ = observe(s1, r)
        k2, p2, _ = observe(c2[4], r)
        fk, fp, _ = observe(c2[4])
        hobs.append((k1, k2, p2, fk, fp))
        hreq.append((1501, [[["", t] for l in c2[3] for (_, t, _) in l if t != ""], Some(p2) if k2 == "len" else None]))
    hans = oracle_batch(hreq)
    dist["histories"] = {"total": len(hist), "first_raised_length": 0, "first_raised_timing": 0, "first_ok": 0}
    for (s1, c2), (k1, k2, p2, fk, fp), okh in zip(hist, hobs, hans):
        res["evaluations"] += 1
        dist["histories"]["first_raised_length" if k1 == "len" else ("first_ok" if k1 == "ok" else "first_raised_timing")] += 1
        rows2 = [t for l in c2[3] for (_, t, _) in l if t != ""]
        if k2 == "err" and p2 == 1 and not rows2:
            continue
        if (k2, p2) != (fk, fp):
            res["violations"].append({
                "kind": "history-dependent", "replay": "history", "stream": s1, "stream2": c2[4], "rows": rows2,
                "input": {"first_outcome": k1, "second": {"mode": c2[1], "rows": rows2}},
                "what": f"a reader that had read another stream ({k1}) reads this stream as {k2} "
                        f"({str(p2)[:80]!r}); a fresh reader gives {fk}: the outcome must depend on this stream's rows only"})
    for gid, l in by_group.items():
        kinds = set(k for k, _, _ in l)
        if len(kinds) > 1:
            a = next(x for x in l if x[0] == "ok")
            b = next(x for x in l if x[0] == "len")
            res["violations"].append({"kind": "order-dependent", "replay": "pair", "stream": a[1], "stream2": b[1],
                                      "input": a[2], "input2": b[2],
                                      "what": "the same rows transmitted in two orders: one order is returned, the "
                                              "other raises the line-length error"})
    res["rule"] = ("pop-on / paint-on / roll-up(2,3,4) streams, codes doubled or single, 1-3 loads, rows of 0-40 basic "
                   "characters (boundary lengths 31/32/33/34/40 over-represented), one load of 2-4 rows in ALL its "
                   "transmission orders. Non-trivial: a stream in which at least two stored captions share a start "
                   "key and some row has length 32, 33 or more. Distinct streams counted.")
    res["samples"] = [{"mode": c[1], "doubled": c[2], "loads": c[3]} for c in cases[:3]]
    res["clauses"] = {
        "theorem": ["for every caption list the scan either raises with a message naming every line > 32 (listed "
                    "lines = offending lines as a multiset) or every line is <= 32",
                    "the outcome is a function of the line lengths only; invariant under permutation of the captions "
                    "and under any change of the start keys",
                    "pre-fix scan (overwrite on an existing key) refuted by a two-caption witness"],
        "correspondence_only": ["decoding of the stream into stored captions (format_start keys, text with breaks): "
                                "taken from the implementation (reader.caption_stash.get_all()); the stored lines are "
                                "cross-checked against the transmitted rows",
                                "exact text of the exception message (model = implementation on every stream)"]}
    res["notes"].append("streams whose rows are all empty raise CaptionReadNoCaptions and are counted, not judged")
    return res


def replay(ctx, rec):
    if rec.get("replay") == "history":
        r = SCCReader()
        k1, _, _ = observe(rec["stream"], r)
        k2, p2, _ = observe(rec["stream2"], r)
        fk, fp, _ = observe(rec["stream2"])
        okh = oracle1(1501, [[["", t] for t in rec["rows"]], Some(p2) if k2 == "len" else None])
        return (k2, p2) != (fk, fp) or okh != 1, f"after {k1}: {k2} {str(p2)[:200]!r}; fresh: {fk}"
    kind, payload, stash = observe(rec["stream"])
    if rec.get("replay") == "rows":
        if kind == "err":
            return True, f"raised {impl.ERR_NAMES.get(payload, payload)}"
        okr = oracle1(1501, [[["", t] for t in rec["rows"]], Some(payload) if kind == "len" else None])
        return okr != 1, f"outcome {kind}: {payload!r}"[:600]
    if rec.get("replay") == "pair":
        kind2, _, _ = observe(rec["stream2"])
        return kind != kind2, f"first order: {kind}, second order: {kind2}"
    if kind == "err":
        return True, f"raised {impl.ERR_NAMES.get(payload, payload)}"
    caps = payload if kind == "ok" else (stash or [])
    ok = oracle1(1501, [wire_caps(caps), Some(payload) if kind == "len" else None])
    return ok != 1, f"outcome {kind}: {payload!r}"[:600]
