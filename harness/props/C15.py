"""C15 - SCC lines longer than 32 characters are never returned silently.

Inputs: real SCC streams in the three caption modes (pop-on, paint-on, roll-up 2/3/4); control codes doubled, single or
mixed per code; rows of 0-40 cells drawn from EVERY code of the basic / special / extended tables, with blanks at either
end (incl. rows of 1-3 leading blanks + letters that exceed 32 only when the blanks are counted, as the first or a
later row of their caption, fixed shapes in every mode), double blanks, the transparent space, mid-row codes (one blank cell), characters erased by a backspace; preambles
of every style (colours, underline, italics), indents and tab offsets; empty rows (a preamble with no text); in every
stream one load carries 2-4 rows that end up as captions sharing a start time (non-adjacent rows) or as lines of one
caption (adjacent rows), and EVERY transmission order of that load is generated (a "group"); long streams of 12-30 loads
past one minute / one hour, drop-frame; reads with simulate_roll_up=True and offset != 0; reader-reuse histories.
Observation (public API only): SCCReader().read(stream, ...) -> exception class + message, or the returned captions.
Property oracle: Coq ok_c15_loose (coq/spec/SpecSccLen.v: the error message contains the text of every offending line;
the exact message format is not part of the statement) on the returned lines, plus the statement's own reading of
"depends only on the line lengths": the error is raised iff some TRANSMITTED row shows more than 32 cells on a CEA-608
screen (independent tables of harness/sccgen.py; trailing blanks are not shown; a mid-row code's cell may be rendered
as a blank or not at all, rows whose two readings fall on different sides of 32 are counted, not judged).
Correspondence: the full extracted decoder model (request 600): outcome and the returned caption texts. The exact wording
of the message and the reader's private caption store are compared as COUNTED information only.
"""
import itertools

import impl
import sccgen as g
import sccobs
from wire import Ok, Err, Some, oracle_batch, oracle1
from pycaption import SCCReader

TABLES = ("GenScc.v",)
LENS = [0, 1, 2, 10, 31, 32, 33, 34, 40]


def rand_len(rng, p_long):
    r = rng.random()
    if r < p_long:
        return rng.choice([33, 34, 40, rng.randint(33, 40)])
    if r < p_long + 0.08:
        return 0                                        # a preamble with no text (empty row)
    if r < p_long + 0.28:
        return rng.choice(LENS[1:6])
    return rng.randint(1, 32)


def mk_row(rng, row, n, rich):
    """-> dict(row, indent, tab, style, toks, lo, hi): lo / hi = shortest / longest text a reader may show"""
    if n == 0:
        toks = []
    elif rich:
        toks = g.rand_tokens(rng, n, p_mid=0.06, p_bs=0.05, blank_ends=0.5, sp9=True)
    else:
        toks = g.rand_tokens(rng, n)
    lo, hi = g.tokens_bounds(toks)
    indent, tab, style = 0, 0, 0
    if rich and rng.random() < 0.5:
        room = max(0, 32 - len(hi))
        indent = rng.choice([i for i in (0, 4, 8, 12, 16, 20, 24, 28) if i <= room] or [0])
        tab = rng.choice([0, 0, 1, 2, 3]) if indent + 3 <= room else 0
        style = rng.choice([0, 1, 14, 15, rng.randint(2, 13)]) if indent == 0 else rng.choice([0, 1])
    return {"row": row, "indent": indent, "tab": tab, "style": style, "toks": toks, "lo": lo, "hi": hi}


def lead_row(rng, row, total=None):
    """a row that starts with 1-3 blanks; with total 33-35 it exceeds 32 only when the leading blanks are counted"""
    b = rng.randint(1, 3)
    total = total if total is not None else rng.choice([32, 33, 33, 33, 32 + b])
    r = mk_row(rng, row, max(1, total - b), False)
    r["toks"] = [" "] * b + r["toks"]
    r["lo"], r["hi"] = g.tokens_bounds(r["toks"])
    return r


def gen_group(rng, shape=None, mode=None, doubled=None):
    """-> (mode, doubled, loads, k): load k is the one emitted in all its transmission orders"""
    mode = mode or rng.choice(["pop", "pop", "paint", "roll2", "roll3", "roll4"])
    doubled = rng.choice([True, True, False, "mixed"]) if doubled is None else doubled
    rich = rng.random() < 0.6
    nloads = rng.randint(1, 3)
    k = rng.randrange(nloads)
    p_long = rng.choice([0.0, 0.15, 0.3, 0.5])
    loads = []
    for i in range(nloads):
        if i == k and (shape == "break+repos" or (shape is None and rng.random() < 0.1)):
            r0 = rng.randint(1, 13)
            far = rng.choice([r for r in range(1, 16) if abs(r - r0) > 2])
            loads.append([mk_row(rng, r0, rng.randint(1, 20), rich), mk_row(rng, r0 + 1, 0, False),
                          mk_row(rng, far, rng.choice([33, 34]), False)])
            continue
        if i == k and shape == "trailing-blank":
            # a row of 32 characters plus a trailing blank and a short row sharing its start time
            r0 = rng.randint(1, 15)
            far = rng.choice([r for r in range(1, 16) if abs(r - r0) > 1])
            full = mk_row(rng, r0, 32, False)
            full["toks"] = full["toks"] + [" "]
            full["lo"], full["hi"] = g.tokens_bounds(full["toks"])
            loads.append([full, mk_row(rng, far, 1, False)])
            continue
        if i == k and shape in ("leading-blank-first", "leading-blank-later"):
            # a row of 1-3 blanks + letters, 33-35 cells in all, as the first / a later row of its caption (adjacent rows)
            # together with a row elsewhere on the screen that shares the start time
            r0 = rng.randint(1, 12)
            far = rng.choice([r for r in range(1, 16) if r < r0 - 1 or r > r0 + 2])
            lead = lead_row(rng, r0 if shape == "leading-blank-first" else r0 + 1, rng.choice([33, 33, 34, 35]))
            other = mk_row(rng, r0 + 1 if shape == "leading-blank-first" else r0, rng.randint(1, 20), False)
            pair = [lead, other] if shape == "leading-blank-first" else [other, lead]
            apart = mk_row(rng, far, rng.randint(1, 10), False)
            loads.append(pair + [apart] if rng.random() < 0.5 else [lead, apart])
            continue
        nrows = rng.choice([2, 2, 3, 3, 4]) if i == k else rng.choice([1, 1, 2])
        if rng.random() < 0.3:
            start = rng.randint(1, 16 - nrows)
            rows = list(range(start, start + nrows))
        else:
            rows = rng.sample(range(1, 16), nrows)
        loads.append([lead_row(rng, r) if rng.random() < 0.08 else mk_row(rng, r, rand_len(rng, p_long), rich) for r in rows])
    return mode, doubled, loads, k


def gen_long(rng):
    """12-30 loads of one or two rows, one over-long row (or none) at a random position"""
    mode = rng.choice(["pop", "paint", "roll2", "roll3", "roll4"])
    n = rng.randint(12, 30)
    bad = rng.randrange(n) if rng.random() < 0.7 else -1
    loads = []
    for i in range(n):
        rows = rng.sample(range(1, 16), rng.choice([1, 1, 2]))
        load = [mk_row(rng, r, rng.randint(1, 32), False) for r in rows]
        if i == bad:
            load[-1] = mk_row(rng, load[-1]["row"], rng.choice([33, 34, 40]), False)
        loads.append(load)
    return mode, rng.choice([True, False, "mixed"]), loads


WRITER_LAYOUT_STREAMS = [0]


def build_stream(mode, doubled, loads, rng=None, base=60, step=30 * 8, drop=False):
    dd = (lambda: rng.random() < 0.5) if doubled == "mixed" else (lambda: bool(doubled))
    # audit (wave 7): a third of the pop-on programs in the layout pycaption's own SCCWriter produces - Erase-Displayed-Memory
    # INSIDE the load line before its End-Of-Caption, column-0 white preamble codes in the indent-0 form (attribute 16 / 17).
    # The choice is a function of the set of rows only, so every transmission order of a load gets the same layout.
    writer = mode == "pop" and sum(r["row"] + len(r["toks"]) for l in loads for r in l) % 3 == 0
    WRITER_LAYOUT_STREAMS[0] += writer
    lines = []
    t = base
    for load in loads:
        ws = []
        if mode == "pop":
            ws += g.dbl([g.ENM], dd()) + g.dbl([g.RCL], dd())
        elif mode == "paint":
            ws += g.dbl([g.RDC], dd())
        else:
            ws += g.dbl([{"roll2": g.RU2, "roll3": g.RU3, "roll4": g.RU4}[mode]], dd()) + g.dbl([g.CR], dd())
        for r in load:
            st = r["style"]
            if writer and not r["indent"] and st < 2:
                unit = [g.pac_indent0(r["row"], underline=bool(st & 1))]
            elif r["indent"]:
                unit = [g.pac(r["row"], r["indent"], underline=bool(st & 1))]
            elif st >= 14:
                unit = [g.pac(r["row"], italics=True, underline=bool(st & 1))]
            else:
                unit = [g.pac(r["row"], color=st // 2, underline=bool(st & 1))]
            if r["tab"]:
                unit.append(g.tab(r["tab"]))
            ws += unit * 2 if dd() else unit
            ws += g.tokens_words(r["toks"], dd)
        if mode == "pop":
            if writer:
                ws += g.dbl([g.EDM], dd())
            ws += g.dbl([g.EOC], dd())
        lines.append((g.timecode(t, drop), ws))
        t += max(step, len(ws) + 45)
    if mode == "pop":
        lines.append((g.timecode(t, drop), g.dbl([g.EDM], dd())))
    return g.doc(lines)


def observe(stream, r=None, **kw):
    """-> (kind, payload): 'ok' (payload = texts of the returned captions), 'len' (message), 'err' (code)"""
    r = r or SCCReader()
    res = impl.call(lambda: r.read(stream, **kw))
    if isinstance(res, Ok):
        return "ok", ["".join(c.get_text_nodes()) for c in res.v.get_captions("en-US")]
    if res.code == 4:
        return "len", str(impl.last_exc.args[0])
    return "err", res.code


def private_store(stream):
    """COUNTED information only: what the reader keeps in its private caption store after reading"""
    r = SCCReader()
    impl.call(lambda: r.read(stream))
    st = impl.call(lambda: ["".join(c.get_text_nodes()) for c in r.caption_stash.get_all()])
    return st.v if isinstance(st, Ok) else None


def row_verdict(loads):
    """-> (must_raise, may_raise, exact long rows, ambiguous?) from the transmitted rows (608 cells)"""
    rows = [r for l in loads for r in l if r["hi"] != ""]
    must = [r for r in rows if len(r["lo"]) > 32]
    may = [r for r in rows if len(r["hi"]) > 32]
    named = [r["lo"] for r in must if r["lo"] == r["hi"]]
    return bool(must), bool(may), named, len(must) != len(may)


def describe(mode, doubled, loads):
    return {"mode": mode, "doubled": doubled,
            "loads": [[(r["row"], r["indent"] + r["tab"], r["style"], r["hi"]) for r in l] for l in loads]}


def judge(res, dist, stream, desc, loads, kind, payload, read_kw=None):
    """the property on one read; returns True if a violation was recorded"""
    must, may, named, ambiguous = row_verdict(loads)
    if ambiguous:
        dist["ambiguous_midrow_rows_not_judged"] = dist.get("ambiguous_midrow_rows_not_judged", 0) + 1
    extra = {"read_kw": read_kw} if read_kw else {}
    if kind == "ok":
        bad = [l for t in payload for l in t.split("\n") if len(l) > 32]
        if bad:
            res["violations"].append({"kind": "long-line-returned", "replay": "stream", "stream": stream, "input": desc,
                                      "what": f"read returned a caption line of {len(bad[0])} characters without raising "
                                              f"the line-length error: {bad[0]!r}", **extra})
            return True
        if must:
            long_row = next(r for l in loads for r in l if len(r["lo"]) > 32)
            res["violations"].append({"kind": "long-row-silent", "replay": "stream", "stream": stream, "input": desc,
                                      "what": f"a transmitted row of {len(long_row['lo'])} cells was returned silently "
                                              f"(no line-length error): {long_row['lo']!r}", **extra})
            return True
    elif kind == "len":
        if not may and not (read_kw or {}).get("simulate_roll_up"):
            res["violations"].append({"kind": "spurious-length-error", "replay": "stream", "stream": stream,
                                      "input": desc, "impl_message": payload,
                                      "what": "the line-length error was raised although no transmitted row shows more "
                                              "than 32 cells", **extra})
            return True
        if named and oracle1(1504, [[["", t] for t in named], Some(payload)]) != 1:
            res["violations"].append({"kind": "error-misses-row", "replay": "stream", "stream": stream, "input": desc,
                                      "impl_message": payload, "rows": named,
                                      "what": "the line-length error does not contain the text of every transmitted row "
                                              "longer than 32 characters", **extra})
            return True
    return False


def run(ctx):
    rng = ctx.rng
    res = {"evaluations": 0, "nontrivial": set(), "violations": [], "disagreements": [], "distribution": {},
           "streams": 2, "notes": []}
    dist = {"mode": {}, "doubling": {}, "perm_group_sizes": {}, "outcome": {"ok": 0, "len": 0, "no-captions": 0},
            "rows_over_32": 0, "rows_at_32_or_33": 0, "rows_with_blank_end": 0, "rows_with_midrow": 0,
            "styled_preambles": 0, "long_streams": 0, "kw_reads": 0,
            "info_message_differs_from_model": 0, "info_private_store_differs_from_rows": 0,
            "info_private_store_unavailable": 0}
    res["distribution"] = dist
    WRITER_LAYOUT_STREAMS[0] = 0
    cases = []       # (gid, mode, doubled, loads, stream)
    ngroups = ctx.n(110, 3000)
    fixed = [(sh, m, d) for sh in ("break+repos", "trailing-blank", "leading-blank-first", "leading-blank-later") for m in ("pop", "paint", "roll2", "roll3", "roll4")
             for d in (False, True)]
    for gid in range(ngroups + len(fixed)):
        if gid < len(fixed):
            mode, doubled, loads, k = gen_group(rng, *fixed[gid])
        else:
            mode, doubled, loads, k = gen_group(rng)
        perms = list(itertools.permutations(loads[k]))
        dist["perm_group_sizes"][len(perms)] = dist["perm_group_sizes"].get(len(perms), 0) + 1
        seed = rng.random()
        for p in perms:
            ls = [list(p) if i == k else l for i, l in enumerate(loads)]
            cases.append((gid, mode, doubled, ls, build_stream(mode, doubled, ls, __import__("random").Random(seed))))
    for j in range(ctx.n(25, 600)):
        mode, doubled, loads = gen_long(rng)
        base = rng.choice([60, 30 * 55, 30 * 3599, 30 * 7000])
        cases.append((("long", j), mode, doubled, loads,
                      build_stream(mode, doubled, loads, rng, base=base, step=rng.choice([60, 240, 1900]),
                                   drop=rng.random() < 0.5)))
        dist["long_streams"] += 1
    obs = [observe(c[4]) for c in cases]
    full = sccobs.model_batch([(c[4], 0) for c in cases])
    by_group = {}
    for (gid, mode, doubled, loads, stream), (kind, payload), m in zip(cases, obs, full):
        res["evaluations"] += 1
        dist["mode"][mode] = dist["mode"].get(mode, 0) + 1
        dist["doubling"][str(doubled)] = dist["doubling"].get(str(doubled), 0) + 1
        rows = [r for l in loads for r in l if r["hi"] != ""]
        dist["rows_over_32"] += sum(1 for r in rows if len(r["lo"]) > 32)
        dist["rows_at_32_or_33"] += sum(1 for r in rows if len(r["hi"]) in (32, 33))
        dist["rows_over_32_only_with_leading_blanks"] = dist.get("rows_over_32_only_with_leading_blanks", 0) + sum(
            1 for r in rows if len(r["lo"]) > 32 >= len(r["lo"].lstrip()))
        dist["rows_with_blank_end"] += sum(1 for r in rows if r["toks"] and (r["toks"][0] == " " or r["toks"][-1] == " "))
        dist["rows_with_midrow"] += sum(1 for r in rows if any(isinstance(t, tuple) and t[0] == "mid" for t in r["toks"]))
        dist["styled_preambles"] += sum(1 for r in rows if r["style"] or r["indent"] or r["tab"])
        desc = describe(mode, doubled, loads)
        if kind == "err":
            if payload == 1 and not rows:
                dist["outcome"]["no-captions"] += 1
                continue
            res["violations"].append({"kind": "other-error", "replay": "stream", "stream": stream, "input": desc,
                                      "what": f"read raised {impl.ERR_NAMES.get(payload, payload)} instead of the "
                                              f"line-length error or captions"})
            continue
        dist["outcome"][kind] += 1
        if not isinstance(gid, tuple):
            by_group.setdefault(gid, []).append((kind, stream, desc, row_verdict(loads)[3]))
        if len(rows) >= 2 and any(len(r["hi"]) >= 32 for r in rows):
            res["nontrivial"].add(stream)
        if judge(res, dist, stream, desc, loads, kind, payload):
            continue
        # correspondence with the full decoder model: outcome and returned caption texts
        if kind == "len":
            same = isinstance(m, tuple)
            if same and m[1] != payload:
                dist["info_message_differs_from_model"] += 1
        else:
            same = isinstance(m, Ok) and [sccobs.cap_text(c) for c in m.v] == payload
        if not same:
            res["disagreements"].append({"which": "full decoder model", "stream": stream, "input": desc,
                                         "impl": [kind, payload], "model": repr(m)[:300]})
    # counted information: the reader's private store vs the transmitted rows (sample)
    for c in cases[:ctx.n(150, 1500)]:
        st = private_store(c[4])
        if st is None:
            dist["info_private_store_unavailable"] += 1
            continue
        got = sorted(l.rstrip() for t in st for l in t.split("\n") if l.strip() != "")
        rows = [r for l in c[3] for r in l if r["hi"] != ""]
        if not all(r["lo"] == r["hi"] for r in rows):
            continue
        if got != sorted(r["lo"] for r in rows):
            dist["info_private_store_differs_from_rows"] += 1
    # order independence inside each group
    for gid, l in by_group.items():
        kinds = set(k for k, _, _, _ in l)
        if len(kinds) > 1 and not any(amb for _, _, _, amb in l):
            a = next(x for x in l if x[0] == "ok")
            b = next(x for x in l if x[0] == "len")
            res["violations"].append({"kind": "order-dependent", "replay": "pair", "stream": a[1], "stream2": b[1],
                                      "input": a[2], "input2": b[2],
                                      "what": "the same rows transmitted in two orders: one order is returned, the "
                                              "other raises the line-length error"})
    # other entry points of read: simulate_roll_up=True, offset != 0 (oracle only; the model has no such parameters)
    kwcases = [c for c in cases if not isinstance(c[0], tuple)][:ctx.n(220, 4000)]
    for i, (gid, mode, doubled, loads, stream) in enumerate(kwcases):
        kw = {"simulate_roll_up": True} if i % 2 == 0 else {"offset": rng.choice([1, -2, 0.5, 7])}
        if "simulate_roll_up" in kw and not mode.startswith("roll"):
            kw = {"offset": 1}
        kind, payload = observe(stream, **kw)
        res["evaluations"] += 1
        dist["kw_reads"] += 1
        if kind == "err":
            continue                                     # e.g. nothing left / timing error after an offset: not C15
        judge(res, dist, stream, describe(mode, doubled, loads), loads, kind, payload, read_kw=kw)
    # HISTORIES: one reader object reads a first stream (which may raise) and then a second one
    pool = [c for c in cases if not isinstance(c[0], tuple)]
    dist["histories"] = {"total": 0, "first_raised_length": 0, "first_raised_other": 0, "first_ok": 0}
    for _ in range(ctx.n(150, 3000)):
        c1 = rng.choice(pool) if rng.random() < 0.67 else None
        s1 = c1[4] if c1 else flash_stream()
        c2 = rng.choice(pool)
        r = SCCReader()
        k1, _ = observe(s1, r)
        k2, p2 = observe(c2[4], r)
        fk, fp = observe(c2[4])
        res["evaluations"] += 1
        dist["histories"]["total"] += 1
        dist["histories"]["first_raised_length" if k1 == "len" else ("first_ok" if k1 == "ok" else "first_raised_other")] += 1
        if (k2, p2) != (fk, fp):
            res["violations"].append({
                "kind": "history-dependent", "replay": "history", "stream": s1, "stream2": c2[4],
                "input": {"first_outcome": k1, "second": describe(c2[1], c2[2], c2[3])},
                "what": f"a reader that had read another stream ({k1}) reads this stream as {k2} "
                        f"({str(p2)[:80]!r}); a fresh reader gives {fk}: the outcome must depend on this stream only"})
    res["rule"] = ("groups: pop-on / paint-on / roll-up(2,3,4) streams, codes doubled / single / mixed per code, 1-3 loads, "
                   "rows of 0-40 cells from every code of the three character tables incl. blanks at the ends, double "
                   "blanks, transparent space, mid-row codes, erased characters, all preamble styles / indents / tab "
                   "offsets, empty rows; one load of 2-4 rows in ALL its transmission orders; fixed shapes break+repos and "
                   "32-characters-plus-trailing-blank in every mode; long streams of 12-30 loads (past 1 min / 1 h, "
                   "drop-frame); reads with simulate_roll_up=True / offset; reader-reuse histories. Non-trivial: at least "
                   "two non-empty rows and one of 32 or more cells. Distinct streams counted.")
    res["samples"] = [describe(c[1], c[2], c[3]) for c in cases[:3]]
    res["clauses"] = {
        "theorem": ["scan: either the error naming every line > 32 (listed lines = offending lines as a multiset) or every "
                    "line <= 32; outcome a function of the stored line lengths; invariant under permutation of the STORED "
                    "captions and under change of keys", "whole reader model (parsed lines, simulate_roll_up=False): read "
                    "never returns a line > 32 and the error names every over-long stored line (C15_read_never_silent)",
                    "pre-fix scan refuted by a witness",
                    "order clause at stream level for pop-on loads of plain rows of any length on non-adjacent screen rows: "
                    "raises iff some row > 32, in every order, naming every over-long row; outcome a function of the "
                    "multiset of row lengths"],
        "correspondence_only": ["invariance under the order of TRANSMISSION (all orders of a load are executed and compared; "
                                "stream-level theorems on the decoder model: pop-on loads of plain non-adjacent rows of any "
                                "length - C15_plain_load_order_free / _lengths_only - and every load_wf load - "
                                "C15_popon_row_order_free; other shapes and modes by execution only)",
                                "decoding of a stream into lines: full decoder model vs implementation (outcome + texts)",
                                "simulate_roll_up=True and offset != 0: oracle on the implementation only",
                                "reader reuse: second read compared with a fresh reader"]}
    res["notes"].append("streams whose rows are all empty raise CaptionReadNoCaptions and are counted, not judged")
    res["notes"].append("counted information, not judged: exact wording of the message vs the model; the reader's private "
                        "caption store vs the transmitted rows")
    dist["pop_on_streams_in_writer_layout"] = WRITER_LAYOUT_STREAMS[0]
    return res


def flash_stream():
    """a stream on which read() raises the timing error (a caption displayed for one frame)"""
    return g.doc([(g.timecode(60, False), [g.ENM, g.RCL, g.pac(15)] + g.text_words("flash") + [g.EOC, g.EDM])])


def replay(ctx, rec):
    if rec.get("replay") == "history":
        r = SCCReader()
        k1, _ = observe(rec["stream"], r)
        k2, p2 = observe(rec["stream2"], r)
        fk, fp = observe(rec["stream2"])
        return (k2, p2) != (fk, fp), f"after {k1}: {k2} {str(p2)[:200]!r}; fresh: {fk}"
    kw = rec.get("read_kw") or {}
    kind, payload = observe(rec["stream"], **kw)
    if rec.get("replay") == "pair":
        kind2, _ = observe(rec["stream2"])
        return kind != kind2, f"first order: {kind}, second order: {kind2}"
    if kind == "err":
        return True, f"raised {impl.ERR_NAMES.get(payload, payload)}"
    k = rec.get("kind")
    if k in ("long-line-returned", "long-row-silent"):
        return kind == "ok", f"outcome {kind}: {payload!r}"[:600]
    if k == "spurious-length-error":
        return kind == "len", f"outcome {kind}: {payload!r}"[:600]
    if k == "error-misses-row":
        bad = kind == "len" and oracle1(1504, [[["", t] for t in rec["rows"]], Some(payload)]) != 1
        return bad, f"outcome {kind}: {payload!r}"[:600]
    return False, f"outcome {kind}"
