"""C08 - any chain of conversions preserves the cue timeline and text; a second pass changes nothing.

Caption sets (sorted, non-overlapping cues of at least one unit of the chain's coarsest resolution, below 23 h, safe
visible text) are pushed through chains of REAL writers and readers (public API only): all 5x5 ordered pairs and
sampled chains of length 3-6, two passes.  After every hop the (start, end, text) lists per language are observed.
Property oracle: Coq ok_chain (request 802): times after pass 1 equal, at the coarsest resolution on the chain, every
time floored to that resolution (SAMI: final end = final start + 4 s), and pass 2 = pass 1 exactly; text lines (whitespace-normalised) unchanged at every
hop (Python side).  Correspondence: after every hop the times equal the model's trace (request 800), where a model hop
prints each timing token with the C02 writer models and parses it with the C01 reader models.
"""
import itertools
import re

import impl
from wire import Ok, Err, oracle_batch, oracle1, r_result
from pycaption import (CaptionSet, CaptionList, Caption, CaptionNode, SRTReader, SRTWriter, WebVTTReader, WebVTTWriter,
                       DFXPReader, DFXPWriter, SAMIReader, SAMIWriter, MicroDVDReader, MicroDVDWriter)

FMT = ["srt", "vtt", "dfxp", "sami", "mdvd"]
LANGS = ["en-US", "fr", "de"]
WORDS = ["hello", "world", "caption", "The", "quick", "brown", "fox", "it's", "100%", "naive", "[music]", "- hi", "42",
         "x", "Ola", "7 up", "yes.", "no?", "(laughs)", "a-b", "one, two", "d'accord", "ok!"]
HI = 82800 * 10**6 - 1


def write_read(f, cs):
    if f == 0:
        return SRTReader().read(SRTWriter().write(cs), lang="en-US")
    if f == 1:
        return WebVTTReader().read(WebVTTWriter().write(cs), lang="en-US")
    if f == 2:
        return DFXPReader().read(DFXPWriter().write(cs))
    if f == 3:
        return SAMIReader().read(SAMIWriter().write(cs))
    if f == 4:
        return MicroDVDReader().read(MicroDVDWriter().write(cs), lang="en-US")
    raise ValueError(f)


def norm_lines(c):
    lines, cur = [], []
    for n in c.nodes:
        if n.type_ == CaptionNode.BREAK:
            lines.append("".join(cur))
            cur = []
        elif n.type_ == CaptionNode.TEXT:
            cur.append(n.content or "")
    lines.append("".join(cur))
    out = []
    for l in lines:
        l = re.sub(r"\s+", " ", l).strip()
        if l:
            out.append(l)
    return out


def observe(cs):
    """{lang: ([[start, end], ...], [lines, ...])}; times must be ints"""
    res = {}
    for lang in cs.get_languages():
        times, texts = [], []
        for c in cs.get_captions(lang):
            s, e = c.start, c.end
            if isinstance(s, float) and s.is_integer():
                s = int(s)
            if isinstance(e, float) and e.is_integer():
                e = int(e)
            if not isinstance(s, int) or not isinstance(e, int):
                raise TypeError("non-integer time %r %r" % (c.start, c.end))
            times.append([s, e])
            texts.append(norm_lines(c))
        res[lang] = (times, texts)
    return res


ATOMS = ["&lt;", "&gt;", "&amp;", "&nbsp;", "&#60;", "&#x3c;", "&amp;lt;", "&amp;amp;", "&lrm;", "&bogus;", "&", "<", ">",
         '"', "'", "-->", "a --> b", "<i>", "</i>", "<i>x</i>", "<b>", "<u>t</u>", "</p>", "<p>", "<br/>", "<br>", "</span>",
         "<span>", "<c.x>y</c>", "<v Bob>", "<00:01.000>", "<!--", "]]>", "x<y", "a<b>c", "1 < 2 > 0", "R&D", "42", "50",
         "25", "23.976", "1", "{1}{2}", "{0}{0}", "{", "}", "|", "a|b", "00:00:01,000 --> 00:00:02,000", "NOTE", "STYLE",
         "WEBVTT", "</tt>", "<sami>", "é", "中", "\U0001F600", "a\xa0b", ";", "x;>", "a;", "#", "\\", "/", "-", "--",
         "- hi", "[music]", "100%", "it's"]


def norm_line(l):
    return re.sub(r"\s+", " ", l).strip()


def gen_text(rng, no_pipe, counter):
    """1-3 lines of words and adversarial atoms, with leading / trailing / multiple blanks; every line visible.
    '|' is MicroDVD's line separator: excluded (counted) exactly when the chain has a MicroDVD hop."""
    lines = []
    for _ in range(rng.choice([1, 1, 1, 2, 2, 3])):
        while True:
            parts = [rng.choice(ATOMS) if rng.random() < 0.55 else rng.choice(WORDS) for _ in range(rng.randint(1, 4))]
            l = rng.choice([" ", " ", " ", "  ", ""]).join(parts)
            if rng.random() < 0.15:
                l = rng.choice([" ", "  ", "\t"]) + l
            if rng.random() < 0.15:
                l = l + rng.choice([" ", "  "])
            if no_pipe and "|" in l:
                counter["text_pipe_excluded_for_microdvd"] = counter.get("text_pipe_excluded_for_microdvd", 0) + 1
                l = l.replace("|", "/")
            if norm_line(l):
                break
        lines.append(l)
    return lines


GRID = [0, 1, 999, 1000, 1001, 39999, 40000, 40001, 999999, 10**6, 8039999, 8040000, 8119999, 8120000, 59999999,
        60 * 10**6, 3599999999, 3600 * 10**6, 36000 * 10**6 - 1, 5004999, 5005000]


def gen_cues(rng, unit, short_ok):
    """sorted non-overlapping cues. short_ok (no SAMI on the chain): a cue may be shorter than the unit, even inside one
    unit (it floors to a zero-length cue that must be kept) - neighbours start in different units and, with MicroDVD,
    no cue lies inside frame 0.  Otherwise every cue is at least one unit long."""
    n = rng.choice([1, 2, 2, 3, 4, 5])
    t = rng.choice([0, 0, 1, 999, rng.randrange(10**7), rng.randrange(10**9), rng.randrange(HI // 2)])
    cues = []
    for _ in range(n):
        if rng.random() < 0.4:
            g = rng.choice(GRID)
            if g >= t:
                t = g
        if short_ok and rng.random() < 0.35:
            d = rng.choice([0, 1, 999, 30000, 39999, unit - 1, rng.randrange(0, unit)])
            if rng.random() < 0.5:
                t = t // unit * unit + rng.choice([0, 0, 1, unit // 4])   # well inside one unit
        else:
            d = max(unit, rng.choice([unit, unit + 1, 2 * unit - 1, 2 * unit, 999999, 10**6, 2500000,
                                      rng.randrange(unit, 10**7)]))
        s = t
        if cues:      # not before the previous end, and in a later unit than the previous start
            s = max(s, cues[-1][1], (cues[-1][0] // unit + 1) * unit)
        e = s + d
        if unit == 40000 and e < 40000:
            s, e = s + 40000, e + 40000          # frame 0 is the recorded finding (separate stream)
        if e > HI:
            break
        cues.append((s, e))
        t = e + (0 if rng.random() < 0.35 else rng.choice([1, 999, 1000, unit, 123456, rng.randrange(1, 10**7)]))
    if not cues:
        cues = [(40000, 40000 + max(unit, 1000))]
    return cues


def related_cues(rng, first, unit):
    """cues of a further language built around the first language's times: shared starts / ends, a title cue that starts
    before the first language and ends exactly where its first cue begins, cues in the gaps"""
    pts = sorted({t for c in first for t in c})
    out = []
    t0 = pts[0]
    if t0 >= 2 * unit and rng.random() < 0.6:
        a = rng.randrange(0, t0 - unit)
        out.append((a, t0 if rng.random() < 0.7 else rng.randrange(a + unit, t0 + 1)))
    for (s, e) in first:
        r = rng.random()
        if r < 0.4:
            out.append((s, e))
        elif r < 0.6 and e - s >= 2 * unit:
            m = rng.randrange(s + unit, e - unit + 1)
            out.append((s, m))
            if rng.random() < 0.5:
                out.append((m, e))
        elif r < 0.75:
            out.append((s, s + unit))
    res = []
    for (s, e) in out:
        if res and s < res[-1][1]:
            continue
        if e - s >= unit and e <= HI:
            res.append((s, e))
    return res or [(first[0][0], first[0][0] + unit)]


STYLES = [{"italics": True}, {"bold": True}, {"underline": True}, {"color": "yellow"}, {"font-family": "serif"},
          {"font-size": "12px"}, {"italics": True, "color": "red"}]
BLANKS = [" ", "\xa0", "  ", "\xa0 "]


def lines_spec(lines):
    spec = []
    for k, ln in enumerate(lines):
        if k:
            spec.append(["b"])
        spec.append(["t", ln])
    return spec


def gen_nodes(rng, no_pipe, counter):
    """node list of one caption: visible text lines (gen_text) separated by breaks; between two lines possibly EMPTY
    lines (consecutive breaks) or lines holding only a blank / U+00A0 text node; balanced STYLE node pairs (rendering:
    italics / bold / underline, and non-rendering: colour / font) at arbitrary positions, also between two breaks"""
    lines = gen_text(rng, no_pipe, counter)
    spec = []
    for k, ln in enumerate(lines):
        if k:
            spec.append(["b"])
            while rng.random() < 0.3:
                if rng.random() < 0.5:
                    spec.append(["t", rng.choice(BLANKS)])
                    counter["blank_only_text_nodes"] = counter.get("blank_only_text_nodes", 0) + 1
                else:
                    counter["empty_lines_inside_a_caption"] = counter.get("empty_lines_inside_a_caption", 0) + 1
                spec.append(["b"])
        spec.append(["t", ln])
    for _ in range(rng.choice([0, 0, 0, 1, 1, 2])):
        i = rng.randrange(0, len(spec) + 1)
        j = rng.randrange(i, len(spec) + 1)
        # keep pairs properly nested / sequential: do not cut through an existing pair
        depth = 0
        ok = True
        for x in spec[i:j]:
            if x[0] == "s":
                depth += 1 if x[1] else -1
                if depth < 0:
                    ok = False
        if not ok or depth != 0:
            continue
        st = rng.choice(STYLES)
        spec = spec[:i] + [["s", True, st]] + spec[i:j] + [["s", False, st]] + spec[j:]
        counter["style_node_pairs"] = counter.get("style_node_pairs", 0) + 1
        if not any(k in st for k in ("italics", "bold", "underline")):
            counter["style_node_pairs_rendering_no_tag"] = counter.get("style_node_pairs_rendering_no_tag", 0) + 1
    return spec


def plain_lines(spec):
    """the text lines if the caption is just lines separated by single breaks, else None"""
    out = []
    expect_text = True
    for x in spec:
        if expect_text and x[0] == "t" and norm_line(x[1]):
            out.append(x[1])
        elif not expect_text and x[0] == "b":
            pass
        else:
            return None
        expect_text = not expect_text
    return out if not expect_text else None


def build(langs):
    """langs: per language (cues, per cue either a list of text lines or a node spec)"""
    d = {}
    for li, (cues, texts) in enumerate(langs):
        caps = []
        for (s, e), spec in zip(cues, texts):
            if spec and isinstance(spec[0], str):
                spec = lines_spec(spec)
            nodes = []
            for x in spec:
                if x[0] == "t":
                    nodes.append(CaptionNode.create_text(x[1]))
                elif x[0] == "b":
                    nodes.append(CaptionNode.create_break())
                else:
                    nodes.append(CaptionNode.create_style(bool(x[1]), dict(x[2])))
            caps.append(Caption(s, e, nodes))
        d[LANGS[li]] = CaptionList(caps)
    return CaptionSet(d)


def spec_lines(spec):
    """visible text of a node spec: per line the text contents, whitespace-normalised, empty lines dropped"""
    if spec and isinstance(spec[0], str):
        spec = lines_spec(spec)
    lines, cur = [], []
    for x in spec:
        if x[0] == "b":
            lines.append("".join(cur))
            cur = []
        elif x[0] == "t":
            cur.append(x[1])
    lines.append("".join(cur))
    return [l for l in (norm_line(l) for l in lines) if l]


def run_chain(chain, cs):
    """list of per-hop observations (Ok/Err) and the final caption set"""
    trace = []
    for f in chain:
        r = impl.call(lambda: write_read(f, cs))
        if isinstance(r, Err):
            trace.append(r)
            return trace, None
        cs = r.v
        o = impl.call(lambda: observe(cs))
        trace.append(o)
        if isinstance(o, Err):
            return trace, None
    return trace, cs


def run(ctx):
    rng = ctx.rng
    res = {"evaluations": 0, "nontrivial": set(), "violations": [], "disagreements": [], "distribution": {},
           "streams": 2, "notes": [], "samples": []}
    dist = res["distribution"]
    jobs = []
    pairs = list(itertools.product(range(5), repeat=2))
    per_pair = ctx.n(80, 600)
    for (a, b) in pairs:
        for _ in range(per_pair):
            jobs.append([a, b])
    for _ in range(ctx.n(700, 10000)):
        jobs.append([rng.randrange(5) for _ in range(rng.randint(3, 6))])
    for x in range(5):                # order-sensitive 3-hop chains around the WebVTT / SRT pair
        for tail in ([1, 0], [0, 1]):
            for _ in range(ctx.n(8, 120)):
                jobs.append([x] + tail)
    n_multi = ctx.n(160, 3000)       # chains that stay within DFXP / SAMI, always with 2-3 interleaved languages
    for _ in range(n_multi):
        jobs.append([rng.choice([2, 3]) for _ in range(rng.randint(1, 5))])
    multi_from = len(jobs) - n_multi
    reqs_t, reqs_e, work = [], [], []
    for jn, chain in enumerate(jobs):
        unit = 40000 if 4 in chain else 1000
        multi = all(f in (2, 3) for f in chain) and (rng.random() < 0.5 or jn >= multi_from)
        nl = rng.choice([2, 3]) if multi else 1
        langs = []
        for k in range(nl):
            cues = gen_cues(rng, unit, 3 not in chain)
            if k and rng.random() < 0.6:
                cues = related_cues(rng, langs[0][0], unit)
            langs.append((cues, [gen_nodes(rng, 4 in chain, dist) for _ in cues]))
            if any(e - s0 < unit for (s0, e) in cues):
                dist["sets_with_a_cue_shorter_than_the_unit"] = dist.get("sets_with_a_cue_shorter_than_the_unit", 0) + 1
            if any(s0 // unit == e // unit for (s0, e) in cues):
                dist["sets_with_a_cue_inside_one_unit"] = dist.get("sets_with_a_cue_inside_one_unit", 0) + 1
        cs = build(langs)
        t1, cs1 = run_chain(chain, cs)
        t2, cs2 = run_chain(chain, cs1) if cs1 is not None else ([], None)
        for li, (cues, texts) in enumerate(langs):
            work.append((chain, langs, li, cues, texts, t1, t2))
            reqs_t.append((800, [chain, [list(c) for c in cues]]))
            reqs_e.append((801, [chain, [list(c) for c in cues]]))
    traces = oracle_batch(reqs_t)
    exps = oracle_batch(reqs_e)
    ok_reqs = []
    for (chain, langs, li, cues, texts, t1, t2), ex in zip(work, exps):
        p1 = final_times(t1, li, len(chain))
        p2 = final_times(t2, li, len(chain))
        ok_reqs.append((802, [chain, [list(c) for c in cues], p1, p2]))
    oks = oracle_batch(ok_reqs)
    lens = {}
    for (chain, langs, li, cues, texts, t1, t2), tr, ex, ok in zip(work, traces, exps, oks):
        res["evaluations"] += 1
        lens[len(chain)] = lens.get(len(chain), 0) + 1
        if ex[1] != 1:
            dist["out_of_domain_dropped"] = dist.get("out_of_domain_dropped", 0) + 1
            continue
        res["nontrivial"].add((tuple(chain), tuple(cues)))
        rec = {"chain": [FMT[f] for f in chain], "chain_codes": chain, "lang_index": li,
               "input": [[[list(c) for c in cu], tx] for (cu, tx) in langs], "expected": ex[0], "replay": "chain"}
        bad_text = text_mismatch(t1 + t2, li, texts)
        if ok != 1:
            v = dict(rec)
            v.update({"kind": "times", "what": "chain %s: times after pass 1 %s / pass 2 %s; the statement demands %s "
                                               "twice" % ("->".join(rec["chain"]), show(final_times(t1, li, len(chain))),
                                                          show(final_times(t2, li, len(chain))), ex[0])})
            res["violations"].append(v)
            continue
        if bad_text is not None:
            v = dict(rec)
            v.update({"kind": "text", "what": "chain %s: text after hop %d is %s, written %s" % (
                "->".join(rec["chain"]), bad_text[0], bad_text[1], texts)})
            res["violations"].append(v)
            continue
        # correspondence: every hop of pass 1 against the model trace, at the resolution reached so far (a hop that keeps
        # more precision than the model's is not a failure: counted)
        mt = [r_result(x) for x in tr]
        ot = [hop_times(o, li) for o in t1]
        bad = len(mt) != len(ot)
        for k, (a, b) in enumerate(zip(mt, ot)):
            u = 40000 if 4 in chain[:k + 1] else 1000
            if not same(floored(a, u), floored(b, u)):
                bad = True
            elif not same(a, b):
                dist["hops_with_other_precision_than_model"] = dist.get("hops_with_other_precision_than_model", 0) + 1
        if bad:
            res["disagreements"].append({"chain": rec["chain"], "cues": cues, "model": [show(x) for x in mt],
                                         "impl": [show(x) for x in ot]})
    dist.setdefault("hops_with_other_precision_than_model", 0)
    stream_short(ctx, res)
    # the string-level MicroDVD writer model (request 803) against the real writer, on the generated single-language sets
    mw = [(langs[0][0], [plain_lines(sp) for sp in langs[0][1]]) for (chain, langs, li, cues, texts, t1, t2) in work
          if len(langs) == 1 and 4 in chain and all(plain_lines(sp) is not None for sp in langs[0][1])
          and all(l == l.strip() for sp in langs[0][1] for l in plain_lines(sp))][:400]
    docs = oracle_batch([(803, [[c[0], c[1], tx] for c, tx in zip(cu, txs)]) for (cu, txs) in mw]) if mw else []
    ndiff = 0
    for (cu, txs), d in zip(mw, docs):
        real = impl.call(lambda: MicroDVDWriter().write(build([(cu, txs)])))
        if not (isinstance(real, Ok) and real.v == d):
            ndiff += 1
    dist["mdvd_documents_compared_with_writer_model"] = len(mw)
    dist["mdvd_documents_differing_from_writer_model"] = ndiff
    dist["chain_length_histogram"] = lens
    dist["pairs"] = len(pairs)
    dist["sets_per_pair"] = per_pair
    res["rule"] = ("all 25 ordered format pairs x %d caption sets, the ten 3-hop chains X->vtt->srt / X->srt->vtt, sampled "
                   "chains of length 3-6 and chains within DFXP/SAMI with 2-3 interleaved languages, two passes; sets of "
                   "1-5 sorted non-overlapping cues; with SAMI on the chain every cue is at least one unit long (1 ms, "
                   "40 ms with MicroDVD), otherwise cues may be shorter than the unit or lie inside one unit (e.g. "
                   "{100}{100}: kept as a zero-length cue) while neighbours start in different units and no cue lies "
                   "inside MicroDVD frame 0; starts on ms / frame boundaries +-1, below 23 h. Captions are node lists: "
                   "1-3 visible text lines mixing plain words with adversarial atoms (literal entity spellings &lt; &gt; "
                   "&amp; &nbsp; &#60; &amp;lt;, bare & < >, quotes, '-->', markup look-alikes, digits-only lines, braces, "
                   "timing-line look-alikes, leading/trailing/multiple blanks, non-ASCII); between two lines possibly "
                   "EMPTY lines (consecutive breaks) or lines holding only a blank / U+00A0 text node; balanced STYLE node "
                   "pairs, rendering (i/b/u) and non-rendering (colour, font), at arbitrary positions incl. between two "
                   "breaks; '|' is replaced (counted) exactly when the chain has a MicroDVD hop. Compared: visible text "
                   "per line, whitespace-normalised, empty lines dropped. Non-trivial: every distinct (chain, cue list) "
                   "in the domain." % per_pair)
    res["clauses"] = {
        "theorem": ["projection algebra: pi_F idempotent, two hops = coarser resolution (order irrelevant), every chain = "
                    "closed form (coarsest unit, SAMI 4 s tail), chain twice = once",
                    "token level: writer model then reader model = floor to the format's unit (SRT, WebVTT, DFXP, MicroDVD)",
                    "cue-list level incl. SRT merge loop and SAMI sync rule + back-filling: a model hop is pi_F on the "
                    "domain; a chain of model hops is the closed form and satisfies the oracle",
                    "string level, MicroDVD: reader model o writer model (whole documents incl. text lines) = frames "
                    "floored, text unchanged (C08_mdvd_roundtrip_string)"],
        "correspondence_only": ["several languages inside one DFXP / SAMI document do not disturb each other (dedicated "
                                "stream with interleaved languages; the set-level theorem converts each language on its own)",
                                "text survives every hop and the second pass (whitespace-normalised lines, adversarial "
                                "texts; the projection on text is the identity up to whitespace; only '|' is excluded, "
                                "for MicroDVD hops)",
                                "document level of every real writer / reader pair (the model hop is at token / cue-list "
                                "level)", "several languages through DFXP / SAMI"]}
    res["samples"] = [{"chain": [FMT[f] for f in work[0][0]], "cues": work[0][3], "text": work[0][4]}]
    return res


def short_case(rng):
    k = rng.randrange(3)
    if k == 0:      # a cue inside MicroDVD frame 0 is written {0}{0}text = the frame-rate header spelling
        e = rng.randrange(2, 40000)
        s = rng.randrange(0, e)
        a = 40000 + rng.randrange(0, 10**6)
        cues = [(s, e), (a, a + 40000 + rng.randrange(10**6))]
        return "mdvd-frame0", [4] + [rng.randrange(5) for _ in range(rng.randint(0, 2))], cues
    if k == 1:      # two cues inside one millisecond collapse to equal spans; the SRT writer merges them
        base = rng.randrange(1, 10**6) * 1000
        cues = [(base + 100, base + 400), (base + 500, base + 900), (base + 5000, base + 9000)]
        return "merged-by-srt", [rng.choice([1, 2]), 0], cues
    base = rng.randrange(1, 10**6) * 1000   # a cue shorter than 1 ms through SAMI: blank sync at its own start ms
    cues = [(base + 100, base + 400), (base + 2000, base + 3000)]
    return "sami-end", [3], cues


def run_short(shape, chain, cues):
    """(deviates, kind, observation)"""
    texts = [["w%d" % i] for i in range(len(cues))]
    cs = build([(cues, texts)])
    t1, cs1 = run_chain(chain, cs)
    exp = oracle1(801, [chain, [list(c) for c in cues]])[0]
    fin = final_times(t1, 0, len(chain))
    if isinstance(fin, Ok) and fin.v == exp and text_mismatch(t1, 0, texts) is None:
        return False, None, show(fin)
    kind = "short-cue-unexpected"
    if shape == "mdvd-frame0" and t1 and isinstance(t1[0], Err) and t1[0].code == 3:
        kind = "short-cue-mdvd-frame0"
    elif shape == "merged-by-srt" and isinstance(fin, Ok) and len(fin.v) == len(cues) - 1 and fin.v == [exp[0]] + exp[2:]:
        kind = "short-cue-merged-by-srt"
    elif shape == "sami-end" and isinstance(fin, Ok) and len(fin.v) == 2 and fin.v[1] == exp[1] \
            and fin.v[0] == [exp[0][0], exp[1][0]]:
        kind = "short-cue-sami-end"
    return True, kind, show(fin)


def stream_short(ctx, res):
    """cues shorter than the chain's resolution - outside the domain of the theorems.  The three shapes are recorded
    findings (known_findings.d/C08-*.json, matched by kind); any other deviation here is an ordinary violation."""
    n = ctx.n(45, 600)
    d = res["distribution"]
    for _ in range(n):
        shape, chain, cues = short_case(ctx.rng)
        dev, kind, obs = run_short(shape, chain, cues)
        res["evaluations"] += 1
        d["short_cue_cases"] = d.get("short_cue_cases", 0) + 1
        if dev:
            d[kind] = d.get(kind, 0) + 1
            res["violations"].append({
                "kind": kind, "shape": shape, "chain": [FMT[f] for f in chain], "chain_codes": chain, "cues": cues,
                "what": "chain %s on cues shorter than its resolution %s: %s" % ("->".join(FMT[f] for f in chain), cues, obs),
                "replay": "short"})


def hop_times(o, li):
    if isinstance(o, Err):
        return o
    v = o.v.get(LANGS[li])
    if v is None:
        return Ok([])
    return Ok(v[0])


def final_times(trace, li, n):
    if len(trace) != n or not trace:
        return Err(109) if not trace or not isinstance(trace[-1], Err) else trace[-1]
    return hop_times(trace[-1], li)


def text_mismatch(trace, li, texts):
    texts = [spec_lines(sp) for sp in texts]
    for k, o in enumerate(trace):
        if isinstance(o, Err):
            return (k, "an exception")
        v = o.v.get(LANGS[li])
        got = v[1] if v is not None else []
        if got != texts:
            return (k, got)
    return None


def floored(o, u):
    if isinstance(o, Ok):
        return Ok([[c[0] // u * u, c[1] // u * u] for c in o.v])
    return o


def same(a, b):
    return (isinstance(a, Ok) and isinstance(b, Ok) and a.v == b.v) or \
           (isinstance(a, Err) and isinstance(b, Err) and a.code == b.code)


def show(o):
    if isinstance(o, Ok):
        return o.v
    if isinstance(o, Err):
        return "raised " + impl.ERR_NAMES.get(o.code, str(o.code))
    return repr(o)


def replay(ctx, rec):
    if rec.get("replay") == "short":
        dev, kind, obs = run_short(rec["shape"], rec["chain_codes"], [tuple(c) for c in rec["cues"]])
        return dev, [kind, obs]
    chain = rec["chain_codes"]
    langs = [([tuple(c) for c in cu], tx) for (cu, tx) in rec["input"]]
    li = rec["lang_index"]
    cs = build(langs)
    t1, cs1 = run_chain(chain, cs)
    t2, cs2 = run_chain(chain, cs1) if cs1 is not None else ([], None)
    p1, p2 = final_times(t1, li, len(chain)), final_times(t2, li, len(chain))
    ok = oracle1(802, [chain, [list(c) for c in langs[li][0]], p1, p2])
    bad = text_mismatch(t1 + t2, li, langs[li][1])
    return ok != 1 or bad is not None, [show(p1), show(p2), bad]
