"""C08 - any chain of conversions preserves the cue timeline and text; a second pass changes nothing.

Caption sets (sorted, non-overlapping cues, below 24 h; visible text incl. adversarial atoms, line-break characters
inside text nodes, several text nodes per line, style nodes, layouts) are pushed through chains of REAL writers and
readers (public API only): all 5x5 ordered pairs and sampled chains of length 3-6, two passes.  After every hop the
(start, end, text) lists of ALL languages are observed.
Property oracle: Coq ok_chain (request 802): every time after pass 1 differs from the original by less than the coarsest
resolution on the chain (with SAMI on the chain the final end is not compared), and pass 2 = pass 1 exactly; the visible
text of every caption, whitespace-normalised as a whole, is unchanged after every hop; no further language appears
(Python side).  History: every multi-language chain and 20 % of the others are run a second time with ONE long-lived reader and
ONE long-lived writer object per format (reused for every hop of that format and for the second pass); every hop of
both passes must be observed exactly as with fresh objects (kind reused-objects).  Correspondence: after every hop the times equal the model's trace (request 800) at the resolution
reached so far, where a model hop prints each timing token with the C02 writer models and parses it with the C01
reader models; MicroDVD documents of the real writer equal the string-level writer model's (request 803).
Shapes that the real code does not preserve (cues below the resolution, several languages through single-language
formats, WebVTT cue split by layout, blank lines inside text nodes) are generated in every run by stream_shapes and
reported under failure-keyed kinds (known findings); any other deviation there is an ordinary violation.
"""
import itertools
import math
import re

import impl
from wire import Ok, Err, oracle_batch, oracle1, r_result
from pycaption import (CaptionSet, CaptionList, Caption, CaptionNode, SRTReader, SRTWriter, WebVTTReader, WebVTTWriter,
                       DFXPReader, DFXPWriter, SAMIReader, SAMIWriter, MicroDVDReader, MicroDVDWriter)
from pycaption.geometry import Layout, Point, Size, UnitEnum

FMT = ["srt", "vtt", "dfxp", "sami", "mdvd"]
LANGS = ["en-US", "fr", "de"]
WORDS = ["hello", "world", "caption", "The", "quick", "brown", "fox", "it's", "100%", "naive", "[music]", "- hi", "42",
         "x", "Ola", "7 up", "yes.", "no?", "(laughs)", "a-b", "one, two", "d'accord", "ok!"]
DAY = 86400 * 10**6
SAMI_HI = DAY - 4 * 10**6
NONINT = [0]


def hi_of(chain):
    return SAMI_HI if 3 in chain else DAY


CLASSES = [(SRTReader, SRTWriter), (WebVTTReader, WebVTTWriter), (DFXPReader, DFXPWriter), (SAMIReader, SAMIWriter),
           (MicroDVDReader, MicroDVDWriter)]


def write_read(f, cs, objs=None):
    """one hop.  objs None: fresh reader and writer objects; else a dict {format: (reader, writer)} of LONG-LIVED objects,
    one pair per format, reused for every hop of that format and for the second pass"""
    if objs is None:
        rd, wr = CLASSES[f][0](), CLASSES[f][1]()
    else:
        if f not in objs:
            objs[f] = (CLASSES[f][0](), CLASSES[f][1]())
        rd, wr = objs[f]
    doc = wr.write(cs)
    return rd.read(doc, lang="en-US") if f in (0, 1, 4) else rd.read(doc)


def norm_line(l):
    return re.sub(r"\s+", " ", l).strip()


def norm_text(c):
    """visible text of a caption, whitespace-normalised as a whole (a BREAK node is whitespace)"""
    return norm_line("".join("\n" if n.type_ == CaptionNode.BREAK else (n.content or "") if n.type_ == CaptionNode.TEXT
                             else "" for n in c.nodes))


def as_int(t):
    """times need not be integers (statement: same to resolution): a non-integral time is floored and counted"""
    if isinstance(t, int):
        return t
    if isinstance(t, float) and t.is_integer():
        return int(t)
    NONINT[0] += 1
    return math.floor(t)


def observe(cs):
    """{lang: ([[start, end], ...], [text, ...])} for every language of the set"""
    res = {}
    for lang in cs.get_languages():
        times, texts = [], []
        for c in cs.get_captions(lang):
            times.append([as_int(c.start), as_int(c.end)])
            texts.append(norm_text(c))
        res[lang] = (times, texts)
    return res


ATOMS = ["&lt;", "&gt;", "&amp;", "&nbsp;", "&#60;", "&#x3c;", "&amp;lt;", "&amp;amp;", "&lrm;", "&bogus;", "&", "<", ">",
         '"', "'", "-->", "a --> b", "<i>", "</i>", "<i>x</i>", "<b>", "<u>t</u>", "</p>", "<p>", "<br/>", "<br>", "</span>",
         "<span>", "<c.x>y</c>", "<v Bob>", "<00:01.000>", "<!--", "]]>", "x<y", "a<b>c", "1 < 2 > 0", "R&D", "42", "50",
         "25", "23.976", "1", "{1}{2}", "{0}{0}", "{", "}", "|", "a|b", "00:00:01,000 --> 00:00:02,000", "NOTE", "STYLE",
         "WEBVTT", "</tt>", "<sami>", "\u00e9", "\u4e2d", "\U0001F600", "a\xa0b", ";", "x;>", "a;", "#", "\\", "/", "-", "--",
         "- hi", "[music]", "100%", "it's"]
# characters that are whitespace for the statement's normalisation and line ends for some parser, INSIDE a text node
LB_ATOMS = ["a\nb", "x\r\ny", "p\rq", "a\x0bb", "a\x0cb", "a\x1cb", "a\x1db", "a\x1eb", "a\x85b", "a\u2028b", "a\u2029b",
            "a\tb", "l1\nl2\nl3", "7\n8"]
LB_CHARS = set("\n\r\x0b\x0c\x1c\x1d\x1e\x85\u2028\u2029")


def bump(counter, key, by=1):
    counter[key] = counter.get(key, 0) + by


def gen_text(rng, no_pipe, counter):
    """1-3 lines of words and adversarial atoms, with leading / trailing / multiple blanks; every line visible.
    '|' is MicroDVD's line separator: excluded (counted) exactly when the chain has a MicroDVD hop."""
    lines = []
    for _ in range(rng.choice([1, 1, 1, 2, 2, 3])):
        while True:
            parts = []
            for _ in range(rng.randint(1, 4)):
                r = rng.random()
                if r < 0.08:
                    parts.append(rng.choice(LB_ATOMS))
                    bump(counter, "text_atoms_with_a_line_break_character")
                elif r < 0.55:
                    parts.append(rng.choice(ATOMS))
                else:
                    parts.append(rng.choice(WORDS))
            l = rng.choice([" ", " ", " ", "  ", "", "\t"]).join(parts)
            if rng.random() < 0.15:
                l = rng.choice([" ", "  ", "\t"]) + l
            if rng.random() < 0.15:
                l = l + rng.choice([" ", "  "])
            if no_pipe and "|" in l:
                bump(counter, "text_pipe_excluded_for_microdvd")
                l = l.replace("|", "/")
            if norm_line(l):
                break
        lines.append(l)
    return lines


H = 3600 * 10**6
GRID = [0, 1, 999, 1000, 1001, 39999, 40000, 40001, 999999, 10**6, 8039999, 8040000, 8119999, 8120000, 59999999,
        60 * 10**6, H - 1, H, 10 * H - 1, 5004999, 5005000, 10 * H, 12 * H - 1, 12 * H, 13 * H, 20 * H + 1, 23 * H,
        23 * H + 59 * 60 * 10**6, SAMI_HI - 10**7, DAY - 10**7, DAY - 2 * 10**6]


def gen_cues(rng, unit, hi, short_ok):
    """sorted non-overlapping cues below hi (24 h; 24 h - 4 s with SAMI).  short_ok (no SAMI on the chain): a cue may be
    shorter than the unit, even inside one unit (it floors to a zero-length cue that must be kept) - neighbours start
    in different units and, with MicroDVD, no cue lies inside frame 0.  Otherwise every cue is at least one unit long.
    Mostly 1-5 cues, sometimes 6-120 (two- and three-digit SRT counters)."""
    n = rng.choice([1, 2, 2, 3, 4, 5]) if rng.random() < 0.955 else rng.choice([6, 9, 10, 11, 12, 13, 30, 60, 120])
    t = rng.choice([0, 0, 1, 999, rng.randrange(10**7), rng.randrange(10**9), rng.randrange(hi), rng.randrange(hi),
                    rng.randrange(12 * H, hi), hi - rng.randrange(1, 3 * 10**7)])
    cues = []
    for _ in range(n):
        if rng.random() < 0.4:
            g = rng.choice(GRID)
            if g >= t:
                t = g
        if short_ok and rng.random() < 0.35:
            d = rng.choice([0, 1, 999, 30000, 39999, unit - 1, rng.randrange(0, unit)])
            if rng.random() < 0.5:
                t = t // unit * unit + rng.choice([0, 0, 1, unit // 4])   # well inside one unit
        else:
            d = max(unit, rng.choice([unit, unit + 1, 2 * unit - 1, 2 * unit, 999999, 10**6, 2500000,
                                      rng.randrange(unit, 10**7)]))
        s = t
        if cues:      # not before the previous end, and in a later unit than the previous start
            s = max(s, cues[-1][1], (cues[-1][0] // unit + 1) * unit)
        e = s + d
        if unit == 40000 and e < 40000:
            s, e = s + 40000, e + 40000          # frame 0 is the recorded finding (separate stream)
        if e >= hi:
            break
        cues.append((s, e))
        t = e + (0 if rng.random() < 0.35 else rng.choice([1, 999, 1000, unit, 123456, rng.randrange(1, 10**7)]))
    if not cues:
        cues = [(40000, 40000 + max(unit, 1000))]
    return cues


def related_cues(rng, first, unit, hi):
    """cues of a further language built around the first language's times: shared starts / ends, a title cue that starts
    before the first language and ends exactly where its first cue begins, cues in the gaps"""
    pts = sorted({t for c in first for t in c})
    out = []
    t0 = pts[0]
    if t0 >= 2 * unit and rng.random() < 0.6:
        a = rng.randrange(0, t0 - unit)
        out.append((a, t0 if rng.random() < 0.7 else rng.randrange(a + unit, t0 + 1)))
    for (s, e) in first:
        r = rng.random()
        if r < 0.4:
            out.append((s, e))
        elif r < 0.6 and e - s >= 2 * unit:
            m = rng.randrange(s + unit, e - unit + 1)
            out.append((s, m))
            if rng.random() < 0.5:
                out.append((m, e))
        elif r < 0.75:
            out.append((s, s + unit))
    res = []
    for (s, e) in out:
        if res and s < res[-1][1]:
            continue
        if e - s >= unit and e < hi:
            res.append((s, e))
    return res or [(first[0][0], first[0][0] + unit)]


STYLES = [{"italics": True}, {"bold": True}, {"underline": True}, {"color": "yellow"}, {"font-family": "serif"},
          {"font-size": "12px"}, {"italics": True, "color": "red"}]
BLANKS = [" ", "\xa0", "  ", "\xa0 "]
LAYOUTS = [(10, 10), (10, 80), (5, 5), (0, 0), (50, 50), (25, 90)]


def layout(k):
    x, y = LAYOUTS[k]
    return Layout(origin=Point(Size(x, UnitEnum.PERCENT), Size(y, UnitEnum.PERCENT)))


def lines_spec(lines):
    spec = []
    for k, ln in enumerate(lines):
        if k:
            spec.append(["b"])
        spec.append(["t", ln])
    return spec


def split_node(rng, content):
    """cut a text into 2-3 non-empty pieces at arbitrary positions (also inside a word or an entity spelling)"""
    if len(content) < 2:
        return [content]
    cuts = sorted(set(rng.randrange(1, len(content)) for _ in range(rng.choice([1, 1, 2]))))
    return [content[a:b] for a, b in zip([0] + cuts, cuts + [len(content)])]


def gen_nodes(rng, no_pipe, counter, node_layout_ok=True):
    """node list of one caption: visible text lines (gen_text) separated by breaks; a line may be cut into SEVERAL text
    nodes (inside words too), with or without a style pair around a piece; between two lines possibly EMPTY lines
    (consecutive breaks) or lines holding only a blank / U+00A0 text node; balanced STYLE node pairs (rendering:
    italics / bold / underline, and non-rendering: colour / font) at arbitrary positions, also between two breaks;
    sometimes a caption-level layout (["L", k] first) or one layout on every node (third field)"""
    lines = gen_text(rng, no_pipe, counter)
    spec = []
    for k, ln in enumerate(lines):
        if k:
            spec.append(["b"])
            while rng.random() < 0.3:
                if rng.random() < 0.5:
                    spec.append(["t", rng.choice(BLANKS)])
                    bump(counter, "blank_only_text_nodes")
                else:
                    bump(counter, "empty_lines_inside_a_caption")
                spec.append(["b"])
        if rng.random() < 0.3:
            pieces = split_node(rng, ln)
            if len(pieces) > 1:
                bump(counter, "lines_cut_into_several_text_nodes")
            wrap = rng.randrange(len(pieces)) if rng.random() < 0.4 else None
            for i, pc in enumerate(pieces):
                if i == wrap:
                    st = rng.choice(STYLES)
                    spec += [["s", True, st], ["t", pc], ["s", False, st]]
                    bump(counter, "style_node_pairs")
                else:
                    spec.append(["t", pc])
        else:
            spec.append(["t", ln])
    for _ in range(rng.choice([0, 0, 0, 1, 1, 2])):
        i = rng.randrange(0, len(spec) + 1)
        j = rng.randrange(i, len(spec) + 1)
        # keep pairs properly nested / sequential: do not cut through an existing pair
        depth = 0
        ok = True
        for x in spec[i:j]:
            if x[0] == "s":
                depth += 1 if x[1] else -1
                if depth < 0:
                    ok = False
        if not ok or depth != 0:
            continue
        st = rng.choice(STYLES)
        spec = spec[:i] + [["s", True, st]] + spec[i:j] + [["s", False, st]] + spec[j:]
        bump(counter, "style_node_pairs")
        if not any(k in st for k in ("italics", "bold", "underline")):
            bump(counter, "style_node_pairs_rendering_no_tag")
    r = rng.random()
    if r < 0.12:
        spec = [["L", rng.randrange(len(LAYOUTS))]] + spec
        bump(counter, "captions_with_a_caption_level_layout")
    elif r < 0.2 and not node_layout_ok:
        bump(counter, "node_layouts_left_out_dfxp_before_vtt_see_shape_stream")
    elif r < 0.2:
        k = rng.randrange(len(LAYOUTS))
        spec = [x + [k] for x in spec]
        bump(counter, "captions_with_one_layout_on_every_node")
    return spec


def node_layout(x):
    n = {"t": 2, "b": 1, "s": 3}[x[0]]
    return layout(x[n]) if len(x) > n else None


def plain_lines(spec):
    """the text lines if the caption is just lines separated by single breaks (no layout), else None"""
    out = []
    expect_text = True
    for x in spec:
        if expect_text and x[0] == "t" and len(x) == 2 and norm_line(x[1]):
            out.append(x[1])
        elif not expect_text and x[0] == "b" and len(x) == 1:
            pass
        else:
            return None
        expect_text = not expect_text
    return out if not expect_text else None


def build(langs):
    """langs: per language (cues, per cue either a list of text lines or a node spec)"""
    d = {}
    for li, (cues, texts) in enumerate(langs):
        caps = []
        for (s, e), spec in zip(cues, texts):
            if spec and isinstance(spec[0], str):
                spec = lines_spec(spec)
            nodes = []
            cap_layout = None
            for x in spec:
                if x[0] == "L":
                    cap_layout = layout(x[1])
                elif x[0] == "t":
                    nodes.append(CaptionNode.create_text(x[1], layout_info=node_layout(x)))
                elif x[0] == "b":
                    nodes.append(CaptionNode.create_break(layout_info=node_layout(x)))
                else:
                    nodes.append(CaptionNode.create_style(bool(x[1]), dict(x[2]), layout_info=node_layout(x)))
            caps.append(Caption(s, e, nodes, layout_info=cap_layout))
        d[LANGS[li]] = CaptionList(caps)
    return CaptionSet(d)


def spec_text(spec):
    """visible text of a node spec, whitespace-normalised as a whole"""
    if spec and isinstance(spec[0], str):
        spec = lines_spec(spec)
    return norm_line("".join("\n" if x[0] == "b" else x[1] if x[0] == "t" else "" for x in spec))


def inline_boundary(spec):
    """two text nodes on one line (no break between them)"""
    prev = False
    for x in spec:
        if x[0] == "t":
            if prev:
                return True
            prev = True
        elif x[0] == "b":
            prev = False
    return False


def squeeze(s):
    return re.sub(r"\s+", "", s)


def run_chain(chain, cs, objs=None):
    """list of per-hop observations (Ok/Err) and the final caption set"""
    trace = []
    for f in chain:
        r = impl.call(lambda: write_read(f, cs, objs))
        if isinstance(r, Err):
            trace.append(r)
            return trace, None
        cs = r.v
        o = impl.call(lambda: observe(cs))
        trace.append(o)
        if isinstance(o, Err):
            return trace, None
    return trace, cs


def reused_difference(chain, langs, t1, t2):
    """the same chain, both passes, with ONE long-lived reader and writer object per format: None if every hop of both
    passes is observed exactly as with fresh objects, else (hop index over both passes, observed with reuse, fresh)"""
    objs = {}
    r1, c1 = run_chain(chain, build(langs), objs)
    r2, _ = run_chain(chain, c1, objs) if c1 is not None else ([], None)
    fresh, reused = t1 + t2, r1 + r2
    for k in range(max(len(fresh), len(reused))):
        a = fresh[k] if k < len(fresh) else None
        b = reused[k] if k < len(reused) else None
        if isinstance(a, Ok) and isinstance(b, Ok) and a.v == b.v:
            continue
        if isinstance(a, Err) and isinstance(b, Err):
            continue
        return (k, show(b) if b is not None else None, show(a) if a is not None else None)
    return None

# ---- wave 7: chains at DOCUMENT level with DFXP hops (request 806 = run_doc, theorem C08_chain_doc_text_four_formats_partial) ----
DOC_WORDS = ["hello", "world", "l'a", "x", "42", "\u00e9\u4e2d", "a\u00a0b", "{1}{2}", "w;", "R-D", "1.5", "NOTE"]
DOC_MARKUP = ["a & b", "<i>x</i>", "1 < 2 > 0", "&amp;", "x]]>y"]


def caps_lines(cs, lang):
    out = []
    for c in cs.get_captions(lang):
        lines, cur = [], []
        for n in c.nodes:
            if n.type_ == CaptionNode.BREAK:
                lines.append("".join(cur))
                cur = []
            elif n.type_ == CaptionNode.TEXT:
                cur.append(n.content or "")
        lines.append("".join(cur))
        out.append([as_int(c.start), as_int(c.end), lines])
    return out


def stream_doc_chains(ctx, res):
    """chains over SRT, WebVTT, DFXP and MicroDVD that contain a DFXP hop, on one language of sorted cues (each at least
    40 ms long) whose text is 1-3 clean lines: the REAL chain (fresh objects) against the model's document-level chain
    run_doc (every hop prints the whole document and reads it back with the reader model - for DFXP the string-level
    XML reader): times AND text lines after the chain must be equal (disagreement otherwise)."""
    rng = ctx.rng
    dist = res["distribution"]
    jobs = []
    for _ in range(ctx.n(60, 2000)):
        chain = [rng.choice([0, 1, 2, 3, 4]) for _ in range(rng.randint(1, 5))]
        chain[rng.randrange(len(chain))] = rng.choice([2, 3])        # round 4: SAMI hops too
        t = rng.choice([0, 1, 999, 40000, 59999999, 3599999000, rng.randrange(0, 80000 * 10**6)])
        caps = []
        for _ in range(rng.choice([1, 2, 3, 5])):
            a = t + rng.choice([0, 1, 39999, 40000, 123456, 10**7])
            b = a + rng.choice([40000, 40001, 79999, 10**6, 59999999])
            t = b
            pool = DOC_WORDS if 1 in chain else DOC_WORDS + DOC_MARKUP
            lines = [" ".join(rng.choice(pool) for _ in range(rng.choice([1, 2, 3]))) for _ in range(rng.choice([1, 1, 2, 3]))]
            if 0 in chain:      # SRT: a line that is only digits would be read as a cue number
                lines = [l if not l.isdigit() else l + " x" for l in lines]
            caps.append([a, b, lines])
        if caps[-1][1] >= 86396000000 or caps[0][1] < 40000:
            continue
        jobs.append((chain, caps))
    outs = oracle_batch([(806, [chain, caps]) for (chain, caps) in jobs])
    ncmp = 0
    for (chain, caps), o in zip(jobs, outs):
        res["evaluations"] += 1
        model = r_result(o)
        cs = build([([(a, b) for (a, b, _) in caps], [ls for (_, _, ls) in caps])])
        _, final = run_chain(chain, cs)
        real = impl.call(lambda: caps_lines(final, "en-US")) if final is not None else Err(0)
        mv = [[a, b, list(ls)] for (a, b, ls) in model.v] if isinstance(model, Ok) else None
        ncmp += 1
        # compared at the level the statement fixes: times exactly (the model floors like the formats do), the text of
        # every caption whitespace-normalised as a whole
        def level(caps_):
            return [[a, b, norm_line("\n".join(ls))] for (a, b, ls) in caps_]
        if isinstance(real, Ok) and mv is not None and real.v != mv and level(real.v) == level(mv):
            bump(dist, "document_level_chains_equal_only_after_whitespace_normalisation")
        if not (isinstance(real, Ok) and mv is not None and level(real.v) == level(mv)):
            res["disagreements"].append({"what": "document-level chain with DFXP hops: model run_doc differs from the real chain",
                                         "chain": [FMT[f] for f in chain], "input": caps, "model": mv if mv is not None else show(model),
                                         "impl": real.v if isinstance(real, Ok) else repr(real)})
        res["nontrivial"].add(("doc-chain", tuple(chain), tuple((a, b) for (a, b, _) in caps)))
    dist["document_level_chains_with_dfxp_hops_compared"] = ncmp
    dist["document_level_chains_with_a_sami_hop"] = sum(1 for (ch, _) in jobs if 3 in ch)

# ---- last round: zero-margin layouts through WebVTT; WebVTT time shift on the writer's own output ----------------------
def stream_last_round(ctx, res):
    """(a) caption sets whose every node carries a Layout with an all-zero Padding - read from SAMI documents whose
    stylesheet sets every margin to 0%, or built through the API (Layout(padding=Padding()), Padding of four 0% sizes) -
    with a line break or an inline span in the cue, chained through WebVTT (alone and followed by SRT), two passes: cue
    count, times (ok_chain) and whitespace-normalised text must be preserved (no cue per text node).
    (b) WebVTTReader(time_shift_milliseconds != 0) on WebVTTWriter output (no blank line at the end): EVERY cue, the
    last included, with and without an hours field, must be shifted by exactly the shift."""
    from pycaption.geometry import Layout, Padding, Size, UnitEnum
    rng = ctx.rng
    dist = res["distribution"]
    z = Size(0, UnitEnum.PERCENT)
    lays = [Layout(padding=Padding()), Layout(padding=Padding(z, z, z, z))]
    words = ["one", "two", "x y", "l'a", "R-D", "\u00e9"]
    n_a = n_b = 0
    for _ in range(ctx.n(30, 600)):
        t = rng.choice([0, 1000, 59999000, 3598000000, 3600000000, rng.randrange(0, 80000) * 10**6])
        cues, specs = [], []
        for _ in range(rng.choice([1, 2, 3])):
            a = t + rng.choice([1000, 2000, 123000])
            b = a + rng.choice([1000, 2500, 4000000])
            t = b
            cues.append((a, b))
            specs.append(rng.choice(["br", "span", "both", "plain"]))
        if all(sp == "plain" for sp in specs):
            specs[0] = "br"
        texts = [[rng.choice(words) for _ in range(3)] for _ in cues]
        via_sami = rng.random() < 0.5
        if via_sami:
            body = []
            for (a, b), sp, w in zip(cues, specs, texts):
                inner = {"br": "%s<br/>%s" % (w[0], w[1]), "span": '%s <span style="font-style:italic">%s</span> %s' % tuple(w),
                         "both": '%s<br/><span style="font-style:italic">%s</span> %s' % tuple(w), "plain": w[0]}[sp]
                body.append("<SYNC start=%d><P class=ENCC>%s</P></SYNC>\n<SYNC start=%d><P class=ENCC>&nbsp;</P></SYNC>"
                            % (a // 1000, inner, b // 1000))
            doc = ('<SAMI><HEAD><TITLE>t</TITLE><STYLE TYPE="text/css"><!--\nP { margin-left: 0%; margin-right: 0%; '
                   'margin-top: 0%; margin-bottom: 0%; text-align: center; }\n.ENCC {Name: English; lang: en-US; SAMI_Type: CC;}\n--></STYLE>'
                   '</HEAD><BODY>\n' + "\n".join(body) + "\n</BODY></SAMI>")
            made = impl.call(lambda: SAMIReader().read(doc))
        else:
            lay = rng.choice(lays)

            def mk():
                caps = []
                for (a, b), sp, w in zip(cues, specs, texts):
                    T = lambda x: CaptionNode.create_text(x, layout_info=lay)
                    B = lambda: CaptionNode.create_break(layout_info=lay)
                    S = lambda on: CaptionNode.create_style(on, {"italics": True}, layout_info=lay)
                    nodes = {"br": [T(w[0]), B(), T(w[1])], "span": [T(w[0] + " "), S(True), T(w[1]), S(False), T(" " + w[2])],
                             "both": [T(w[0]), B(), S(True), T(w[1]), S(False), T(" " + w[2])], "plain": [T(w[0])]}[sp]
                    caps.append(Caption(a, b, nodes, layout_info=lay))
                return CaptionSet({"en-US": CaptionList(caps, layout_info=lay)}, layout_info=lay)
            made = impl.call(mk)
        res["evaluations"] += 1
        if not isinstance(made, Ok):
            res["disagreements"].append({"what": "last-round set could not be built", "error": repr(made)})
            continue
        o0 = impl.call(lambda: observe(made.v))
        want_t, want_x = o0.v["en-US"] if isinstance(o0, Ok) and "en-US" in o0.v else ([], [])
        for chain in ([1], [1, 0]):
            n_a += 1
            t1, c1 = run_chain(chain, made.v)
            t2, _ = run_chain(chain, c1) if c1 is not None else ([], None)
            f1, f2 = final_times(t1, 0, len(chain)), final_times(t2, 0, len(chain))
            ok = oracle1(802, [chain, [list(c) for c in want_t], f1, f2]) == 1
            tx = [o.v["en-US"][1] if isinstance(o, Ok) and "en-US" in o.v else None for o in t1 + t2]
            if not ok or any(x != want_x for x in tx):
                res["violations"].append({
                    "kind": "zero-padding-layout-through-vtt", "chain": [FMT[f] for f in chain], "replay": "none",
                    "what": "set with all-zero Padding layouts (%s; cues %s, shapes %s) through %s: times %s / %s, texts %s; "
                            "expected %s cues with texts %s" % ("read from SAMI" if via_sami else "built through the API",
                                                                want_t, specs, "->".join(FMT[f] for f in chain), show(f1),
                                                                show(f2), tx, len(want_t), want_x),
                    "input": [want_t, specs]})
        # (b)
        sh = rng.choice([1, -1, 999, -999, 1500, 3600000, -3600000, 12345])
        doc_v = impl.call(lambda: WebVTTWriter().write(made.v))
        if isinstance(doc_v, Ok):
            n_b += 1
            got = impl.call(lambda: [[as_int(c.start), as_int(c.end)]
                                     for c in WebVTTReader(time_shift_milliseconds=sh, ignore_timing_errors=True)
                                     .read(doc_v.v, lang="en-US").get_captions("en-US")])
            exp = [[a // 1000 * 1000 + sh * 1000, b // 1000 * 1000 + sh * 1000] for (a, b) in want_t]
            if not (isinstance(got, Ok) and got.v == exp):
                res["violations"].append({
                    "kind": "vtt-time-shift-on-writer-output", "chain": ["vtt"], "replay": "none",
                    "what": "WebVTTReader(time_shift_milliseconds=%d) on WebVTTWriter output (ends %r) returned %s, every cue "
                            "shifted would be %s" % (sh, doc_v.v[-12:], got.v if isinstance(got, Ok) else repr(got), exp),
                    "input": [want_t, sh]})
    dist["zero_padding_layout_chains_through_webvtt"] = n_a
    dist["webvtt_writer_documents_read_with_a_time_shift"] = n_b


def run(ctx):
    rng = ctx.rng
    res = {"evaluations": 0, "nontrivial": set(), "violations": [], "disagreements": [], "distribution": {},
           "streams": 4, "notes": [], "samples": []}
    dist = res["distribution"]
    NONINT[0] = 0
    jobs = []
    pairs = list(itertools.product(range(5), repeat=2))
    per_pair = ctx.n(58, 600)
    for (a, b) in pairs:
        for _ in range(per_pair):
            jobs.append([a, b])
    for _ in range(ctx.n(560, 10000)):
        jobs.append([rng.randrange(5) for _ in range(rng.randint(3, 6))])
    for x in range(5):                # order-sensitive 3-hop chains around the WebVTT / SRT pair
        for tail in ([1, 0], [0, 1]):
            for _ in range(ctx.n(8, 120)):
                jobs.append([x] + tail)
    n_multi = ctx.n(140, 3000)       # chains that stay within DFXP / SAMI, always with 2-3 interleaved languages
    for _ in range(n_multi):
        jobs.append([rng.choice([2, 3]) for _ in range(rng.randint(1, 5))])
    multi_from = len(jobs) - n_multi
    reqs_t, reqs_e, work = [], [], []
    for jn, chain in enumerate(jobs):
        unit = 40000 if 4 in chain else 1000
        hi = hi_of(chain)
        multi = all(f in (2, 3) for f in chain) and (rng.random() < 0.5 or jn >= multi_from)
        nl = rng.choice([2, 3]) if multi else 1
        langs = []
        for k in range(nl):
            cues = gen_cues(rng, unit, hi, 3 not in chain)
            if k and rng.random() < 0.6:
                cues = related_cues(rng, langs[0][0], unit, hi)
            nl_ok = not (2 in chain and 1 in chain[chain.index(2):])
            langs.append((cues, [gen_nodes(rng, 4 in chain, dist, nl_ok) for _ in cues]))
            if any(e - s0 < unit for (s0, e) in cues):
                bump(dist, "sets_with_a_cue_shorter_than_the_unit")
            if any(s0 // unit == e // unit for (s0, e) in cues):
                bump(dist, "sets_with_a_cue_inside_one_unit")
            if len(cues) > 5:
                bump(dist, "languages_with_6_to_120_cues")
            if cues[-1][1] >= 12 * H:
                bump(dist, "languages_reaching_beyond_12_h")
            if cues[-1][1] >= 23 * H:
                bump(dist, "languages_reaching_beyond_23_h")
        cs = build(langs)
        t1, cs1 = run_chain(chain, cs)
        t2, cs2 = run_chain(chain, cs1) if cs1 is not None else ([], None)
        if nl > 1 or rng.random() < 0.2:
            # history: one reader and one writer object per format for all hops and the second pass - same result
            bump(dist, "chains_also_run_with_one_long_lived_reader_and_writer_per_format")
            if nl > 1:
                bump(dist, "multi_language_chains_also_run_with_long_lived_objects")
            rd = reused_difference(chain, langs, t1, t2)
            res["evaluations"] += 1
            if rd is not None:
                res["violations"].append({
                    "kind": "reused-objects", "chain": [FMT[f] for f in chain], "chain_codes": chain, "lang_index": 0,
                    "input": [[[list(c) for c in cu], tx] for (cu, tx) in langs], "replay": "chain", "reused": True,
                    "what": "chain %s run twice with ONE reader and writer object per format: hop %d (counted over both "
                            "passes) gives %s; with fresh objects per hop %s" % ("->".join(FMT[f] for f in chain), rd[0],
                                                                                  rd[1], rd[2])})
        extra = extra_languages(t1 + t2, len(langs))
        if extra:
            res["violations"].append({
                "kind": "languages", "chain": [FMT[f] for f in chain], "chain_codes": chain, "lang_index": 0,
                "input": [[[list(c) for c in cu], tx] for (cu, tx) in langs], "replay": "chain",
                "what": "chain %s: languages %s appear that the set does not have" % ("->".join(FMT[f] for f in chain),
                                                                                     extra)})
        for li, (cues, texts) in enumerate(langs):
            work.append((chain, langs, li, cues, texts, t1, t2))
            reqs_t.append((800, [chain, [list(c) for c in cues]]))
            reqs_e.append((801, [chain, [list(c) for c in cues]]))
    traces = oracle_batch(reqs_t)
    exps = oracle_batch(reqs_e)
    ok_reqs = []
    for (chain, langs, li, cues, texts, t1, t2), ex in zip(work, exps):
        p1 = final_times(t1, li, len(chain))
        p2 = final_times(t2, li, len(chain))
        ok_reqs.append((802, [chain, [list(c) for c in cues], p1, p2]))
    oks = oracle_batch(ok_reqs)
    lens = {}
    for (chain, langs, li, cues, texts, t1, t2), tr, ex, ok in zip(work, traces, exps, oks):
        res["evaluations"] += 1
        lens[len(chain)] = lens.get(len(chain), 0) + 1
        if ex[1] != 1:
            bump(dist, "out_of_domain_dropped")
            continue
        res["nontrivial"].add((tuple(chain), tuple(cues)))
        rec = {"chain": [FMT[f] for f in chain], "chain_codes": chain, "lang_index": li,
               "input": [[[list(c) for c in cu], tx] for (cu, tx) in langs], "expected": ex[0], "replay": "chain"}
        bad_text = text_mismatch(t1 + t2, li, texts)
        if ok != 1:
            v = dict(rec)
            kind = "times"
            f1, f2 = final_times(t1, li, len(chain)), final_times(t2, li, len(chain))
            if 1 in chain and any(has_layout(sp) for sp in texts) and isinstance(f1, Ok) and isinstance(f2, Ok) \
                    and len(f1.v) > len(cues) and oracle1(802, [chain, [list(c) for c in cues], Ok(dedupe(f1.v)),
                                                                Ok(dedupe(f2.v))]) == 1:
                kind = "vtt-layout-split"
            bump(dist, "main_stream_" + kind)
            v.update({"kind": kind, "what": "chain %s on %s: times after pass 1 %s / pass 2 %s; the statement demands "
                                               "the original times to the chain's resolution (model: %s) twice" % (
                "->".join(rec["chain"]), cues, show(final_times(t1, li, len(chain))),
                show(final_times(t2, li, len(chain))), ex[0])})
            res["violations"].append(v)
            continue
        if bad_text is not None:
            v = dict(rec)
            kind = text_kind(chain, texts, bad_text)
            bump(dist, "main_stream_" + kind)
            v.update({"kind": kind, "what": "chain %s: text of caption %s after hop %d is %r, written %r" % (
                "->".join(rec["chain"]), bad_text[1], bad_text[0], bad_text[2], bad_text[3])})
            res["violations"].append(v)
        # correspondence: every hop of pass 1 against the model trace, at the resolution reached so far (a hop that keeps
        # more precision than the model's is not a failure: counted)
        mt = [r_result(x) for x in tr]
        ot = [hop_times(o, li) for o in t1]
        if 1 in chain and any(has_layout(sp) for sp in texts):      # WebVTT may write one cue per layout group
            ot2 = [Ok(dedupe(o.v)) if isinstance(o, Ok) else o for o in ot]
            if any(isinstance(a, Ok) and a.v != b.v for a, b in zip(ot, ot2)):
                bump(dist, "chains_with_cues_repeated_per_layout_group_at_some_hop")
            ot = ot2
        bad = len(mt) != len(ot)
        for k, (a, b) in enumerate(zip(mt, ot)):
            u = 40000 if 4 in chain[:k + 1] else 1000
            if not same(floored(a, u), floored(b, u)):
                bad = True
            elif not same(a, b):
                bump(dist, "hops_with_other_precision_than_model")
        if bad:
            res["disagreements"].append({"chain": rec["chain"], "cues": cues, "model": [show(x) for x in mt],
                                         "impl": [show(x) for x in ot]})
    dist.setdefault("hops_with_other_precision_than_model", 0)
    dist["non_integer_times_observed_and_floored"] = NONINT[0]
    stream_shapes(ctx, res)
    stream_doc_chains(ctx, res)
    stream_last_round(ctx, res)
    # the string-level MicroDVD writer model (request 803) against the real writer, on the generated single-language sets
    # whose captions are lines separated by single breaks (a difference is a correspondence disagreement)
    mw, skipped = [], 0
    for (chain, langs, li, cues, texts, t1, t2) in work:
        if len(langs) != 1 or 4 not in chain:
            continue
        pl = [mdvd_lines(sp) for sp in langs[0][1]]
        if any(x is None for x in pl):
            skipped += 1
            continue
        mw.append((langs[0][0], pl, langs[0][1]))
    mw = mw[:ctx.n(600, 6000)]
    docs = []
    for i in range(0, len(mw), 200):
        docs += oracle_batch([(803, [[c[0], c[1], tx] for c, tx in zip(cu, txs)]) for (cu, txs, sp) in mw[i:i + 200]])
    ndiff = 0
    for (cu, txs, sp), d in zip(mw, docs):
        real = impl.call(lambda: MicroDVDWriter().write(build([(cu, sp)])))
        if not (isinstance(real, Ok) and real.v == d):
            ndiff += 1
            res["disagreements"].append({"what": "MicroDVD writer model document differs from the real writer's",
                                         "cues": cu, "texts": txs, "model": d, "impl": show(real)})
    dist["mdvd_documents_compared_with_writer_model"] = len(mw)
    dist["mdvd_documents_differing_from_writer_model"] = ndiff
    dist["mdvd_documents_not_compared_lf_or_cr_inside_a_text_node"] = skipped
    # the string-level SRT writer model (request 804, theorem C08_srt_roundtrip_string) against the real writer, on the
    # generated single-language sets with SRT on the chain whose captions are clean lines (the model's domain: no blank
    # at either end of a line, no empty line, no LF / CR inside, consecutive cues with different spans)
    sw, sskip = [], 0
    for (chain, langs, li, cues, texts, t1, t2) in work:
        if len(langs) != 1 or 0 not in chain:
            continue
        pl = [mdvd_lines(sp) for sp in langs[0][1]]
        if any(x is None or any((not l) or l != l.strip() for l in x) for x in pl) \
                or any(a == b for a, b in zip(langs[0][0], langs[0][0][1:])):
            sskip += 1
            continue
        sw.append((langs[0][0], pl, langs[0][1]))
    sw = sw[:ctx.n(400, 4000)]
    sdocs = []
    for i in range(0, len(sw), 200):
        sdocs += oracle_batch([(804, [[c[0], c[1], tx] for c, tx in zip(cu, txs)]) for (cu, txs, sp) in sw[i:i + 200]])
    sdiff = 0
    for (cu, txs, sp), d in zip(sw, sdocs):
        real = impl.call(lambda: SRTWriter().write(build([(cu, sp)])))
        if not (isinstance(real, Ok) and real.v == d):
            sdiff += 1
            res["disagreements"].append({"what": "SRT writer model document differs from the real writer's",
                                         "cues": cu, "texts": txs, "model": d, "impl": show(real)})
    dist["srt_documents_compared_with_writer_model"] = len(sw)
    dist["srt_documents_differing_from_writer_model"] = sdiff
    dist["srt_documents_not_compared_outside_the_clean_line_domain"] = sskip
    # the string-level WebVTT writer model (request 805, theorem C08_vtt_roundtrip_string; escaping included) against the
    # real writer, on the generated single-language sets with WebVTT on the chain whose captions are plain lines (one text
    # node per line, single breaks, no style, no layout; any characters)
    vw, vskip = [], 0
    for (chain, langs, li, cues, texts, t1, t2) in work:
        if len(langs) != 1 or 1 not in chain:
            continue
        pl = [plain_lines(sp) for sp in langs[0][1]]
        if any(x is None for x in pl):
            vskip += 1
            continue
        vw.append((langs[0][0], pl, langs[0][1]))
    vw = vw[:ctx.n(400, 4000)]
    vdocs = []
    for i in range(0, len(vw), 200):
        vdocs += oracle_batch([(805, [[c[0], c[1], tx] for c, tx in zip(cu, txs)]) for (cu, txs, sp) in vw[i:i + 200]])
    vdiff = 0
    for (cu, txs, sp), d in zip(vw, vdocs):
        real = impl.call(lambda: WebVTTWriter().write(build([(cu, sp)])))
        if not (isinstance(real, Ok) and real.v == d):
            vdiff += 1
            res["disagreements"].append({"what": "WebVTT writer model document differs from the real writer's",
                                         "cues": cu, "texts": txs, "model": d, "impl": show(real)})
    dist["vtt_documents_compared_with_writer_model"] = len(vw)
    dist["vtt_documents_differing_from_writer_model"] = vdiff
    dist["vtt_documents_not_compared_styles_layouts_or_several_nodes_per_line"] = vskip
    dist["chain_length_histogram"] = lens
    dist["pairs"] = len(pairs)
    dist["sets_per_pair"] = per_pair
    res["rule"] = ("all 25 ordered format pairs x %d caption sets, the ten 3-hop chains X->vtt->srt / X->srt->vtt, sampled "
                   "chains of length 3-6 and chains within DFXP/SAMI with 2-3 interleaved languages, two passes; sets of "
                   "1-5 (4.5%%: 6-120) sorted non-overlapping cues anywhere below 24 h (with SAMI: below 24 h - 4 s); with "
                   "SAMI on the chain every cue is at least one unit long (1 ms, 40 ms with MicroDVD), otherwise cues may "
                   "be shorter than the unit or lie inside one unit (kept as a zero-length cue) while neighbours start in "
                   "different units and no cue lies inside MicroDVD frame 0; starts on ms / frame / hour boundaries +-1. "
                   "Captions are node lists: 1-3 visible text lines mixing plain words with adversarial atoms (entity "
                   "spellings, bare & < >, quotes, '-->', markup look-alikes, digits-only lines, braces, timing-line "
                   "look-alikes, leading/trailing/multiple blanks, inner tabs, non-ASCII) and atoms holding a line-break "
                   "character (LF CR CRLF VT FF FS GS RS NEL LS PS); a line may be cut into several text nodes (inside "
                   "words), with or without a style pair; EMPTY lines, blank / U+00A0-only text nodes; balanced STYLE "
                   "pairs anywhere; a caption-level layout or one layout on every node; '|' is replaced (counted) exactly "
                   "when the chain has a MicroDVD hop. One language unless the chain stays within DFXP/SAMI (else: "
                   "shape stream). Compared: times by Coq ok_chain; visible text of the whole caption, "
                   "whitespace-normalised; no further language; every multi-language chain and 20 %% of the others also "
                   "with one long-lived reader / writer object per format for all hops and both passes: same observations. "
                   "stream_shapes: the shapes the real code does not "
                   "preserve, generated every run, reported under failure-keyed kinds. Non-trivial: every distinct "
                   "(chain, cue list) in the domain." % per_pair)
    res["clauses"] = {
        "theorem": ["projection algebra (spec-internal): pi_F idempotent, two hops = coarser resolution, every chain = "
                    "closed form, chain twice = once",
                    "DFXP hop at DOCUMENT level (wave 7): the whole written document read back by the string-level reader model "
                    "returns every caption floored to the ms with its text lines (C08_dfxp_roundtrip_string); every chain "
                    "of SRT / MicroDVD / WebVTT / DFXP document hops = closed-form times and unchanged text lines "
                    "(C08_chain_doc_text_four_formats_partial)",
                    "SAMI hop at DOCUMENT level (round 4): C08_sami_roundtrip_string; every chain of document hops over all FIVE "
                    "formats = the spec's times and unchanged text lines (C08_chain_doc_text_five_formats_partial)",
                    "token level: writer model then reader model = floor to the format's unit (SRT, WebVTT, DFXP, MicroDVD)",
                    "cue-list level incl. SRT merge loop and SAMI sync rule + back-filling: a model hop is pi_F on the "
                    "domain; a chain of model hops is the closed form; a SECOND chain of model hops returns the same "
                    "list (C08_chain_model_second_pass); the two model passes satisfy the oracle "
                    "(C08_chain_model_meets_oracle)",
                    "string level, MicroDVD, SRT and WebVTT (C08_vtt_roundtrip_string, C08_chain_doc_text_three_formats): reader model o writer model (whole documents incl. text lines) = times "
                    "floored, text lines unchanged (C08_mdvd_roundtrip_string, C08_srt_roundtrip_string); every chain of "
                    "SRT / MicroDVD document hops: closed-form times AND text (C08_chain_doc_text)"],
        "correspondence_only": ["text through DFXP, SAMI and outside the clean-line domain (WebVTT: lines with & < >)", "document level of DFXP, SAMI "
                                "writer / reader pairs",
                                "several languages inside one DFXP / SAMI document do not disturb each other (the set-level "
                                "theorem converts each language on its own BY DEFINITION)",
                                "the second pass of the real code"]}
    res["samples"] = [{"chain": [FMT[f] for f in work[0][0]], "cues": work[0][3], "text": work[0][4]}]
    return res


def extra_languages(trace, nl):
    out = set()
    for o in trace:
        if isinstance(o, Ok):
            for l, (times, _) in o.v.items():
                if l not in LANGS[:nl] and times:
                    out.add(l)
    return sorted(out)


def edge_linebreak(spec):
    """a text node that begins or ends with LF / CR and has another node next to it on that side"""
    for i, x in enumerate(spec):
        if x[0] == "t" and x[1]:
            if x[1][0] in "\r\n" and i > 0 and spec[i - 1][0] != "b":
                return True
            if x[1][-1] in "\r\n" and i + 1 < len(spec) and spec[i + 1][0] != "b":
                return True
    return False


def text_kind(chain, texts, bad):
    """failure-keyed kinds; both need: the observed text equals the written one once ALL whitespace is removed.
    text-sami-blank-at-node-boundary: SAMIWriter puts a blank after every text node / span end (pinned by the library's
    fixtures): SAMI on the chain, the caption has two text nodes on one line.
    text-linebreak-at-text-node-edge: DFXP / SAMI round trips drop a LF / CR at the edge of a text node next to a span:
    DFXP or SAMI on the chain, the caption has such a node, the observed text is the shorter one."""
    hop, ci, got, want = bad
    if ci is None or not isinstance(got, str) or squeeze(got) != squeeze(want) or isinstance(texts[ci][0], str):
        return "text"
    spec = [x for x in texts[ci] if x[0] != "L"]
    if (2 in chain or 3 in chain) and edge_linebreak(spec) and len(got) < len(want):
        return "text-linebreak-at-text-node-edge"
    if 3 in chain and inline_boundary(spec):
        return "text-sami-blank-at-node-boundary"
    return "text"


def has_layout(spec):
    return any(x[0] == "L" or len(x) > {"t": 2, "b": 1, "s": 3}[x[0]] for x in spec if not isinstance(x, str))


def dedupe(times):
    out = []
    for t in times:
        if not out or out[-1] != t:
            out.append(t)
    return out


def mdvd_lines(spec):
    """the caption's lines as the MicroDVD writer sees them (text nodes of a line concatenated, style nodes and layout
    ignored), or None if a text node holds LF / CR (written as a further line break)"""
    lines, cur = [], []
    for x in spec:
        if x[0] == "b":
            lines.append("".join(cur))
            cur = []
        elif x[0] == "t":
            if "\n" in x[1] or "\r" in x[1]:
                return None
            cur.append(x[1])
    lines.append("".join(cur))
    return lines


# ---- shapes outside what the real code preserves: generated in every run, kinds keyed on the failure -------------------

BLANK_LINE_SPECS = [[["t", "a\n\nb"]], [["t", "a\r\rb"]], [["t", "a\n"], ["b"], ["t", "b"]], [["t", "a"], ["b"], ["t", "\nb"]],
                    [["t", "a\n"], ["t", "\nb"]], [["t", "a\r\n\r\nb"]], [["t", "one\n\ntwo"], ["b"], ["t", "three"]]]


def shape_case(rng):
    """(shape, chain, langs)"""
    k = rng.randrange(10)
    w = lambda i: [["t", "w%d" % i]]
    if k == 0:      # a cue inside MicroDVD frame 0 is written {0}{0}text = the frame-rate header spelling
        e = rng.randrange(2, 40000)
        s = rng.randrange(0, e)
        a = 40000 + rng.randrange(0, 10**6)
        cues = [(s, e), (a, a + 40000 + rng.randrange(10**6))]
        first = [["t", rng.choice(["42", "25", "23.976", "1", "30"])]] if rng.random() < 0.4 else w(0)
        return "mdvd-frame0", [4] + [rng.randrange(5) for _ in range(rng.randint(0, 2))], [(cues, [first, w(1)])]
    if k == 1:      # two cues inside one millisecond / one frame collapse to equal spans; the SRT writer merges them
        if rng.random() < 0.5:
            base = rng.randrange(1, 10**6) * 1000
            cues = [(base + 100, base + 400), (base + 500, base + 900), (base + 5000, base + 9000)]
            chain = [rng.choice([1, 2]), 0]
        else:
            base = rng.randrange(1, 10**5) * 40000
            cues = [(base + 100, base + 10000), (base + 20000, base + 39000), (base + 10**6, base + 2 * 10**6)]
            chain = [4, 0]
        return "merged-by-srt", chain, [(cues, [w(0), w(1), w(2)])]
    if k == 2:      # a cue shorter than 1 ms through SAMI: blank sync at its own start ms
        base = rng.randrange(1, 10**6) * 1000
        cues = [(base + 100, base + 400), (base + 2000, base + 3000)]
        return "sami-end", [3], [(cues, [w(0), w(1)])]
    if k == 3:      # 1 ms <= cue < one frame with SAMI and MicroDVD on the chain: zero-length cue reaches the SAMI writer
        base = rng.randrange(1, 10**5) * 40000
        d = rng.choice([1000, 10000, 39000, rng.randrange(1000, 39001)])
        o = rng.randrange(0, 40000 - d)
        cues = [(base + o, base + o + d), (base + 100000, base + 200000 + rng.randrange(10**6))]
        chain = rng.choice([[3, 4], [4, 3], [3, 4, rng.randrange(5)], [2, 4, 3]])
        return "sami-mdvd-short", chain, [(cues, [w(0), w(1)])]
    if k in (4, 5):  # several languages through a format that carries one
        f = rng.choice([0, 1, 4])
        unit = 40000 if f == 4 else 1000
        pre = rng.choice([[], [], [2], [3]])
        hi = hi_of(pre + [f])
        first = gen_cues(rng, unit, hi, False)[:4]
        langs = [(first, [[["t", "e%d" % i]] for i in range(len(first))])]
        for li in range(1, rng.choice([2, 2, 3])):
            cu = related_cues(rng, first, unit, hi) if rng.random() < 0.6 else gen_cues(rng, unit, hi, False)[:4]
            langs.append((cu, [[["t", "%s%d" % ("fd"[li - 1], i)]] for i in range(len(cu))]))
        return "multi-language", pre + [f], langs
    if k == 6:      # nodes of one caption with different layouts: WebVTTWriter writes one cue per layout group
        n = rng.choice([2, 2, 3])
        ks = rng.sample(range(len(LAYOUTS)), n)
        spec = []
        for i, lk in enumerate(ks):
            if i:
                spec.append(["b", ks[i - 1]])
            spec.append(["t", "g%d" % i, lk])
        base = rng.randrange(1, 10**6) * 1000
        cues = [(base, base + 10**6), (base + 2 * 10**6, base + 3 * 10**6)]
        return "vtt-layout-split", [1] + rng.choice([[], [1], [2]]), [(cues, [spec, w(1)])]
    base = rng.randrange(1, 10**6) * 1000
    cues = [(base, base + 10**6), (base + 2 * 10**6, base + 3 * 10**6)]
    if k == 7:      # a text node (with its neighbours) that puts an empty line into the cue: written verbatim
        spec = rng.choice(BLANK_LINE_SPECS)
        f = 0 if any("\r\r" in x[1] for x in spec if x[0] == "t") and rng.random() < 0.5 else 1
        return "blank-line-in-text-node", [f], [(cues, [spec, w(1)])]
    if k == 8:      # one layout on every node through DFXP and then WebVTT: the DFXP reader gives text and style nodes
        lk = rng.randrange(len(LAYOUTS))       # different layouts, the WebVTT writer cuts the cue between them
        st = rng.choice(STYLES)
        spec = rng.choice([
            [["t", "un", lk], ["s", True, st, lk], ["t", "believ", lk], ["s", False, st, lk], ["t", "able", lk]],
            [["t", "one", lk], ["b", lk], ["s", True, st, lk], ["t", "two", lk], ["s", False, st, lk]],
            [["t", "<s", lk], ["s", True, st, lk], ["s", False, st, lk], ["t", "pan>", lk]]])
        return "vtt-layout-split", [2, 1] + rng.choice([[], [1]]), [(cues, [spec, w(1)])]
    # LF / CR at the edge of a text node, next to another node
    lb = rng.choice(["\n", "\r", "\r\n"])
    st = rng.choice(STYLES)
    spec = rng.choice([
        [["t", "p" + lb], ["t", "q"]], [["t", "p"], ["t", lb + "q"]],
        [["t", "p"], ["s", True, st], ["t", lb + "q"], ["s", False, st]],
        [["s", True, st], ["t", "p" + lb], ["s", False, st], ["t", "q"]],
        [["s", True, st], ["t", "p"], ["s", False, st], ["t", lb + "q"]],
        [["t", "p" + lb], ["s", True, st], ["t", "q"], ["s", False, st]]])
    return "linebreak-at-node-edge", [rng.randrange(5)] + rng.choice([[], [rng.randrange(5)]]), [(cues, [spec, w(1)])]


def near(a, b, u):
    return abs(a - b) < u


def run_shape(shape, chain, langs):
    """(deviates, kind, observation).  The kind is a known one only if the observation IS that failure (times AND text)"""
    cs = build(langs)
    t1, cs1 = run_chain(chain, cs)
    t2, cs2 = run_chain(chain, cs1) if cs1 is not None else ([], None)
    n = len(chain)
    unit = 40000 if 4 in chain else 1000
    want_t = [[spec_text(sp) for sp in tx] for (cu, tx) in langs]
    exps = [oracle1(801, [chain, [list(c) for c in cu]])[0] for (cu, tx) in langs]
    fin1 = [final_times(t1, li, n) for li in range(len(langs))]
    fin2 = [final_times(t2, li, n) for li in range(len(langs))]
    oks = [oracle1(802, [chain, [list(c) for c in cu], fin1[li], fin2[li]]) for li, (cu, tx) in enumerate(langs)]
    txt = [text_mismatch(t1 + t2, li, tx) for li, (cu, tx) in enumerate(langs)]
    extra = extra_languages(t1 + t2, len(langs))
    obs = {"pass1": [show(x) for x in t1[-1:]], "pass2": [show(x) for x in t2[-1:]]}
    if all(o == 1 for o in oks) and all(x is None for x in txt) and not extra:
        return False, None, obs
    kind = shape + "-unexpected"
    cues, texts = langs[0]
    wt = want_t[0]
    last1 = t1[-1] if len(t1) == n and isinstance(t1[-1], Ok) else None
    last2 = t2[-1] if len(t2) == n and isinstance(t2[-1], Ok) else None
    o1 = last1.v.get(LANGS[0], ([], [])) if last1 else None
    o2 = last2.v.get(LANGS[0], ([], [])) if last2 else None
    exp = exps[0]
    if shape == "mdvd-frame0":
        if t1 and isinstance(t1[0], Err) and t1[0].code == 3 and not re.fullmatch(r"[0-9.]+", wt[0]):
            kind = "short-cue-mdvd-frame0"       # {0}{0}w0 is taken for the header and is no number
        elif re.fullmatch(r"[0-9.]+", wt[0]) and isinstance(t1[0], Ok) and len(t1[0].v.get(LANGS[0], ([], []))[0]) == 1 \
                and t1[0].v[LANGS[0]][1] == wt[1:]:
            kind = "short-cue-mdvd-frame0"       # {0}{0}42 is taken for a frame rate: cue gone, the rest re-timed
    elif shape == "merged-by-srt" and o1 and o2 and o1 == o2:
        if o1[0] == [exp[0]] + exp[2:] and o1[1] == [wt[0] + " " + wt[1]] + wt[2:]:
            kind = "short-cue-merged-by-srt"
    elif shape == "sami-end" and o1 and o2 and o1 == o2:
        if len(o1[0]) == 2 and o1[0][1][0] == exp[1][0] and o1[0][0] == [exp[0][0], exp[1][0]] and o1[1] == wt:
            kind = "short-cue-sami-end"
    elif shape == "sami-mdvd-short" and o1 and o2:
        good = True
        dev = False
        for o in (o1, o2):
            good = good and len(o[0]) == len(cues) and o[1] == wt
            if not good:
                break
            for i, (c, x) in enumerate(zip(cues, o[0])):
                good = good and near(c[0], x[0], unit)
                if i + 1 < len(cues) and not near(c[1], x[1], unit):
                    dev = True
                    good = good and c[1] - c[0] < 40000 and x[1] == o[0][i + 1][0]
        if good and (dev or o1 != o2):
            kind = "short-cue-sami-zero-length-end"
    elif shape == "multi-language" and o1 and sorted(l for l in last1.v if last1.v[l][0]) == [LANGS[0]]:
        # classified on the first pass (a second pass may merge the appended cues further)
        # everything arrives under the reader's language; a SAMI hop before may have re-ordered the languages
        f = chain[-1]
        starts_ok = lambda ts, cs: len(ts) == len(cs) and all(near(t[0], c[0], unit) for t, c in zip(ts, cs))
        stamp = r"\d\d:\d\d:\d\d,\d\d\d"
        for perm in itertools.permutations(range(len(langs))):
            if f == 1:      # only the first language is written
                cu = langs[perm[0]][0]
                if oracle1(802, [chain, [list(c) for c in cu], Ok(o1[0]), Ok(o1[0])]) == 1 and o1[1] == want_t[perm[0]]:
                    kind = "multi-language-vtt-dropped"
            elif f == 4:    # all languages' cues in one list
                if starts_ok(o1[0], [c for k in perm for c in langs[k][0]]) and o1[1] == [x for k in perm for x in want_t[k]]:
                    kind = "multi-language-mdvd-appended"
            elif f == 0:    # the marker line, the counter and the timing line of the next language become caption text
                cs_, pats = list(langs[perm[0]][0]), [re.escape(x) for x in want_t[perm[0]]]
                for k in perm[1:]:
                    pats[-1] += " MULTI-LANGUAGE SRT 1 %s --> %s " % (stamp, stamp) + re.escape(want_t[k][0])
                    pats += [re.escape(x) for x in want_t[k][1:]]
                    cs_ += list(langs[k][0][1:])
                if starts_ok(o1[0], cs_) and all(re.fullmatch(pt, x) for pt, x in zip(pats, o1[1])):
                    kind = "multi-language-srt-text-growth"
    elif shape == "vtt-layout-split" and o1 and o2:
        # the caption's cue is repeated (one cue per layout group) and the text is spread over the copies
        n1 = len(o1[0]) - len(cues) + 1
        if n1 >= 1 and dedupe(o1[0]) == dedupe(o2[0]) and len(dedupe(o1[0])) == len(cues) \
                and all(near(t[0], c[0], unit) and near(t[1], c[1], unit) for t, c in zip(dedupe(o1[0]), cues)) \
                and squeeze("".join(o1[1][:n1])) == squeeze(wt[0]) and o1[1][n1:] == wt[1:] \
                and (n1 > 1 or o1[1][0] != wt[0]):
            kind = "vtt-layout-split"
    elif shape == "linebreak-at-node-edge" and all(o == 1 for o in oks) and not extra and txt[0] is not None:
        kind = text_kind(chain, texts, txt[0])
    elif shape == "blank-line-in-text-node" and o1 and o2 and o1 == o2:
        if 1 <= len(o1[0]) <= len(cues) and near(o1[0][0][0], cues[0][0], unit) and o1[1][0] != wt[0] \
                and o1[1][0] and wt[0].startswith(o1[1][0]) and o1[1][1:] == wt[1:len(o1[0])]:
            kind = "blank-line-in-text-node"
    return True, kind, obs


def stream_shapes(ctx, res):
    """shapes that the real code does not carry through (recorded findings, known_findings.d/C08-*.json, matched by a
    failure-keyed kind).  Any other deviation here is an ordinary violation (kind <shape>-unexpected)."""
    n = ctx.n(110, 1500)
    d = res["distribution"]
    for _ in range(n):
        shape, chain, langs = shape_case(ctx.rng)
        dev, kind, obs = run_shape(shape, chain, langs)
        res["evaluations"] += 1
        bump(d, "shape_cases")
        bump(d, "shape_" + shape)
        if dev:
            bump(d, kind)
            res["violations"].append({
                "kind": kind, "shape": shape, "chain": [FMT[f] for f in chain], "chain_codes": chain,
                "input": [[[list(c) for c in cu], tx] for (cu, tx) in langs],
                "what": "chain %s on %s: %s" % ("->".join(FMT[f] for f in chain),
                                                [[list(zip(cu, [spec_text(x) for x in tx]))] for cu, tx in langs], obs),
                "replay": "shape"})
        else:
            bump(d, "shape_" + shape + "_preserved")


def hop_times(o, li):
    if isinstance(o, Err):
        return o
    v = o.v.get(LANGS[li])
    if v is None:
        return Ok([])
    return Ok(v[0])


def final_times(trace, li, n):
    if len(trace) != n or not trace:
        return Err(109) if not trace or not isinstance(trace[-1], Err) else trace[-1]
    return hop_times(trace[-1], li)


def text_mismatch(trace, li, texts):
    """(hop, caption index or None, observed, written) for the first hop whose texts differ"""
    want = [spec_text(sp) for sp in texts]
    for k, o in enumerate(trace):
        if isinstance(o, Err):
            return (k, None, "an exception", want)
        v = o.v.get(LANGS[li])
        got = v[1] if v is not None else []
        if got != want:
            if len(got) == len(want):
                ci = next(i for i in range(len(got)) if got[i] != want[i])
                rest_ok = all(squeeze(a) == squeeze(b) for a, b in zip(got, want))
                return (k, ci if rest_ok else None, got[ci], want[ci])
            return (k, None, got, want)
    return None


def floored(o, u):
    if isinstance(o, Ok):
        return Ok([[c[0] // u * u, c[1] // u * u] for c in o.v])
    return o


def same(a, b):
    return (isinstance(a, Ok) and isinstance(b, Ok) and a.v == b.v) or (isinstance(a, Err) and isinstance(b, Err))


def show(o):
    if isinstance(o, Ok):
        return o.v
    if isinstance(o, Err):
        return "raised " + impl.ERR_NAMES.get(o.code, str(o.code))
    return repr(o)


def replay(ctx, rec):
    if rec.get("replay") == "none":          # last-round stream: re-run the check (the stream regenerates the case)
        return True, rec.get("what")
    chain = rec["chain_codes"]
    langs = [([tuple(c) for c in cu], tx) for (cu, tx) in rec["input"]]
    if rec.get("replay") == "shape":
        dev, kind, obs = run_shape(rec["shape"], chain, langs)
        return dev, [kind, obs]
    li = rec["lang_index"]
    cs = build(langs)
    t1, cs1 = run_chain(chain, cs)
    t2, cs2 = run_chain(chain, cs1) if cs1 is not None else ([], None)
    p1, p2 = final_times(t1, li, len(chain)), final_times(t2, li, len(chain))
    ok = oracle1(802, [chain, [list(c) for c in langs[li][0]], p1, p2])
    bad = text_mismatch(t1 + t2, li, langs[li][1])
    extra = extra_languages(t1 + t2, len(langs))
    if rec.get("reused"):
        rd = reused_difference(chain, langs, t1, t2)
        return rd is not None, rd
    return ok != 1 or bad is not None or bool(extra), [show(p1), show(p2), bad, extra]
