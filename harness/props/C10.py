"""C10 - reading is a deterministic, isolated function of document and options.

Real side (harness/iso_worker.py): random HISTORIES of reads (six formats; fresh and reused reader objects; the same
document again later), API builds, writes and edits (add_style, rules dict in place, caption start/end/style/layout,
node append/content, caption removal).  Every history runs in a forked child of a process that has only imported
pycaption; every distinct (reader, document, options) is also read in a PRISTINE forked child.  Per operation: deep
structural snapshot of every live set; for a new set the ALIASING observer walks the object graphs by id() and reports
every mutable object it shares with an older set, with process-global state (default-argument objects, class
attributes, module constants) and with the reader object.
Model side (coq/model/Store.v, Iso.v, extracted): the same history -> predicted snapshots of all sets after every
op, predicted sharing (which pairs, which classes), reader-object aliasing.
Property oracle: Coq ok_c10 (coq/spec/SpecIso.v): a read equals the pristine read and changes no older set; an edit
changes no other set.  Across processes: identical results under PYTHONHASHSEED 0,1,2,3,17,4242.
When the aliasing observer finds a shared object the model does not predict, a directed search edits THROUGH that
object (poke) to turn the alias into a concrete isolation violation with a replayable history.
"""
import json

import impl  # noqa: F401
import iso_gen as G
import iso_core as C

SEEDS = C.SEEDS
TABLES = ()     # no generated constant table is part of this property's tie
WHAT = {3: "a read changed a caption set returned earlier",
        4: "a read returned something else than the same read in a pristine process",
        5: "an edit of one caption set changed another caption set",
        6: "building a set through the API changed a set returned by a read",
        8: "the same history gives different caption sets in a process with another PYTHONHASHSEED"}


def violation_record(h, i, clause, extra):
    op = h[i] if 0 <= i < len(h) else {}
    brief = {k: op.get(k) for k in ("op", "fmt", "r", "set", "edit", "opts") if k in op}
    kind = C.CLAUSES[clause] + (":" + op["fmt"] if clause in (3, 4) and op.get("fmt") else "")
    if clause == 8:
        kind = "hashseed-dependent-result:" + str(op.get("fmt") or op.get("op"))
    rec = {"kind": kind, "what": "%s: op %d %s in [%s]" % (WHAT.get(clause, str(clause)), i, json.dumps(brief)[:200],
                                                                        C.describe_history(h)),
           "input": h, "history": h, "op_index": i, "clause": clause, "replay": "history",
           "format": op.get("fmt")}
    rec.update(extra)
    return rec


def plan_seeds(n, thorough):
    """seed 0 runs everything; thorough: every other seed too; quick: the other five seeds share the histories, so that
    EVERY history runs in a second process with a non-zero hash seed"""
    plan = {0: list(range(n))}
    others = [s for s in SEEDS if s != 0]
    if thorough:
        for s in others:
            plan[s] = list(range(n))
    else:
        for k, s in enumerate(others):
            plan[s] = [j for j in range(n) if j % len(others) == k]
    return plan


def poke_histories(h, i, share):
    """directed search: history h up to op i (a read/build whose result shares objects with older sets) followed by an
    in-place edit through each shared object, reached from the NEW set"""
    out = []
    new_idx = sum(1 for q in h[:i + 1] if q["op"] in ("build", "read")) - 1
    for old, rep in share.items():
        for (cls, path_new, path_old) in rep[:4]:
            out.append(h[:i + 1] + [{"op": "edit", "set": new_idx, "edit": ["poke", path_new]}])
    return out


def run(ctx):
    rng = ctx.rng
    n = ctx.n(225, 1800)
    histories = CORPUS + [G.history_c10(rng, 16 if ctx.thorough else 9) for _ in range(n)]
    n = len(histories)
    want = ("read", "build", "edit", "write")
    r = C.check_batch(histories, ctx.repo, plan_seeds(n, ctx.thorough), "C10", want)
    res = {"evaluations": 0, "nontrivial": set(), "violations": [], "disagreements": [], "streams": 0,
           "distribution": {}, "notes": []}
    dist = res["distribution"]
    reads, reuse, edits, rerr, nops = {}, 0, 0, {}, 0
    for h, obs in zip(histories, r["results"]):
        res["evaluations"] += 1
        seen_r = set()
        nt = False
        for op, o in zip(h, obs):
            nops += 1
            if op["op"] == "read":
                reads[op["fmt"]] = reads.get(op["fmt"], 0) + 1
                if o.get("err"):
                    rerr["%s:%s" % (op["fmt"], o["err"])] = rerr.get("%s:%s" % (op["fmt"], o["err"]), 0) + 1
                if op["r"] in seen_r:
                    reuse += 1
                    nt = True
                seen_r.add(op["r"])
            elif op["op"] == "edit":
                edits += 1
        if nt or (sum(1 for q in h if q["op"] in ("read", "build")) >= 2 and any(q["op"] == "edit" for q in h)):
            res["nontrivial"].add(json.dumps(h, sort_keys=True))
    dist.update({"histories": n, "operations": nops, "reads_by_format": reads, "reads_that_raised": rerr,
                 "reads_on_a_reused_reader_object": reuse, "edits": edits,
                 "hash_seeds": {str(s): len(v) for s, v in plan_seeds(n, ctx.thorough).items()},
                 "pristine_reads": len(r["pristine"])})
    seen = set()
    for (hi, i, clause, extra) in r["violations"]:
        if clause in (3, 4, 5, 6, 8):
            key = (clause, histories[hi][i].get("fmt") or histories[hi][i].get("op"))
            if key in seen or len(seen) >= 6:
                continue
            seen.add(key)
            h = histories[hi]
            try:
                h = C.shrink(h, ctx.repo, "C10", clause, extra.get("hashseed"), budget=12)
                i = min(i, len(h) - 1)
            except Exception:  # noqa
                pass
            res["violations"].append(violation_record(h, i, clause, extra))
    C.detail_summary(histories, r["details"], res)
    scc_reuse_stream(ctx, res)
    reader_state_stream(ctx, res)
    # correspondence streams actually run: (1) model snapshots / aliasing vs real heap, (2) pristine reads,
    # (3) the same histories in processes with other hash seeds (each evaluated by the oracle on its own)
    res["streams"] = 2 + (1 if r["pristine"] else 0) + (1 if len(r["by_seed"]) > 1 else 0)   # 2 = heap model + SCC decoder-state model
    dist["oracle_evaluated_in_processes_with_hashseed"] = sorted(r["by_seed"])
    for (hi, d) in r["disagreements"][:40]:
        res["disagreements"].append({"history": histories[hi], "op_index": d["i"], "what": d["what"],
                                     "model": d.get("model"), "impl": d.get("impl")})
    alias = [(hi, d) for (hi, d) in r["disagreements"] if d["what"].startswith(("which older sets share", "classes of the objects",
                                                                              "objects shared with process-global"))]
    if alias and not res["violations"]:
        # directed search: edit through the shared objects
        todo = []
        for (hi, d) in alias[:12]:
            todo.append((histories[hi], d["i"]))
        full = C.run_jobs([({"mode": "histories", "histories": [h for h, _ in todo], "full": True}, 0)], ctx.repo)[0]
        extra_h = []
        for (h, i), obs in zip(todo, full):
            o = obs[i]
            share = dict(o.get("share") or {})
            if o.get("glob") and not share:
                # shared with a default-argument object only: a second identical creation makes it a pair
                h2 = h[:i + 1] + [h[i]]
                extra_h.append(h2 + [{"op": "edit", "set": sum(1 for q in h2 if q["op"] in ("build", "read")) - 1,
                                      "edit": ["poke", g[1]]} for g in o["glob"][:1]])
                continue
            extra_h.extend(poke_histories(h, i, share))
        if extra_h:
            r2 = C.check_batch(extra_h, ctx.repo, {0: list(range(len(extra_h)))}, "C10", want)
            res["evaluations"] += len(extra_h)
            dist["directed_search_histories"] = len(extra_h)
            seen = set()
            for (hi, i, clause, extra) in r2["violations"]:
                if clause in (3, 4, 5, 6) and clause not in seen:
                    seen.add(clause)
                    res["violations"].append(violation_record(extra_h[hi], i, clause, extra))
    res["rule"] = ("random histories of 3-9 operations: reads of SRT/WebVTT/MicroDVD/DFXP/SAMI/SCC documents (reader "
                   "options varied) on fresh and reused reader objects incl. re-reads of the same document, API builds, "
                   "writes by the 8 writers, edits (add_style, rules in place, caption time/style/layout, node "
                   "append/content, caption removal). Non-trivial = a history that reuses a reader object, or that has "
                   ">= 2 sets and an edit; distinct histories counted. Plus (wave 7) sequences of 2-3 SCC documents on ONE "
                   "SCCReader object (pop-on / roll-up / paint-on / mixed, refused documents, offsets, re-reads, 'dirty pairs': "
                   "document 1 ends in a non-initial decoder state that the start of document 2 would notice), each read "
                   "compared with a new reader object and with the decoder-state model (request 1002).")
    res["samples"] = [C.describe_history(h) for h in histories[len(CORPUS):len(CORPUS) + 5]]
    res["clauses"] = {
        "theorem": ["READER OBJECT STATE (round 4, model/ReaderReuse.v): SAMI line / first_alignment, DFXP nodes, MicroDVD fps, WebVTT "
                    "previous start under its options - every history of documents on one object incl. raising reads gives the "
                    "fresh-object results under the code's resets; redundant resets identified; partial resets refuted by "
                    "two-document witnesses (C10_par_/C10_mdvd_/C10_vtt_reader_history_isolated_unfold, ..._refuted); executed against "
                    "the real reused readers (request 1003)",
                    "SCC READER REUSE (wave 7, over the decoder model): a read() of an SCCReader object in ANY state returns what "
                    "a new object returns, for every document / offset, provided the reset covers the twelve decoder fields; "
                    "lifted to every history of documents incl. refused ones; the code's reset covers them; refuted for "
                    "no reset and for six single-field omissions (C10_scc_read_independent_of_reader_state_unfold, "
                    "C10_scc_reader_history_isolated_unfold, C10_scc_partial_resets_refuted); the model is executed against the "
                    "real reused reader on generated document sequences (request 1002)",
                    "THE MODEL MEETS THE ORACLE: ok_c10 evaluated on the model's own observations of any history reports "
                    "nothing (C10_model_meets_oracle)",
                    "caption sets created by different reads / builds occupy disjoint, closed regions of the heap, "
                    "whatever the history (invariant over arbitrary histories of reads, builds, writes, edits)",
                    "an edit of one set changes no other set's snapshot; reads, builds and writes change no existing set",
                    "before the repairs: shared default dicts and SCC reader reuse refute the statements (witnesses)",
                    "model-only lemmas (definitional, not about parsing): the model allocates exactly the result tree it "
                    "is given, whatever the store and reader state"],
        "correspondence_only": ["the model abstracts each reader to WHAT IT ALLOCATES for a given result (which dicts "
                                "come from default arguments, what the reader object keeps); the result itself "
                                "(parsing) is taken from a pristine read of the real reader",
                                "that reading is a deterministic function of document and options, independent of "
                                "what was read before, of reader reuse and of the hash seed, is decided by EXECUTION only "
                                "(pristine-read comparison in forked processes; quick: every history in one more process "
                                "with a non-zero hash seed, thorough: all six seeds) on the generated documents"]}
    res["trusted_extra"] = ["harness/iso_worker.py, iso_snap.py, iso_core.py: heap observers (snapshot, id()-graph walk, "
                            "forked pristine reads) and the comparison with the model's predictions"]
    return res


# ---- wave 7: the decoder state of a reused SCCReader object (coq/model/SccReuse.v over the decoder model) -----------------
SCC_FIELDS = ["caption_stash", "position_tracker", "last_command", "double_starter", "buffer pop", "buffer paint",
              "buffer roll", "active buffer", "pop_ons_queue", "time", "time_translator._last_time",
              "time_translator._frames"]
ATTR_FIELDS = {"caption_stash": [0], "node_creator_factory": [1], "last_command": [2], "double_starter": [3],
               "buffer_dict": [4, 5, 6, 7], "pop_ons_queue": [8], "time": [9], "time_translator": [10, 11]}


def source_reset_fields(repo):
    """which decoder fields SCCReader.read re-creates before the first line, read off the SOURCE: `self.X = ..`
    statements of read() before its first loop, calls of self.m() / Cls.m(self) followed two levels deep.
    None when the source does not have the expected shape (then nothing is concluded from it)."""
    import ast
    import os
    try:
        tree = ast.parse(open(os.path.join(repo, "pycaption", "scc", "__init__.py"), encoding="utf-8").read())
        cls = [n for n in tree.body if isinstance(n, ast.ClassDef) and n.name == "SCCReader"][0]
        meths = {n.name: n for n in cls.body if isinstance(n, ast.FunctionDef)}
        names = set()

        def walk(stmts, depth, stop_at_loop):
            for st in stmts:
                if stop_at_loop and isinstance(st, (ast.For, ast.While)):
                    return
                for node in ast.walk(st):
                    if isinstance(node, (ast.Assign, ast.AnnAssign, ast.AugAssign)):
                        tg = node.targets if isinstance(node, ast.Assign) else [node.target]
                        for t in tg:
                            if isinstance(t, ast.Attribute) and isinstance(t.value, ast.Name) and t.value.id == "self":
                                names.add(t.attr)
                    if isinstance(node, ast.Call) and isinstance(node.func, ast.Attribute) and depth < 2:
                        f = node.func
                        own = isinstance(f.value, ast.Name) and (f.value.id == "self" or (
                            f.value.id == "SCCReader" and node.args and isinstance(node.args[0], ast.Name)
                            and node.args[0].id == "self"))
                        if own and f.attr in meths and f.attr != "read":
                            walk(meths[f.attr].body, depth + 1, False)
        walk(meths["read"].body, 0, True)
        out = set()
        for a in names:
            out.update(ATTR_FIELDS.get(a, []))
        return sorted(out)
    except Exception:  # noqa
        return None


MODE_WORDS = {"94ae", "9420", "9425", "9426", "94a7", "9429", "94ad"}


def _secs(stamp):
    p = stamp.replace(";", ":").split(":")
    try:
        return int(p[0]) * 3600 + int(p[1]) * 60 + int(p[2])
    except Exception:  # noqa
        return 0


def dirty_pair(rng, d1, d2):
    """make document 1 END in a state that is not the initial one and document 2 START in a way that would notice:
    cmd    : doc 1 ends with a single (not doubled) control code X, doc 2 begins with the same single X (last_command /
             double_starter: a leaked X would be taken for the repetition and skipped)
    stamp  : doc 2 begins at the very timecode doc 1 ended with (time translator: _last_time / _frames)
    noflip : doc 1 loses its final 942f / 942c words (text left in a non-displayed / displayed buffer, queue)
    nomode : doc 2's first line loses its leading mode commands (active buffer, cursor)"""
    l1, l2 = d1.split("\n"), d2.split("\n")
    i1 = [i for i, l in enumerate(l1) if "\t" in l]
    i2 = [i for i, l in enumerate(l2) if "\t" in l]
    if not i1 or not i2:
        return d1, d2
    modes = rng.choice([["cmd"], ["stamp"], ["noflip"], ["nomode"], ["cmd", "stamp"], ["noflip", "nomode"],
                        ["noflip", "stamp"], ["cmd", "nomode"]])
    if "noflip" in modes:
        st, ws = l1[i1[-1]].split("\t", 1)
        ws = ws.split(" ")
        while ws and ws[-1] in ("942f", "942c"):
            ws.pop()
        if ws:
            l1[i1[-1]] = st + "\t" + " ".join(ws)
    last = l1[i1[-1]].split("\t")[0]
    if "cmd" in modes:
        x = rng.choice([G._pac(rng.choice([11, 12, 13]), rng.choice([0, 4, 8])), "91ae", "9420", "94ad", "9429", "9425"])
        last = G._stamp(_secs(last) + 1)
        l1 += ["%s\t%s" % (last, x), ""]
        st, ws = l2[i2[0]].split("\t", 1)
        l2[i2[0]] = st + "\t" + x + " " + ws
    if "nomode" in modes:
        st, ws = l2[i2[0]].split("\t", 1)
        ws = ws.split(" ")
        while ws and ws[0] in MODE_WORDS:
            ws.pop(0)
        if ws:
            l2[i2[0]] = st + "\t" + " ".join(ws)
    if "stamp" in modes:
        st, ws = l2[i2[0]].split("\t", 1)
        l2[i2[0]] = last + "\t" + ws
    return "\n".join(l1), "\n".join(l2)


def gen_scc_docs(rng):
    k = rng.choice([2, 2, 3])
    docs = []
    for j in range(k):
        d = G.bad_doc(rng, "scc") if (j < k - 1 and rng.random() < 0.25) else G.doc_scc(rng)
        docs.append([d, rng.choice([0, 0, 0, 1, 2])])
    if rng.random() < 0.2:
        docs[-1] = list(docs[0])
    if rng.random() < 0.6:
        docs[-2][0], docs[-1][0] = dirty_pair(rng, docs[-2][0], docs[-1][0])
    return docs


# ---- audit (wave 7): the reuse model made testable - the real reader with ONE attribute kept across _reset_state --------------
# buffer_dict: the kept NotifyingDict holds node creators that reference the OLD position tracker object while the model has one
# tracker for all buffers - the surgery is not the model's "fields 4-7 kept"; counted, not alarmed
KEEP_COUNTED_ONLY = ("buffer_dict",)
KEEP_GROUPS = [("caption_stash", ["caption_stash"], [0]), ("node_creator_factory", ["node_creator_factory"], [1]),
               ("last_command", ["last_command"], [2]), ("double_starter", ["double_starter"], [3]),
               ("buffer_dict", ["buffer_dict"], [4, 5, 6, 7]), ("pop_ons_queue", ["pop_ons_queue"], [8]),
               ("time", ["time"], [9]), ("time_translator", ["time_translator"], [10, 11])]


def _scc_doc(lines):
    return "Scenarist_SCC V1.0\n\n" + "\n\n".join("%s\t%s" % (tc, " ".join(ws)) for tc, ws in lines) + "\n"


_HELLO, _BYE = ["c8e5", "ecec", "ef80"], ["c2f9", "e580"]
_A = [("00:00:01:00", ["94ae", "94ae", "9420", "9420", "9470", "9470"] + _HELLO + ["942f", "942f"]), ("00:00:03:00", ["942c", "942c"])]
_B = [("00:00:05:00", ["94ae", "94ae", "9420", "9420", "9440", "9440"] + _BYE + ["942f", "942f"]), ("00:00:07:00", ["942c", "942c"])]
# the witnesses of C10_scc_partial_resets_refuted (proofs/SccReuseExamples.v), as texts
SCC_WITNESSES = [
    [_scc_doc(_A), _scc_doc(_B)],
    [_scc_doc(_A), _scc_doc([("00:00:05:00", ["94ae", "94ae", "9420", "9420"] + _BYE + ["942f", "942f"]), ("00:00:07:00", ["942c", "942c"])])],
    [_scc_doc(_A + [("00:00:04:00", ["9470"])]),
     _scc_doc([("00:00:05:00", ["9470"] + _BYE + ["942f", "942f"]), ("00:00:07:00", ["942c", "942c"])])],
    [_scc_doc([("00:00:01:00", ["9420", "9420", "9470", "9470"] + _HELLO)]),
     _scc_doc([("00:00:05:00", ["9420", "9420", "9440", "9440"] + _BYE + ["942f", "942f"]), ("00:00:07:00", ["942c", "942c"])])],
    [_scc_doc([("00:00:01:00", ["9429", "9429", "9470", "9470"] + _HELLO)]),
     _scc_doc([("00:00:05:00", ["9440", "9440"] + _BYE), ("00:00:07:00", ["942c", "942c"])])],
    [_scc_doc(_A[:1] + [("00:00", ["942c"])]), _scc_doc(_B)],
]


def scc_real_keep(docs, attrs):
    """the results of every read of `docs` on ONE SCCReader whose _reset_state leaves the attributes `attrs` as the last read
    left them (the class method is wrapped for the duration, so every way of calling it is covered); None when the class has no
    _reset_state"""
    import sccobs as O
    import impl
    from pycaption import SCCReader
    orig = SCCReader.__dict__.get("_reset_state")
    if orig is None:
        return None

    def wrapped(self):
        saved = {a: getattr(self, a) for a in attrs if hasattr(self, a)}
        orig(self)
        for a, v in saved.items():
            if a == "node_creator_factory":
                # the position tracker is ONE object shared by the factory and the node creators made from it: keep its
                # state inside the new object (rebinding the factory would leave the new creators with the new tracker)
                self.node_creator_factory.position_tracker.__dict__.update(v.position_tracker.__dict__)
            else:
                setattr(self, a, v)
    out = []
    SCCReader._reset_state = wrapped
    try:
        r = SCCReader()
        for d, off in docs:
            x = impl.call(lambda: r.read(d, offset=off))
            if isinstance(x, O.Err):
                out.append(("len", str(impl.last_exc.args[0])) if x.code == 4 else x)
            else:
                out.append(O.Ok([O.canon_caption(c) for c in x.v.get_captions(x.v.get_languages()[0])]))
    finally:
        SCCReader._reset_state = orig
    return out


def scc_real(docs):
    """-> (results of read k on ONE reader object, results of read k on a new reader object)"""
    import sccobs as O
    reused, fresh = [], []
    for k, (d, off) in enumerate(docs):
        reused.append(O.observe(d, offset=off, history=[(x, {"offset": o}) for x, o in docs[:k]]))
        fresh.append(O.observe(d, offset=off))
    return reused, fresh


def scc_reuse_failures(docs):
    import sccobs as O
    reused, fresh = scc_real(docs)
    return [(k, O.same(a, b)) for k, (a, b) in enumerate(zip(reused, fresh)) if O.same(a, b) is not None]


def scc_model(hs, fields):
    import sccobs as O
    from wire import oracle_batch
    reqs = [(1002, [list(fields), [[O.exact(off) * 1000000, d] for d, off in docs]]) for docs in hs]
    out = []
    for x in oracle_batch(reqs):
        out.append(None if x == [-1] else (bool(x[0]), [O.dec_model(r) for r in x[1]]))
    return out


def scc_reuse_stream(ctx, res):
    """One SCCReader object reads 2-3 documents (pop-on / roll-up / paint-on / mixed, refused documents in between, offsets,
    re-reads).  Real: every read on the reused object and on a new object.  Model: reader_history (request 1002) with the
    reset of the code (all decoder fields) - by theorem equal to the fresh reads - and with each field left out of the
    reset in turn: counts on how many generated histories leaking that field would change a result (the reach of the
    generator, per field).  Oracle: reused == new object (the property); correspondence: reused real == model."""
    import random
    import sccobs as O
    rng = random.Random(ctx.rng.getrandbits(64))
    n = ctx.n(50, 250)
    hs = [[[d, 0] for d in w] for w in SCC_WITNESSES] + [gen_scc_docs(rng) for _ in range(n)]
    dist = res["distribution"]
    full = list(range(12))
    m_full = scc_model(hs, full)
    exposes = {}
    for f in full:
        m_f = scc_model(hs, [g for g in full if g != f])
        cnt = 0
        for a, b in zip(m_full, m_f):
            if a is not None and b is not None and any(O.same(x, y) is not None for x, y in zip(a[1], b[1])):
                cnt += 1
        exposes[SCC_FIELDS[f]] = cnt
    outside, compared, reads, raised = 0, 0, 0, 0
    for docs, m in zip(hs, m_full):
        reused, fresh = scc_real(docs)
        res["evaluations"] += 1
        reads += len(docs)
        raised += sum(1 for x in reused if not isinstance(x, O.Ok))
        bad = [(k, O.same(a, b)) for k, (a, b) in enumerate(zip(reused, fresh)) if O.same(a, b) is not None]
        if bad:
            k, why = bad[0]
            if not any(v.get("replay") == "scc-reuse" for v in res["violations"]):
                res["violations"].append({"kind": "read-differs-from-pristine:scc", "replay": "scc-reuse", "docs": docs,
                                          "input": docs, "op_index": k,
                                          "what": "read %d of %d on ONE SCCReader object differs from the same read on a "
                                                  "new object: %s" % (k + 1, len(docs), why)})
            continue
        if m is None or not m[0]:
            res["disagreements"].append({"what": "SCC reuse model rejected the request / reset does not cover", "model": m})
            continue
        in_domain = all(O.same(a, b) is None for a, b in zip(fresh, m[1]))
        if not in_domain:
            outside += 1          # the decoder model itself differs from the code on a fresh read: C05 / C06 own that
            continue
        compared += 1
        res["nontrivial"].add(json.dumps(docs))
        for k, (a, b) in enumerate(zip(reused, m[1])):
            if O.same(a, b) is not None:
                res["disagreements"].append({"what": "SCC reader reuse: read %d on the reused object vs decoder-state model: %s"
                                                     % (k + 1, O.same(a, b)), "history": docs, "op_index": k})
                break
    # the reuse model against the code: the REAL reader with one attribute kept across _reset_state == reader_history without
    # the corresponding fields (alarm level), on the sequences on which the fresh reads agree with the decoder model
    in_dom = []
    for docs, m in zip(hs, m_full):
        fresh = [O.observe(d, offset=off) for d, off in docs]
        in_dom.append(m is not None and all(O.same(a, b) is None for a, b in zip(fresh, m[1])))
    keep_stats = {}
    for name, attrs, codes in KEEP_GROUPS:
        m_wo = scc_model(hs, [f for f in full if f not in codes])
        cmp_, differs_from_fresh, bad = 0, 0, 0
        for docs, mf, mw, ok in zip(hs, m_full, m_wo, in_dom):
            if not ok or mw is None:
                continue
            real = scc_real_keep(docs, attrs)
            if real is None:
                break
            cmp_ += 1
            if any(O.same(a, b) is not None for a, b in zip(mw[1], mf[1])):
                differs_from_fresh += 1
            for k, (a, b) in enumerate(zip(real, mw[1])):
                if O.same(a, b) is not None:
                    bad += 1
                    if name not in KEEP_COUNTED_ONLY:
                        res["disagreements"].append({"what": "SCC reader with %s kept across _reset_state: read %d vs reader_history "
                                                             "without fields %s: %s" % (name, k + 1, codes, O.same(a, b)),
                                                     "history": docs, "op_index": k})
                    break
        keep_stats[name] = {"sequences_compared": cmp_, "on_which_the_model_result_differs_from_fresh": differs_from_fresh,
                            "mismatches": bad, "level": "counted" if name in KEEP_COUNTED_ONLY else "alarm"}
    dist["scc_reader_with_one_attribute_kept_vs_partial_reset_model"] = keep_stats
    src = source_reset_fields(ctx.repo)
    note = None
    if src is not None and set(src) != set(full):
        # the source does not visibly re-create some field: let the MODEL find histories on which that matters, then ask the
        # real reader (a failing input or nothing)
        missing = [f for f in full if f not in src]
        tries = [gen_scc_docs(rng) for _ in range(300)]
        a_ = scc_model(tries, full)
        b_ = scc_model(tries, src)
        cand = [d for d, x, y in zip(tries, a_, b_) if x and y and any(O.same(p, q) is not None for p, q in zip(x[1], y[1]))]
        confirmed = 0
        for docs in cand[:40]:
            bad = scc_reuse_failures(docs)
            if bad:
                confirmed += 1
                if not any(v.get("replay") == "scc-reuse" for v in res["violations"]):
                    res["violations"].append({"kind": "read-differs-from-pristine:scc", "replay": "scc-reuse", "docs": docs,
                                              "input": docs, "op_index": bad[0][0],
                                              "what": "read() does not re-create %s; model-guided search: read %d on ONE "
                                                      "SCCReader object differs from the same read on a new object: %s"
                                                      % ([SCC_FIELDS[f] for f in missing], bad[0][0] + 1, bad[0][1])})
        note = {"fields_not_visibly_reset_in_source": [SCC_FIELDS[f] for f in missing],
                "model_predicted_exposing_histories": len(cand), "confirmed_on_the_real_reader": confirmed}
    dist["scc_reader_reuse"] = {"histories": n, "reads": reads, "reads_that_raised": raised,
                                "compared_with_decoder_state_model": compared,
                                "outside_decoder_model_domain_(fresh_read_differs)": outside,
                                "histories_on_which_leaking_the_field_changes_a_result_(model)": exposes,
                                "reset_fields_read_off_the_source": None if src is None else [SCC_FIELDS[f] for f in src],
                                "source_vs_model": note}


# ---- round 4: instance state of the SAMI / DFXP / MicroDVD / WebVTT reader objects (coq/model/ReaderReuse.v, request 1003) ----
ALIGN = {"left": 1, "center": 2, "right": 3}
SAMI_HEAD = ('<SAMI><HEAD><STYLE TYPE="text/css"><!--\n.ENCC {name: English; lang: en-US;}\n--></STYLE></HEAD><BODY>')


def _gen_pars(rng, fmt, allow_fail):
    """abstract paragraphs and the document text they are rendered to (the abstract form is known by construction)"""
    pars, chunks = [], []
    t = rng.choice([1000, 5000, 61000])
    for k in range(rng.randint(1, 3)):
        if allow_fail and k > 0 and rng.random() < 0.25:
            pars.append([[4]])
            chunks.append((None, "bad"))
            break
        items, body = [], ""
        for j in range(rng.randint(1, 3)):
            z = rng.randint(1, 99)
            q = rng.random()
            if j and (rng.random() < 0.4 or (items[-1][0] == 0 and q >= (0.5 if fmt == "sami" else 0.25))):
                items.append([1])          # two text runs next to each other would be ONE text node
                body += "<br/>"
            if q < 0.25:
                items += [[2, True, 1], [0, z], [2, False, 1]]
                body += ("<i>w%d</i>" % z) if fmt == "sami" else ('<span tts:fontStyle="italic">w%d</span>' % z)
            elif q < 0.5 and fmt == "sami":
                if items and items[-1][0] == 0:
                    items.append([1])
                    body += "<br/>"
                a = rng.choice(sorted(ALIGN))
                items += [[3, ALIGN[a]], [0, z]]        # a span with text-align only: no style nodes, first_alignment
                body += '<span style="text-align:%s;">w%d</span>' % (a, z)
            else:
                items.append([0, z])
                body += "w%d" % z
        pars.append(items)
        chunks.append((t, body))
        t += rng.choice([1000, 2500])
    if fmt == "sami":
        doc = SAMI_HEAD + "".join(('<SYNC start="%d"><P class="ENCC">%s</P></SYNC>' % (tt, b)) if tt is not None else
                                  '<SYNC><P class="ENCC">no start</P></SYNC>' for tt, b in chunks) + "</BODY></SAMI>"
    else:
        def clk(ms):
            return "00:%02d:%02d.%03d" % (ms // 60000, ms // 1000 % 60, ms % 1000)
        doc = ('<tt xml:lang="en" xmlns="http://www.w3.org/ns/ttml" xmlns:tts="http://www.w3.org/ns/ttml#styling"><body><div>' +
               "".join(('<p begin="%s" end="%s">%s</p>' % (clk(tt), clk(tt + 900), b)) if tt is not None else
                       '<p begin="one" end="two">bad</p>' for tt, b in chunks) + "</div></body></tt>")
    return pars, doc


def _gen_obj_case(rng, machine):
    """-> (options, [(abstract document, text)])"""
    n = rng.choice([2, 2, 3])
    if machine in ("sami", "dfxp"):
        docs = [_gen_pars(rng, machine, allow_fail=(k < n - 1)) for k in range(n)]
        if rng.random() < 0.25:
            docs[-1] = docs[0] if docs[0][0][-1] != [[4]] else docs[-1]
        return {}, docs
    if machine == "mdvd":
        docs = []
        for k in range(n):
            lines, text = [], []
            if rng.random() < 0.5:
                num, den, txt = rng.choice([(23976, 1000, "23.976"), (30, 1, "30"), (24, 1, "24"), (2997, 100, "29.97")])
                lines.append([0, num, den])
                text.append("{0}{0}%s" % txt)
            f = rng.choice([10, 24, 31, 100])
            for _ in range(rng.randint(1, 3)):
                d = rng.choice([7, 24, 49])
                lines.append([1, f, f + d])
                text.append("{%d}{%d}w%d" % (f, f + d, f))
                f += d + rng.choice([1, 13])
            if k < n - 1 and rng.random() < 0.25:
                lines.append([2])
                text.append("this line has no frames")
            docs.append((lines, "\n".join(text) + "\n"))
        if rng.random() < 0.25:
            docs[-1] = docs[0]
        return {}, docs
    opts = {"strict": rng.random() < 0.7, "shift": rng.choice([0, 0, 500, 1500])}
    docs = []
    for k in range(n):
        t = rng.choice([0, 1000, 5000, 40000, 61000])
        cues = []
        for _ in range(rng.randint(1, 3)):
            d = rng.choice([500, 1000, 2000])
            cues.append([t * 1000, (t + d) * 1000])
            t += d + rng.choice([0, 500])
        if k < n - 1 and rng.random() < 0.3:
            cues.append(rng.choice([[5000000, 4000000], [0, 1000000]]))      # end before start / an earlier start
        docs.append(cues)
    if rng.random() < 0.3:
        docs[-1] = docs[0]
    docs.sort(key=lambda c: -c[0][0]) if rng.random() < 0.4 else None       # later documents start earlier

    def clk(us):
        ms = us // 1000
        return "%02d:%02d:%02d.%03d" % (ms // 3600000, ms // 60000 % 60, ms // 1000 % 60, ms % 1000)
    return opts, [(c, "WEBVTT\n\n" + "\n".join("%s --> %s\ncue %d\n" % (clk(a), clk(b), i) for i, (a, b) in enumerate(c)))
                  for c in docs]


def _canon_nodes(nodes):
    from pycaption import CaptionNode
    out = []
    for nd in nodes:
        if nd.type_ == CaptionNode.TEXT:
            txt = nd.content.strip()
            out.append([0, int(txt[1:]) if txt[:1] == "w" and txt[1:].isdigit() else -1])
        elif nd.type_ == CaptionNode.BREAK:
            out.append([1])
        else:
            c = nd.content if isinstance(nd.content, dict) else {}
            out.append([2, bool(nd.start), 1 if c.get("italics") else 2])
    return out


def _real_read(machine, reader, text):
    """-> ("ok", canonical captions) | ("err", exception class)"""
    import impl
    from wire import Ok
    r = impl.call(lambda: reader.read(text))
    if not isinstance(r, Ok):
        return ("err", type(impl.last_exc).__name__)
    caps = r.v.get_captions(r.v.get_languages()[0])
    if machine in ("sami", "dfxp"):
        out = []
        for c in caps:
            al = None
            li = c.layout_info
            if machine == "sami" and li is not None and getattr(li, "alignment", None) is not None and li.alignment.horizontal is not None:
                al = ALIGN.get(getattr(li.alignment.horizontal, "value", li.alignment.horizontal))
            out.append([_canon_nodes(c.nodes), al])
        return ("ok", out)
    return ("ok", [[int(c.start), int(c.end)] for c in caps])


def _new_reader(machine, opts):
    from pycaption import SAMIReader, DFXPReader, MicroDVDReader, WebVTTReader
    if machine == "sami":
        return SAMIReader()
    if machine == "dfxp":
        return DFXPReader()
    if machine == "mdvd":
        return MicroDVDReader()
    return WebVTTReader(ignore_timing_errors=not opts["strict"], time_shift_milliseconds=opts["shift"])


def obj_real(machine, opts, docs):
    reader = _new_reader(machine, opts)
    reused = [_real_read(machine, reader, text) for _, text in docs]
    fresh = [_real_read(machine, _new_reader(machine, opts), text) for _, text in docs]
    return reused, fresh


def obj_reuse_failures(machine, opts, docs):
    reused, fresh = obj_real(machine, opts, docs)
    return [k for k, (a, b) in enumerate(zip(reused, fresh)) if a != b]


MACHINE = {"sami": (1, [0, 1, 2]), "dfxp": (1, [0, 1, 2]), "mdvd": (2, [0]), "vtt": (3, [0])}


def obj_model(machine, cases, fields):
    from wire import oracle_batch
    mid = MACHINE[machine][0]
    reqs = []
    for opts, docs in cases:
        o = [bool(opts.get("strict")), int(opts.get("shift", 0)) * 1000] if machine == "vtt" else []
        reqs.append((1003, [mid, list(fields), o, [d for d, _ in docs]]))
    out = []
    for x in oracle_batch(reqs):
        if x == [-1]:
            out.append(None)
            continue
        rs = []
        for r in x[1]:
            if r[0] == 1:
                rs.append(("err", None))
            elif mid == 1:
                rs.append(("ok", [[[list(n[:1]) + ([bool(n[1]), n[2]] if n[0] == 2 else list(n[1:])) for n in c[0]],
                                   (c[1][0] if c[1] else None)] for c in r[1]]))
            else:
                rs.append(("ok", [list(p) for p in r[1]]))
        out.append((bool(x[0]), rs))
    return out


def _same_outcome(real, model):
    if real[0] == "err" or model[0] == "err":
        return real[0] == model[0]
    return real[1] == model[1]


def source_reader_resets(repo):
    """which of the modelled resets are VISIBLE in the source (AST), per machine; None = the source does not have the expected
    shape, nothing is concluded.  sami: `self.line = []` and `self.first_alignment = None` before / after it in the same
    function; dfxp: `self.nodes = []` outside __init__; mdvd: a local `fps = ..` before the first loop of read() and no
    self.fps; vtt: no assignment to self.* outside __init__ (no per-read instance state at all)."""
    import ast
    import os
    out = {}

    def cls_of(path, name):
        tree = ast.parse(open(os.path.join(repo, "pycaption", *path), encoding="utf-8").read())
        return [n for n in tree.body if isinstance(n, ast.ClassDef) and n.name == name][0]

    def self_assigns(fn):
        res = []
        for node in ast.walk(fn):
            if isinstance(node, (ast.Assign, ast.AugAssign, ast.AnnAssign)):
                for t in (node.targets if isinstance(node, ast.Assign) else [node.target]):
                    if isinstance(t, ast.Attribute) and isinstance(t.value, ast.Name) and t.value.id == "self":
                        res.append((t.attr, node.lineno, getattr(node, "value", None)))
        return res
    try:
        c = cls_of(["sami.py"], "SAMIReader")
        fs = set()
        for fn in [n for n in c.body if isinstance(n, ast.FunctionDef) and n.name != "__init__"]:
            a = self_assigns(fn)
            lines = [ln for (x, ln, v) in a if x == "line" and isinstance(v, ast.List) and not v.elts]
            if lines:
                fs.add(0)
                for (x, ln, v) in a:
                    if x == "first_alignment" and isinstance(v, ast.Constant) and v.value is None:
                        fs.add(1 if ln < lines[0] else 2)
        out["sami"] = sorted(fs)
    except Exception:  # noqa
        out["sami"] = None
    try:
        c = cls_of(["dfxp", "base.py"], "DFXPReader")
        ok = any(x == "nodes" and isinstance(v, ast.List) and not v.elts
                 for fn in c.body if isinstance(fn, ast.FunctionDef) and fn.name != "__init__" for (x, ln, v) in self_assigns(fn))
        out["dfxp"] = [0, 1, 2] if ok else [1, 2]
    except Exception:  # noqa
        out["dfxp"] = None
    try:
        c = cls_of(["microdvd.py"], "MicroDVDReader")
        rd = [n for n in c.body if isinstance(n, ast.FunctionDef) and n.name == "read"][0]
        local = False
        for st in rd.body:
            if isinstance(st, (ast.For, ast.While)):
                break
            if isinstance(st, ast.Assign) and any(isinstance(t, ast.Name) and t.id == "fps" for t in st.targets):
                local = True
        uses_self = any(x == "fps" for fn in c.body if isinstance(fn, ast.FunctionDef) for (x, ln, v) in self_assigns(fn))
        out["mdvd"] = [0] if local and not uses_self else ([] if uses_self else None)
    except Exception:  # noqa
        out["mdvd"] = None
    try:
        c = cls_of(["webvtt.py"], "WebVTTReader")
        stateful = any(self_assigns(fn) for fn in c.body if isinstance(fn, ast.FunctionDef) and fn.name != "__init__")
        out["vtt"] = None if stateful else [0]
    except Exception:  # noqa
        out["vtt"] = None
    return out


def reader_state_stream(ctx, res):
    """One SAMIReader / DFXPReader / MicroDVDReader / WebVTTReader(options) object reads 2-3 documents whose abstract form
    (paragraph items / frame lines / cue times) is known by construction, raising documents in between, the same document
    twice, later documents starting earlier.  Oracle: reused object == new object with the same options (results and
    raising).  Correspondence: the reused reads == obj_history of the machine with the resets of the code (compared when
    the fresh read agrees with the model); per reset field: on how many sequences leaving it out would change a result."""
    import random
    rng = random.Random(ctx.rng.getrandbits(64))
    n = ctx.n(60, 300)
    dist = res["distribution"].setdefault("reader_object_state", {})
    SRC = source_reader_resets(ctx.repo)
    for machine in ("vtt", "mdvd", "sami", "dfxp"):
        cases = [_gen_obj_case(rng, machine) for _ in range(n)]
        mid, full = MACHINE[machine]
        m_full = obj_model(machine, cases, full)
        exposes = {}
        names = {1: ["line/nodes = []", "first_alignment = None (before)", "first_alignment = None (after)"],
                 2: ["fps = 25"], 3: ["previous start = 0"]}[mid]
        for f in full:
            m_f = obj_model(machine, cases, [g for g in full if g != f])
            exposes[names[f]] = sum(1 for a, b in zip(m_full, m_f) if a and b and a[1] != b[1])
        outside = compared = raised = reads = 0
        for (opts, docs), m in zip(cases, m_full):
            reused, fresh = obj_real(machine, opts, docs)
            res["evaluations"] += 1
            reads += len(docs)
            raised += sum(1 for x in reused if x[0] == "err")
            bad = [k for k, (a, b) in enumerate(zip(reused, fresh)) if a != b]
            if bad:
                if not any(v.get("replay") == "obj-reuse" and v.get("machine") == machine for v in res["violations"]):
                    res["violations"].append({"kind": "read-differs-from-pristine:%s" % machine, "replay": "obj-reuse",
                                              "machine": machine, "opts": opts, "docs": docs, "input": docs, "op_index": bad[0],
                                              "what": "read %d of %d on ONE %s reader object (options %s) differs from the same "
                                                      "read on a new object: %r vs %r" % (bad[0] + 1, len(docs), machine, opts,
                                                                                         reused[bad[0]], fresh[bad[0]])})
                continue
            if m is None or not m[0]:
                res["disagreements"].append({"what": "reader object model rejected the request / reset does not cover",
                                             "model": m, "history": docs})
                continue
            if not all(_same_outcome(a, b) for a, b in zip(fresh, m[1])):
                outside += 1
                continue
            compared += 1
            res["nontrivial"].add(json.dumps([machine, opts, [t for _, t in docs]]))
            for k, (a, b) in enumerate(zip(reused, m[1])):
                if not _same_outcome(a, b):
                    res["disagreements"].append({"what": "%s reader reuse: read %d on the reused object vs object-state model"
                                                         % (machine, k + 1), "impl": a, "model": b, "history": docs, "op_index": k})
                    break
        src = SRC.get(machine)
        note = None
        if src is not None and set(src) != set(full):
            # a reset is not visible in the source: the MODEL says on which sequences that matters, the real reader is asked
            more = cases + [_gen_obj_case(rng, machine) for _ in range(200)]
            a_ = obj_model(machine, more, full)
            b_ = obj_model(machine, more, src)
            cand = [cs_ for cs_, x, y in zip(more, a_, b_) if x and y and x[1] != y[1]]
            confirmed = 0
            for (opts, docs) in cand[:40]:
                bad = obj_reuse_failures(machine, opts, docs)
                if bad:
                    confirmed += 1
                    if not any(v.get("replay") == "obj-reuse" and v.get("machine") == machine for v in res["violations"]):
                        res["violations"].append({"kind": "read-differs-from-pristine:%s" % machine, "replay": "obj-reuse",
                                                  "machine": machine, "opts": opts, "docs": docs, "input": docs, "op_index": bad[0],
                                                  "what": "resets not visible in the source: %s; model-guided search: read %d on ONE "
                                                          "%s reader object differs from the same read on a new object"
                                                          % ([names[f] for f in full if f not in src], bad[0] + 1, machine)})
            note = {"resets_not_visible_in_source": [names[f] for f in full if f not in src],
                    "model_predicted_exposing_sequences": len(cand), "confirmed_on_the_real_reader": confirmed}
        dist[machine] = {"resets_read_off_the_source": None if src is None else [names[f] for f in src], "source_vs_model": note,
                         "sequences": n, "reads": reads, "reads_that_raised": raised, "compared_with_object_state_model": compared,
                         "outside_model_domain_(fresh_read_differs)": outside,
                         "sequences_on_which_leaving_out_the_reset_changes_a_result_(model)": exposes}


def replay(ctx, rec):
    if rec.get("replay") == "obj-reuse":
        bad = obj_reuse_failures(rec["machine"], rec["opts"], rec["docs"])
        return bool(bad), [(k, "read-differs-from-pristine:%s" % rec["machine"]) for k in bad]
    if rec.get("replay") == "scc-reuse":
        bad = scc_reuse_failures(rec["docs"])
        return bool(bad), [(k, "read-differs-from-pristine:scc") for k, _ in bad]
    h = rec["history"]
    ok, r = C.still_fails(h, ctx.repo, "C10", rec["clause"], rec.get("hashseed"))
    return ok, [(i, C.CLAUSES[c]) for (_, i, c, _) in r["violations"]]


SRT1 = "1\n00:00:01,000 --> 00:00:02,000\nhello\n\n2\n00:00:03,000 --> 00:00:04,000\nworld\n"
SRT2 = "1\n00:00:05,000 --> 00:00:06,000\nother\n"
SCC1 = ("Scenarist_SCC V1.0\n\n00:00:01:00\t94ae 94ae 9420 9420 9470 9470 c8e5 ecec ef80 942f 942f\n\n"
        "00:00:03:00\t942c 942c\n")
SCC2 = ("Scenarist_SCC V1.0\n\n00:00:05:00\t94ae 94ae 9420 9420 9470 9470 c2f9 e580 942f 942f\n\n"
        "00:00:07:00\t942c 942c\n")
CORPUS = [
    # defect 2: read A, read B, add a style to A / edit a caption style of A
    [{"op": "read", "fmt": "srt", "doc": SRT1, "opts": {}, "r": 0}, {"op": "read", "fmt": "srt", "doc": SRT2, "opts": {}, "r": 1},
     {"op": "edit", "set": 0, "edit": ["add_style", "x", {"color": "red"}]},
     {"op": "edit", "set": 0, "edit": ["cap_style", 0, 0, "bold", True]},
     {"op": "read", "fmt": "srt", "doc": SRT2, "opts": {}, "r": 2}],
    # defect 3: one SCCReader, read twice
    [{"op": "read", "fmt": "scc", "doc": SCC1, "opts": {}, "r": 0}, {"op": "read", "fmt": "scc", "doc": SCC2, "opts": {}, "r": 0},
     {"op": "edit", "set": 1, "edit": ["append_node", 0, 0, "more"]},
     {"op": "read", "fmt": "scc", "doc": SCC1, "opts": {}, "r": 0}],
]
