"""C10 - reading is a deterministic, isolated function of document and options.

Real side (harness/iso_worker.py): random HISTORIES of reads (six formats; fresh and reused reader objects; the same
document again later), API builds, writes and edits (add_style, rules dict in place, caption start/end/style/layout,
node append/content, caption removal).  Every history runs in a forked child of a process that has only imported
pycaption; every distinct (reader, document, options) is also read in a PRISTINE forked child.  Per operation: deep
structural snapshot of every live set; for a new set the ALIASING observer walks the object graphs by id() and reports
every mutable object it shares with an older set, with process-global state (default-argument objects, class
attributes, module constants) and with the reader object.
Model side (coq/model/Store.v, Iso.v, extracted): the same history -> predicted snapshots of all sets after every
op, predicted sharing (which pairs, which classes), reader-object aliasing.
Property oracle: Coq ok_c10 (coq/spec/SpecIso.v): a read equals the pristine read and changes no older set; an edit
changes no other set.  Across processes: identical results under PYTHONHASHSEED 0,1,2,3,17,4242.
When the aliasing observer finds a shared object the model does not predict, a directed search edits THROUGH that
object (poke) to turn the alias into a concrete isolation violation with a replayable history.
"""
import json

import impl  # noqa: F401
import iso_gen as G
import iso_core as C

SEEDS = C.SEEDS
TABLES = ()     # no generated constant table is part of this property's tie
WHAT = {3: "a read changed a caption set returned earlier",
        4: "a read returned something else than the same read in a pristine process",
        5: "an edit of one caption set changed another caption set",
        6: "building a set through the API changed a set returned by a read",
        8: "the same history gives different caption sets in a process with another PYTHONHASHSEED"}


def violation_record(h, i, clause, extra):
    op = h[i] if 0 <= i < len(h) else {}
    brief = {k: op.get(k) for k in ("op", "fmt", "r", "set", "edit", "opts") if k in op}
    kind = C.CLAUSES[clause] + (":" + op["fmt"] if clause in (3, 4) and op.get("fmt") else "")
    if clause == 8:
        kind = "hashseed-dependent-result:" + str(op.get("fmt") or op.get("op"))
    rec = {"kind": kind, "what": "%s: op %d %s in [%s]" % (WHAT.get(clause, str(clause)), i, json.dumps(brief)[:200],
                                                                        C.describe_history(h)),
           "input": h, "history": h, "op_index": i, "clause": clause, "replay": "history",
           "format": op.get("fmt")}
    rec.update(extra)
    return rec


def plan_seeds(n, thorough):
    """seed 0 runs everything; thorough: every other seed too; quick: the other five seeds share the histories, so that
    EVERY history runs in a second process with a non-zero hash seed"""
    plan = {0: list(range(n))}
    others = [s for s in SEEDS if s != 0]
    if thorough:
        for s in others:
            plan[s] = list(range(n))
    else:
        for k, s in enumerate(others):
            plan[s] = [j for j in range(n) if j % len(others) == k]
    return plan


def poke_histories(h, i, share):
    """directed search: history h up to op i (a read/build whose result shares objects with older sets) followed by an
    in-place edit through each shared object, reached from the NEW set"""
    out = []
    new_idx = sum(1 for q in h[:i + 1] if q["op"] in ("build", "read")) - 1
    for old, rep in share.items():
        for (cls, path_new, path_old) in rep[:4]:
            out.append(h[:i + 1] + [{"op": "edit", "set": new_idx, "edit": ["poke", path_new]}])
    return out


def run(ctx):
    rng = ctx.rng
    n = ctx.n(250, 1800)
    histories = CORPUS + [G.history_c10(rng, 16 if ctx.thorough else 9) for _ in range(n)]
    n = len(histories)
    want = ("read", "build", "edit", "write")
    r = C.check_batch(histories, ctx.repo, plan_seeds(n, ctx.thorough), "C10", want)
    res = {"evaluations": 0, "nontrivial": set(), "violations": [], "disagreements": [], "streams": 0,
           "distribution": {}, "notes": []}
    dist = res["distribution"]
    reads, reuse, edits, rerr, nops = {}, 0, 0, {}, 0
    for h, obs in zip(histories, r["results"]):
        res["evaluations"] += 1
        seen_r = set()
        nt = False
        for op, o in zip(h, obs):
            nops += 1
            if op["op"] == "read":
                reads[op["fmt"]] = reads.get(op["fmt"], 0) + 1
                if o.get("err"):
                    rerr["%s:%s" % (op["fmt"], o["err"])] = rerr.get("%s:%s" % (op["fmt"], o["err"]), 0) + 1
                if op["r"] in seen_r:
                    reuse += 1
                    nt = True
                seen_r.add(op["r"])
            elif op["op"] == "edit":
                edits += 1
        if nt or (sum(1 for q in h if q["op"] in ("read", "build")) >= 2 and any(q["op"] == "edit" for q in h)):
            res["nontrivial"].add(json.dumps(h, sort_keys=True))
    dist.update({"histories": n, "operations": nops, "reads_by_format": reads, "reads_that_raised": rerr,
                 "reads_on_a_reused_reader_object": reuse, "edits": edits,
                 "hash_seeds": {str(s): len(v) for s, v in plan_seeds(n, ctx.thorough).items()},
                 "pristine_reads": len(r["pristine"])})
    seen = set()
    for (hi, i, clause, extra) in r["violations"]:
        if clause in (3, 4, 5, 6, 8):
            key = (clause, histories[hi][i].get("fmt") or histories[hi][i].get("op"))
            if key in seen or len(seen) >= 6:
                continue
            seen.add(key)
            h = histories[hi]
            try:
                h = C.shrink(h, ctx.repo, "C10", clause, extra.get("hashseed"), budget=12)
                i = min(i, len(h) - 1)
            except Exception:  # noqa
                pass
            res["violations"].append(violation_record(h, i, clause, extra))
    C.detail_summary(histories, r["details"], res)
    # correspondence streams actually run: (1) model snapshots / aliasing vs real heap, (2) pristine reads,
    # (3) the same histories in processes with other hash seeds (each evaluated by the oracle on its own)
    res["streams"] = 1 + (1 if r["pristine"] else 0) + (1 if len(r["by_seed"]) > 1 else 0)
    dist["oracle_evaluated_in_processes_with_hashseed"] = sorted(r["by_seed"])
    for (hi, d) in r["disagreements"][:40]:
        res["disagreements"].append({"history": histories[hi], "op_index": d["i"], "what": d["what"],
                                     "model": d.get("model"), "impl": d.get("impl")})
    alias = [(hi, d) for (hi, d) in r["disagreements"] if d["what"].startswith(("which older sets share", "classes of the objects",
                                                                              "objects shared with process-global"))]
    if alias and not res["violations"]:
        # directed search: edit through the shared objects
        todo = []
        for (hi, d) in alias[:12]:
            todo.append((histories[hi], d["i"]))
        full = C.run_jobs([({"mode": "histories", "histories": [h for h, _ in todo], "full": True}, 0)], ctx.repo)[0]
        extra_h = []
        for (h, i), obs in zip(todo, full):
            o = obs[i]
            share = dict(o.get("share") or {})
            if o.get("glob") and not share:
                # shared with a default-argument object only: a second identical creation makes it a pair
                h2 = h[:i + 1] + [h[i]]
                extra_h.append(h2 + [{"op": "edit", "set": sum(1 for q in h2 if q["op"] in ("build", "read")) - 1,
                                      "edit": ["poke", g[1]]} for g in o["glob"][:1]])
                continue
            extra_h.extend(poke_histories(h, i, share))
        if extra_h:
            r2 = C.check_batch(extra_h, ctx.repo, {0: list(range(len(extra_h)))}, "C10", want)
            res["evaluations"] += len(extra_h)
            dist["directed_search_histories"] = len(extra_h)
            seen = set()
            for (hi, i, clause, extra) in r2["violations"]:
                if clause in (3, 4, 5, 6) and clause not in seen:
                    seen.add(clause)
                    res["violations"].append(violation_record(extra_h[hi], i, clause, extra))
    res["rule"] = ("random histories of 3-9 operations: reads of SRT/WebVTT/MicroDVD/DFXP/SAMI/SCC documents (reader "
                   "options varied) on fresh and reused reader objects incl. re-reads of the same document, API builds, "
                   "writes by the 8 writers, edits (add_style, rules in place, caption time/style/layout, node "
                   "append/content, caption removal). Non-trivial = a history that reuses a reader object, or that has "
                   ">= 2 sets and an edit; distinct histories counted.")
    res["samples"] = [C.describe_history(h) for h in histories[len(CORPUS):len(CORPUS) + 5]]
    res["clauses"] = {
        "theorem": ["THE MODEL MEETS THE ORACLE: ok_c10 evaluated on the model's own observations of any history reports "
                    "nothing (C10_model_meets_oracle)",
                    "caption sets created by different reads / builds occupy disjoint, closed regions of the heap, "
                    "whatever the history (invariant over arbitrary histories of reads, builds, writes, edits)",
                    "an edit of one set changes no other set's snapshot; reads, builds and writes change no existing set",
                    "before the repairs: shared default dicts and SCC reader reuse refute the statements (witnesses)",
                    "model-only lemmas (definitional, not about parsing): the model allocates exactly the result tree it "
                    "is given, whatever the store and reader state"],
        "correspondence_only": ["the model abstracts each reader to WHAT IT ALLOCATES for a given result (which dicts "
                                "come from default arguments, what the reader object keeps); the result itself "
                                "(parsing) is taken from a pristine read of the real reader",
                                "that reading is a deterministic function of document and options, independent of "
                                "what was read before, of reader reuse and of the hash seed, is decided by EXECUTION only "
                                "(pristine-read comparison in forked processes; quick: every history in one more process "
                                "with a non-zero hash seed, thorough: all six seeds) on the generated documents"]}
    res["trusted_extra"] = ["harness/iso_worker.py, iso_snap.py, iso_core.py: heap observers (snapshot, id()-graph walk, "
                            "forked pristine reads) and the comparison with the model's predictions"]
    return res


def replay(ctx, rec):
    h = rec["history"]
    ok, r = C.still_fails(h, ctx.repo, "C10", rec["clause"], rec.get("hashseed"))
    return ok, [(i, C.CLAUSES[c]) for (_, i, c, _) in r["violations"]]


SRT1 = "1\n00:00:01,000 --> 00:00:02,000\nhello\n\n2\n00:00:03,000 --> 00:00:04,000\nworld\n"
SRT2 = "1\n00:00:05,000 --> 00:00:06,000\nother\n"
SCC1 = ("Scenarist_SCC V1.0\n\n00:00:01:00\t94ae 94ae 9420 9420 9470 9470 c8e5 ecec ef80 942f 942f\n\n"
        "00:00:03:00\t942c 942c\n")
SCC2 = ("Scenarist_SCC V1.0\n\n00:00:05:00\t94ae 94ae 9420 9420 9470 9470 c2f9 e580 942f 942f\n\n"
        "00:00:07:00\t942c 942c\n")
CORPUS = [
    # defect 2: read A, read B, add a style to A / edit a caption style of A
    [{"op": "read", "fmt": "srt", "doc": SRT1, "opts": {}, "r": 0}, {"op": "read", "fmt": "srt", "doc": SRT2, "opts": {}, "r": 1},
     {"op": "edit", "set": 0, "edit": ["add_style", "x", {"color": "red"}]},
     {"op": "edit", "set": 0, "edit": ["cap_style", 0, 0, "bold", True]},
     {"op": "read", "fmt": "srt", "doc": SRT2, "opts": {}, "r": 2}],
    # defect 3: one SCCReader, read twice
    [{"op": "read", "fmt": "scc", "doc": SCC1, "opts": {}, "r": 0}, {"op": "read", "fmt": "scc", "doc": SCC2, "opts": {}, "r": 0},
     {"op": "edit", "set": 1, "edit": ["append_node", 0, 0, "more"]},
     {"op": "read", "fmt": "scc", "doc": SCC1, "opts": {}, "r": 0}],
]
