"""C11 - italic, bold and underline spans survive conversion and stay balanced.

Streams
  A  caption sets with flat (non-nesting) balanced style spans at arbitrary positions - start / end of a line, across
     breaks, adjacent spans, empty spans, spans without i/b/u - through the conversion chains
        DFXP->DFXP, legacy DFXP->DFXP, single-positioning DFXP->DFXP, SAMI->SAMI, DFXP->SAMI, SAMI->DFXP
     (write, read, [write, read]).  Property oracle: Coq ok_flags (per visible character, the i/b/u flags under the
     mask of what the chain carries: italics through DFXP, all three through SAMI) [request 1102]; every written
     document's markup must be accepted by the strict observer (lxml for DFXP, a tag-balance pass over html.parser
     events for SAMI); every caption every reader returns must have balanced style nodes [1100].
     Correspondence: the sequence of <span>/</span> in every written <p> payload == the trace of the instrumented
     writer model [1105].
  B  the same caption sets through WebVTTWriter: the cue text is read by the Coq WebVTT pass (tags i/b/u must be
     properly nested, per-character flags must equal the authored ones for all three flags) [1103]; correspondence:
     the tags found in the cue text == vtt_tag_evs [1107].
  C  SCC: generated pop-on streams with italics / plain mid-row codes and italic PACs (balanced or not) through the
     real SCCReader; every caption must have balanced style nodes (the SCC decoder itself is modelled by another
     property).
  D  reader outputs for documents with NESTED inline tags (the C04 generator): balanced style nodes.
"""
import re
from html.parser import HTMLParser

import impl
import gens_text as G
from wire import Ok, Err, oracle_batch  # noqa: F401
from pycaption import (DFXPWriter, SAMIWriter, WebVTTWriter, DFXPReader, SAMIReader, SCCReader, WebVTTReader)
from pycaption.dfxp.extras import LegacyDFXPWriter, SinglePositioningDFXPWriter

TABLES = ("Generated.v", "GenText.v")     # model/TextRead.v depends on the generated SAMI entity table

STYLE_POOL = [(True, False, False, None), (False, True, False, None), (False, False, True, None),
              (True, True, False, None), (True, False, True, None), (True, True, True, None),
              (False, False, False, "red"), (True, False, False, "#00ff00"), (False, True, True, None)]

CHAINS = [
    ("DFXP->DFXP", [(DFXPWriter, DFXPReader, (0, ""))], (True, False, False)),
    ("legacyDFXP->DFXP", [(LegacyDFXPWriter, DFXPReader, (1, ""))], (True, False, False)),
    ("singleDFXP->DFXP", [(SinglePositioningDFXPWriter, DFXPReader, (0, ' region="bottom"'))], (True, False, False)),
    ("SAMI->SAMI", [(SAMIWriter, SAMIReader, (2, ""))], (True, True, True)),
    ("DFXP->SAMI", [(DFXPWriter, DFXPReader, (0, "")), (SAMIWriter, SAMIReader, None)], (True, False, False)),
    ("SAMI->DFXP", [(SAMIWriter, SAMIReader, (2, "")), (DFXPWriter, DFXPReader, None)], (True, False, False)),
    # wave 7: three-step chains (theorems C11_chain_dfxp_sami_dfxp / C11_chain_sami_dfxp_sami; model chain = request 1110)
    ("DFXP->SAMI->DFXP", [(DFXPWriter, DFXPReader, (0, "")), (SAMIWriter, SAMIReader, None), (DFXPWriter, DFXPReader, None)],
     (True, False, False)),
    ("SAMI->DFXP->SAMI", [(SAMIWriter, SAMIReader, (2, "")), (DFXPWriter, DFXPReader, None), (SAMIWriter, SAMIReader, None)],
     (True, False, False)),
]
CHAINS.append(("singleDFXP->SAMI->singleDFXP", [(SinglePositioningDFXPWriter, DFXPReader, (0, ' region="bottom"')), (SAMIWriter, SAMIReader, None),
                                               (SinglePositioningDFXPWriter, DFXPReader, None)], (True, False, False)))
# chain name -> (which, extra1, extra2) of request 1110 (audit w7: the region="bottom" legs of the chain theorems are executed too)
CHAIN_MODEL = {"DFXP->SAMI->DFXP": (0, "", ""), "SAMI->DFXP->SAMI": (1, "", ""),
               "singleDFXP->SAMI->singleDFXP": (0, ' region="bottom"', ' region="bottom"')}


def in_chain_domain(spec):
    """the chain / closure theorems' domain: dictionaries without colour, texts without CR / LF (flat balance is asserted above)"""
    return all((n[0] != "s" or n[5] is None) and (n[0] != "t" or ("\n" not in n[1] and "\r" not in n[1])) for n in spec)


def canon(caption):
    nodes = []
    for n in (getattr(caption, "nodes", None) or []):
        if n.type_ == 1:
            nodes.append(("t", n.content))
        elif n.type_ == 3:
            nodes.append(("b",))
        else:
            d = n.content if isinstance(n.content, dict) else {}
            nodes.append(("s", bool(n.start), bool(d.get("italics")), bool(d.get("bold")), bool(d.get("underline")),
                          d.get("color") if isinstance(d.get("color"), str) else None))
    return nodes


def all_captions(cs):
    return [canon(c) for lang in cs.get_languages() for c in cs.get_captions(lang)]


class _SamiBalance(HTMLParser):
    """inside every <p>: span / i / b / u start and end tags must match like parentheses"""
    def __init__(self):
        super().__init__(convert_charrefs=True)
        self.stack = None
        self.ok = True

    def handle_starttag(self, tag, attrs):
        if tag == "p":
            if self.stack:
                self.ok = False
            self.stack = []
        elif tag in ("span", "i", "b", "u") and self.stack is not None:
            self.stack.append(tag)

    def handle_endtag(self, tag):
        if tag == "p":
            if self.stack:
                self.ok = False
            self.stack = None
        elif tag in ("span", "i", "b", "u") and self.stack is not None:
            if not self.stack or self.stack[-1] != tag:
                self.ok = False
            else:
                self.stack.pop()


def markup_ok(W, doc):
    if W is SAMIWriter:
        p = _SamiBalance()
        p.feed(doc)
        p.close()
        return p.ok
    try:
        G.dfxp_cues(doc)
        return True
    except Exception:
        return False


SPAN_RE = re.compile(r"<(/?)span\b")


def span_trace(payload):
    return [m.group(1) == "" for m in SPAN_RE.finditer(payload)]


def model_nodes_py(m):
    out = []
    for n in m:
        if n[0] == 1:
            out.append(("t", n[1]))
        elif n[0] == 3:
            out.append(("b",))
        else:
            out.append(("s", bool(n[1]), bool(n[2]), bool(n[3]), bool(n[4]), None if n[5] == [] else n[5][0]))
    return out


def run_chains(ctx, res, nsets):
    rng = ctx.rng
    viol = res["violations"]
    for k in range(nsets):
        ncap = rng.randint(1, 4)
        specs = [G.rand_caption_nodes(rng, adversarial=rng.choice([0.1, 0.4]), styles=rng.choice([0.5, 0.9]),
                                      style_pool=STYLE_POOL, edge_breaks=0.1) for _ in range(ncap)]
        if rng.random() < 0.3:        # empty and adjacent spans
            s = specs[0]
            st = rng.choice(STYLE_POOL)
            pos = rng.choice([i for i in range(len(s) + 1) if depth_at(s, i) == 0])
            extra = [("s", True) + st, ("s", False) + st]
            if rng.random() < 0.5:
                st2 = rng.choice(STYLE_POOL)
                extra += [("s", True) + st2, ("t", rng.choice(["x", " y", "z "])), ("s", False) + st2]
            specs[0] = s[:pos] + extra + s[pos:]
        flat = oracle_batch([(1101, G.wire_nodes(s)) for s in specs])
        assert all(f == 1 for f in flat), "generator produced a nesting span"
        cs0 = G.capset(specs)
        for (name, steps, mask) in CHAINS:
            cs = cs0
            failed = None
            docs = []
            for (W, R, mreq) in steps:
                out = impl.call(lambda: W().write(cs))
                if not isinstance(out, Ok):
                    failed = ("writer-raises", f"{W.__name__} raised {impl.ERR_NAMES.get(out.code, out.code)}")
                    break
                docs.append((W, out.v, mreq))
                rd = impl.call(lambda: R().read(out.v))
                if not isinstance(rd, Ok):
                    failed = ("reader-raises", f"{R.__name__} raised {impl.ERR_NAMES.get(rd.code, rd.code)} on {W.__name__} output")
                    break
                cs = rd.v
            res["evaluations"] += len(specs)
            res["distribution"][name] = res["distribution"].get(name, 0) + len(specs)
            base = {"fmt": name, "input": specs, "replay": "chain", "shape": "flat-spans"}
            if failed:
                viol.append(dict(base, kind=failed[0], what=f"{name}: {failed[1]}"))
                continue
            for (W, doc, mreq) in docs:
                if not markup_ok(W, doc):
                    viol.append(dict(base, kind="markup-unbalanced", what=f"{name}: {W.__name__} output has unbalanced span markup",
                                     document=doc))
            final = all_captions(cs)
            if len(final) != len(specs):
                viol.append(dict(base, kind="cue-count", what=f"{name}: {len(specs)} captions in, {len(final)} out"))
                continue
            reqs = [(1102, [list(mask), G.wire_nodes(a), G.wire_nodes(o)]) for a, o in zip(specs, final)]
            reqs += [(1100, G.wire_nodes(o)) for o in final]
            reqs += [(1101, G.wire_nodes(o)) for o in final]
            outs = oracle_batch(reqs)
            n = len(specs)
            # audit w7: CLOSURE on REAL reader output - flat_balanced (end node repeats its start node, no nesting) for in-domain
            # captions (theorems C11_*_roundtrip_closed): a failure is a model / implementation disagreement
            for i in range(n):
                if in_chain_domain(specs[i]):
                    key = "closure_real_output_flat_balanced" if outs[2 * n + i] == 1 else "closure_real_output_NOT_flat_balanced"
                    res["distribution"][key] = res["distribution"].get(key, 0) + 1
                    if outs[2 * n + i] != 1 and len(res["disagreements"]) < 50:
                        res["disagreements"].append({"fmt": name, "what": "real reader output is not flat_balanced on an in-domain caption "
                                                     "(C11_*_roundtrip_closed say the reader MODEL's is)", "nodes": specs[i], "impl": final[i]})
            for i in range(n):
                if any(x[0] == "s" for x in specs[i]):
                    res["nontrivial"].add((name, repr(specs[i])))
                if outs[i] != 1:
                    viol.append(dict(base, kind="flags-differ", input=[specs[i]], observed=final[i],
                                     what=f"{name}: italic/bold/underline characters differ after the round trip"))
                if outs[n + i] != 1:
                    viol.append(dict(base, kind="reader-unbalanced", input=[specs[i]], observed=final[i],
                                     what=f"{name}: reader returned unbalanced style nodes"))
            # wave 7: the model chain (writer model -> strict parser -> reader model, three times) beside the real chain:
            # the italic flags of every visible character at the end must agree (a difference = broken tie)
            if name in CHAIN_MODEL:
                cm = CHAIN_MODEL[name]
                ms = oracle_batch([(1110, [cm[0], cm[1], cm[2], G.wire_nodes(a)]) for a in specs])
                for m, a in zip(ms, specs):
                    if m == []:
                        key = "chain_model_undefined_in_domain" if in_chain_domain(a) else "chain_model_undefined_outside_domain"
                        res["distribution"][key] = res["distribution"].get(key, 0) + 1
                        if in_chain_domain(a) and len(res["disagreements"]) < 50:
                            res["disagreements"].append({"fmt": name, "what": "the model chain is undefined on an in-domain caption "
                                                         "(instance of C11_chain_*)", "nodes": a})
                trip = [(m[0], o, a) for m, o, a in zip(ms, final, specs) if m != []]
                have = [(m, o) for m, o, _ in trip]
                # audit w7: ALL THREE flags of the final lists, model chain vs real chain (both lose b / u in a DFXP leg alike)
                cmp_ = oracle_batch([(1102, [[True, True, True], m, G.wire_nodes(o)]) for m, o in have])
                for (m, o), _a in zip(have, [t[2] for t in trip]):
                    same = model_nodes_py(m) == list(o)
                    key = "chain_model_nodes_literally_equal" if same else "chain_model_nodes_differ_literally"
                    res["distribution"][key] = res["distribution"].get(key, 0) + 1
                for (m, o), r, a in zip(have, cmp_, [t[2] for t in trip]):
                    key = "chain_model_flags_equal" if r == 1 else "chain_model_flags_differ"
                    res["distribution"][key] = res["distribution"].get(key, 0) + 1
                    if r != 1 and len(res["disagreements"]) < 50:
                        res["disagreements"].append({"fmt": name, "what": "italic flags at the end of the model chain (request 1110) differ "
                                                     "from those of the real chain", "nodes": a, "impl": o, "model": m})
            # correspondence: span markup of the first written document == model trace
            W, doc, mreq = docs[0]
            pl = [p for p in G.p_payloads(doc) if p.strip() != "&nbsp;"]
            if mreq is not None and len(pl) != len(specs):
                res["distribution"]["trace_comparison_skipped"] = res["distribution"].get("trace_comparison_skipped", 0) + 1
            if mreq is not None and len(pl) == len(specs):
                # INFORMATION only: the statement fixes balance and flags, not which markup spells a span
                traces = oracle_batch([(1105, [mreq[0], mreq[1], G.wire_nodes(s)]) for s in specs])
                for s, p, tr in zip(specs, pl, traces):
                    key = "span_trace_equal" if [bool(x) for x in tr[0]] == span_trace(p) else "span_trace_differs"
                    res["distribution"][key] = res["distribution"].get(key, 0) + 1
            # reader output -> WebVTT (the only writer that uses the END node's dictionary)
            if len(steps) >= 1:
                rd1 = impl.call(lambda: steps[0][1]().read(docs[0][1]))
                wv = impl.call(lambda: WebVTTWriter().write(rd1.v)) if isinstance(rd1, Ok) else rd1
                if isinstance(wv, Ok):
                    pls = vtt_payloads(wv.v)
                    if len(pls) == len(specs):
                        full = all(mask)
                        for s_, p_, o_ in zip(specs, pls, oracle_batch([(1103, [G.wire_nodes(s), p]) for s, p in zip(specs, pls)])):
                            res["evaluations"] += 1
                            if o_[1] == [] or (full and o_[0] != 1):
                                viol.append(dict(base, kind="vtt-tags" if o_[1] == [] else "flags-differ", input=[s_], cue_text=p_,
                                                 replay="chain-vtt", shape="reader-to-webvtt",
                                                 what=f"{name} -> WebVTT: tags written from the reader's nodes are not properly "
                                                      "nested" if o_[1] == [] else f"{name} -> WebVTT: flags differ"))
                        res["distribution"]["reader_to_webvtt"] = res["distribution"].get("reader_to_webvtt", 0) + len(specs)
        # stream B: WebVTT
        out = impl.call(lambda: WebVTTWriter().write(cs0))
        res["evaluations"] += len(specs)
        res["distribution"]["WebVTT"] = res["distribution"].get("WebVTT", 0) + len(specs)
        base = {"fmt": "WebVTT", "input": specs, "replay": "vtt", "shape": "flat-spans"}
        if not isinstance(out, Ok):
            viol.append(dict(base, kind="writer-raises", what="WebVTTWriter raised"))
            continue
        payloads = vtt_payloads(out.v)
        if len(payloads) != len(specs):
            viol.append(dict(base, kind="cue-count", what=f"WebVTT: {len(specs)} captions, {len(payloads)} cues", document=out.v))
            continue
        outs = oracle_batch([(1103, [G.wire_nodes(s), p]) for s, p in zip(specs, payloads)])
        evs = oracle_batch([(1107, G.wire_nodes(s)) for s in specs])
        for s, p, o, ev in zip(specs, payloads, outs, evs):
            if any(x[0] == "s" for x in s):
                res["nontrivial"].add(("WebVTT", repr(s)))
            if o[0] != 1:
                viol.append(dict(base, kind="vtt-tags" if o[1] == [] else "flags-differ", input=[s], cue_text=p,
                                 what="WebVTT: i/b/u tags are not properly nested" if o[1] == [] else
                                      "WebVTT: the characters inside i/b/u tags are not the authored ones"))
            tags = [[m.group(1) == "", "ibu".index(m.group(2))] for m in re.finditer(r"<(/?)([ibu])>", p)]
            key = "vtt_tag_sequence_equal" if tags == [[bool(a), b] for a, b in ev] else "vtt_tag_sequence_differs"
            res["distribution"][key] = res["distribution"].get(key, 0) + 1      # information: the order i,u,b is not the property
        run_layout_split(ctx, res, specs)
        run_options_layouts(ctx, res, specs)


def run_layout_split(ctx, res, specs):
    """captions whose nodes lie in two layout groups (split at a break outside every span): WebVTT writes one cue per group;
    every cue must have properly nested tags, i.e. a span of the second group opens in the second cue"""
    from pycaption.geometry import Layout, Point, Size, UnitEnum
    L = [Layout(origin=Point(Size(10, UnitEnum.PERCENT), Size(10, UnitEnum.PERCENT))),
         Layout(origin=Point(Size(20, UnitEnum.PERCENT), Size(70, UnitEnum.PERCENT)))]
    for spec in specs:
        cuts = [i for i, n in enumerate(spec) if n[0] == "b" and depth_at(spec, i) == 0 and 0 < i < len(spec) - 1]
        if not cuts:
            continue
        cut = ctx.rng.choice(cuts)
        cs = G.capset([spec])
        cap = all_caption_objects(cs)[0]
        for i, node in enumerate(cap.nodes):
            node.layout_info = L[0] if i <= cut else L[1]
        out = impl.call(lambda: WebVTTWriter().write(cs))
        res["evaluations"] += 1
        res["distribution"]["WebVTT_two_layout_groups"] = res["distribution"].get("WebVTT_two_layout_groups", 0) + 1
        base = {"fmt": "WebVTT", "input": [spec], "cut": cut, "replay": "vtt-layout", "shape": "layout-split"}
        if not isinstance(out, Ok):
            res["violations"].append(dict(base, kind="writer-raises", what="WebVTTWriter raised on two layout groups"))
            continue
        pls = vtt_payloads_all(out.v)
        outs = oracle_batch([(1103, [G.wire_nodes(spec), p]) for p in pls])
        if any(o[1] == [] for o in outs):
            res["violations"].append(dict(base, kind="vtt-tags", document=out.v,
                                          what="WebVTT: a cue of a caption with two layout groups has unbalanced i/b/u tags"))


OPTION_SETS = [
    {"write_inline_positioning": True},
    {"write_inline_positioning": True, "relativize": False},
    {"write_inline_positioning": True, "video_width": 640, "video_height": 360},
    {"write_inline_positioning": True, "fit_to_screen": False},
    {"relativize": False},
    {"video_width": 1280, "video_height": 720, "fit_to_screen": False},
    {},
]


def _layout_pool(px):
    from pycaption.geometry import Layout, Point, Size, UnitEnum, Alignment, HorizontalAlignmentEnum, VerticalAlignmentEnum
    U = UnitEnum.PIXEL if px else UnitEnum.PERCENT
    k = 4 if px else 1
    return [Layout(origin=Point(Size(10 * k, U), Size(10 * k, U))),
            Layout(origin=Point(Size(20 * k, U), Size(70 * k, U)), extent=None),
            Layout(alignment=Alignment(HorizontalAlignmentEnum.LEFT, VerticalAlignmentEnum.TOP))]


def options_layout_set(specs, assign, px):
    """a caption set whose captions and nodes (text, break AND style nodes) carry layouts from a pool of three Layout
    OBJECTS shared across captions; assign[i] = (layout of the caption and of its first nodes, cut or None, layout after cut)"""
    L = _layout_pool(px)
    cs = G.capset(specs)
    for cap, (a, cut, b) in zip(all_caption_objects(cs), assign):
        cap.layout_info = L[a]
        for i, node in enumerate(cap.nodes):
            node.layout_info = L[a] if cut is None or i <= cut else L[b]
    return cs


def judge_options_layouts(res, specs, assign, px, wname, opts, base):
    W = {"DFXP": DFXPWriter, "DFXP-single": SinglePositioningDFXPWriter, "DFXP-legacy": LegacyDFXPWriter}[wname]
    cs = options_layout_set(specs, assign, px)
    out = impl.call(lambda: W(**opts).write(cs))
    if not isinstance(out, Ok):
        res["violations"].append(dict(base, kind="writer-raises", what=f"{wname}({opts}) raised {impl.ERR_NAMES.get(out.code, out.code)} on shared layouts"))
        return
    if not markup_ok(W, out.v):
        res["violations"].append(dict(base, kind="markup-unbalanced", document=out.v, what=f"{wname}({opts}): unbalanced span markup"))
        return
    rd = impl.call(lambda: DFXPReader().read(out.v))
    if not isinstance(rd, Ok):
        res["violations"].append(dict(base, kind="reader-raises", document=out.v, what=f"DFXPReader raised on the output of {wname}({opts})"))
        return
    final = all_captions(rd.v)
    if len(final) != len(specs):
        res["violations"].append(dict(base, kind="cue-count", document=out.v, what=f"{wname}({opts}): {len(specs)} captions in, {len(final)} out"))
        return
    outs = oracle_batch([(1102, [[True, False, False], G.wire_nodes(a), G.wire_nodes(o)]) for a, o in zip(specs, final)] +
                        [(1100, G.wire_nodes(o)) for o in final])
    n = len(specs)
    for i in range(n):
        if outs[i] != 1:
            res["violations"].append(dict(base, kind="flags-differ", observed=final[i], caption=i, document=out.v,
                                          what=f"{wname}({opts}) -> DFXP with shared layouts: italic characters differ after the round trip"))
        if outs[n + i] != 1:
            res["violations"].append(dict(base, kind="reader-unbalanced", observed=final[i], caption=i,
                                          what=f"{wname}({opts}) -> DFXP: unbalanced style nodes"))


def run_options_layouts(ctx, res, specs):
    """DFXP writers with constructor options (inline positioning, relativize, video size, fit_to_screen) on captions whose
    nodes - style nodes included - carry layouts shared across the captions of the set"""
    rng = ctx.rng
    opts = rng.choice(OPTION_SETS)
    px = ("video_width" in opts or opts.get("relativize") is False) and rng.random() < 0.4
    assign = []
    for spec in specs:
        cuts = [i for i, n in enumerate(spec) if n[0] == "b" and depth_at(spec, i) == 0 and 0 < i < len(spec) - 1]
        a = rng.randint(0, 2)
        if cuts and rng.random() < 0.4:
            assign.append((a, rng.choice(cuts), rng.randint(0, 2)))
        else:
            assign.append((a, None, a))
    for wname in (["DFXP"] if opts else ["DFXP", "DFXP-single", "DFXP-legacy"]):
        base = {"fmt": wname, "input": specs, "assign": assign, "px": px, "opts": opts, "replay": "options-layouts",
                "shape": "writer-options-shared-layouts"}
        res["evaluations"] += len(specs)
        key = "options_layouts_" + wname
        res["distribution"][key] = res["distribution"].get(key, 0) + len(specs)
        judge_options_layouts(res, specs, assign, px, wname, opts, base)


def all_caption_objects(cs):
    return [c for lang in cs.get_languages() for c in cs.get_captions(lang)]


def vtt_payloads_all(doc):
    """like vtt_payloads, but a new timing line also ends the previous cue (the writer puts no blank line between the
    cues of two layout groups)"""
    out, cur = [], None
    for line in doc.split("\n")[2:]:
        if "-->" in line:
            if cur is not None:
                out.append("\n".join(cur))
            cur = []
        elif line == "":
            if cur is not None:
                out.append("\n".join(cur))
                cur = None
        elif cur is not None:
            cur.append(line)
    if cur is not None:
        out.append("\n".join(cur))
    return out


def depth_at(spec, i):
    d = 0
    for n in spec[:i]:
        if n[0] == "s":
            d += 1 if n[1] else -1
    return d


def vtt_payloads(doc):
    """cue payloads (text after each timing line up to the blank line), joined with line feeds"""
    out = []
    cur = None
    for line in doc.split("\n")[2:]:
        if "-->" in line and cur is None:
            cur = []
        elif line == "":
            if cur is not None:
                out.append("\n".join(cur))
                cur = None
        elif cur is not None:
            cur.append(line)
    if cur is not None:
        out.append("\n".join(cur))
    return out


# ---- stream C: SCC ------------------------------------------------------------------------------------------
def scc_stream(rng, ncaps):
    from pycaption.scc import constants as C
    inv = {v: k for k, v in C.CHARACTERS.items() if v and len(v) == 1}
    rows = {}
    for hi, d in C.PAC_BYTES_TO_POSITIONING_MAP.items():
        for lo, (r, c) in d.items():
            rows.setdefault((r, c), hi + lo)
    ital_pacs = [w for w in sorted(C.ITALICS_COMMANDS) if w[2:] in ("4e", "ce", "6e", "ee", "4f", "cf")]
    lines = ["Scenarist_SCC V1.0", ""]
    t = 1
    for _ in range(ncaps):
        words = ["94ae", "94ae", "9420", "9420"]
        nrows = rng.randint(1, 3)
        start_row = rng.randint(1, 15 - nrows)
        for r in range(nrows):
            if rng.random() < 0.25 and ital_pacs:
                pac = rng.choice(ital_pacs)
            else:
                pac = rows[(start_row + r, 0)]
            words += [pac, pac]
            for _ in range(rng.randint(1, 4)):
                x = rng.random()
                if x < 0.3:
                    words += ["91ae", "91ae"]          # italics on
                elif x < 0.45:
                    words += ["9120", "9120"]          # plain
                elif x < 0.5:
                    words += ["912f", "912f"]          # italics + underline
                txt = "".join(rng.choice("abcdefghij klmnop") for _ in range(rng.randint(1, 6)))
                codes = [inv[ch] for ch in txt]
                if len(codes) % 2:
                    codes.append("80")
                words += [codes[i] + codes[i + 1] for i in range(0, len(codes), 2)]
        words += ["942f", "942f"]
        lines.append("00:00:%02d:00\t%s" % (t, " ".join(words)))
        lines.append("")
        t += 2
        if rng.random() < 0.5:
            lines.append("00:00:%02d:00\t942c 942c" % t)
            lines.append("")
        t += 2
        if t > 55:
            break
    return "\n".join(lines) + "\n"


def run_scc(ctx, res, n):
    for _ in range(n):
        doc = scc_stream(ctx.rng, ctx.rng.randint(1, 6))
        rd = impl.call(lambda: SCCReader().read(doc))
        res["evaluations"] += 1
        if not isinstance(rd, Ok):
            # a decoding failure is the SCC properties' business; counted
            res["distribution"]["scc_reader_raised"] = res["distribution"].get("scc_reader_raised", 0) + 1
            continue
        caps = all_captions(rd.v)
        res["distribution"]["scc_captions"] = res["distribution"].get("scc_captions", 0) + len(caps)
        outs = oracle_batch([(1100, G.wire_nodes(c)) for c in caps]) if caps else []
        for c, o in zip(caps, outs):
            if any(x[0] == "s" for x in c):
                res["nontrivial"].add(("SCC", repr(c)))
            if o != 1:
                res["violations"].append({"kind": "reader-unbalanced", "fmt": "SCC", "shape": "scc", "replay": "scc",
                                          "what": "SCCReader returned a caption with unbalanced style nodes",
                                          "document": doc, "observed": c, "input": doc})


# ---- stream D: nested inline tags read by DFXP / SAMI ------------------------------------------------------------
def run_nested(ctx, res, n):
    import importlib
    C04 = importlib.import_module("props.C04")
    for fmt, R in (("DFXP", DFXPReader), ("SAMI", SAMIReader), ("WebVTT", WebVTTReader)):
        for _ in range(n):
            cues = [C04.rand_cue(ctx.rng, fmt, 0.3) for _ in range(8)]
            contents = oracle_batch([(400, [C04.FMT[fmt], C04.wire_items(c)]) for c in cues])
            contents = [s for s in contents if not C04.in_domain(fmt, s)]
            if not contents:
                continue
            doc = C04.doc_of(fmt, contents)
            rd = impl.call(lambda: R().read(doc))
            res["evaluations"] += len(contents)
            if not isinstance(rd, Ok):
                res["distribution"]["nested_reader_raised"] = res["distribution"].get("nested_reader_raised", 0) + 1
                continue
            caps = all_captions(rd.v)
            res["distribution"]["nested_" + fmt] = res["distribution"].get("nested_" + fmt, 0) + len(caps)
            outs = oracle_batch([(1100, G.wire_nodes(c)) for c in caps]) if caps else []
            for c, o in zip(caps, outs):
                if o != 1:
                    res["violations"].append({"kind": "reader-unbalanced", "fmt": fmt, "shape": "nested", "replay": "doc",
                                              "what": f"{fmt} reader returned a caption with unbalanced style nodes",
                                              "document": doc, "observed": c, "input": doc})


# ---- round 3: layouts with an ALL-ZERO Padding on captions with i / b / u spans -> WebVTT and DFXP ---------------------------
def _zero_layouts():
    from pycaption.geometry import (Layout, Padding, Size, UnitEnum, Alignment, HorizontalAlignmentEnum,
                                    VerticalAlignmentEnum)
    z = lambda: Size(0, UnitEnum.PERCENT)       # noqa: E731
    # the zero padding stands beside another component (an alignment), as in a SAMI stylesheet with zero margins
    # and a text-align: the layout is then not "empty" whatever the truth value of the padding
    al = lambda: Alignment(HorizontalAlignmentEnum.CENTER, VerticalAlignmentEnum.BOTTOM)   # noqa: E731
    return {"empty-padding": Layout(padding=Padding()),
            "zero-padding": Layout(padding=Padding(before=z(), after=z(), start=z(), end=z()), alignment=al())}


def zero_padding_sets(spec, how):
    """caption sets of ONE caption: how = ('api', name) layout objects on the caption and all of its nodes (distinct but equal
    objects per node for 'zero-padding'); ('api-caption-only', name); ('sami', None) a SAMI document whose stylesheet sets every
    margin to 0%, read by the SAMIReader"""
    if how[0] == "sami":
        doc = SAMIWriter().write(G.capset([spec]))
        doc = doc.replace("<!--", "<!--\n    p { margin-left: 0%; margin-right: 0%; margin-top: 0%; margin-bottom: 0%; text-align: center; }", 1)
        return SAMIReader().read(doc)
    cs = G.capset([spec])
    cap = all_caption_objects(cs)[0]
    cap.layout_info = _zero_layouts()[how[1]]
    if how[0] == "api":
        for node in cap.nodes:
            node.layout_info = _zero_layouts()[how[1]]
    return cs


def judge_zero_padding(spec, how):
    """-> list of (kind, what, document)"""
    out = []
    try:
        cs = zero_padding_sets(spec, how)
    except Exception as e:      # the SAMI route failed before the writers under test ran
        return [("setup-raises", "building the set raised %s" % type(e).__name__, None)]
    mask = [True, True, True]
    w = impl.call(lambda: WebVTTWriter().write(cs))
    if not isinstance(w, Ok):
        out.append(("writer-raises", "WebVTTWriter raised on a caption with an all-zero padding layout", None))
    else:
        pls = vtt_payloads_all(w.v)
        rs = oracle_batch([(1103, [G.wire_nodes(spec), p]) for p in pls])
        if any(r[1] == [] for r in rs):
            out.append(("vtt-tags", "WebVTT: a cue of a caption with an all-zero padding layout has unbalanced i/b/u tags "
                        "(a span opened in one cue and closed in another)", w.v))
        elif len(pls) == 1 and rs[0][0] != 1:
            out.append(("flags-differ", "WebVTT: italic/bold/underline characters differ (all-zero padding layout)", w.v))
        elif len(pls) != 1:
            # several cues: the flags of the concatenated cue texts must still be the authored ones
            r = oracle_batch([(1103, [G.wire_nodes(spec), "\n".join(pls)])])[0]
            if r[0] != 1:
                out.append(("flags-differ", "WebVTT: flags differ over the cues of a caption with an all-zero padding layout", w.v))
    d = impl.call(lambda: DFXPWriter().write(cs))
    if not isinstance(d, Ok):
        out.append(("writer-raises", "DFXPWriter raised on a caption with an all-zero padding layout", None))
    else:
        if not markup_ok(DFXPWriter, d.v):
            out.append(("markup-unbalanced", "DFXPWriter output has unbalanced span markup (all-zero padding layout)", d.v))
        rd = impl.call(lambda: DFXPReader().read(d.v))
        final = all_captions(rd.v) if isinstance(rd, Ok) else None
        if final is None or len(final) != 1:
            out.append(("cue-count" if final is not None else "reader-raises", "DFXP round trip of a caption with an all-zero padding layout: "
                        "%s" % ("reader raises" if final is None else "%d captions" % len(final)), d.v))
        else:
            r = oracle_batch([(1102, [[True, False, False], G.wire_nodes(spec), G.wire_nodes(final[0])]), (1100, G.wire_nodes(final[0]))])
            if r[0] != 1:
                out.append(("flags-differ", "DFXP: italic characters differ after the round trip (all-zero padding layout)", d.v))
            if r[1] != 1:
                out.append(("reader-unbalanced", "DFXP reader returned unbalanced style nodes (all-zero padding layout)", d.v))
    return out


ZERO_HOWS = [("api", "empty-padding"), ("api", "zero-padding"), ("api-caption-only", "zero-padding"), ("api-caption-only", "empty-padding"),
             ("sami", None)]


def run_zero_padding(ctx, res, n):
    rng = ctx.rng
    pool = [st for st in STYLE_POOL if st[3] is None]
    for k in range(n):
        spec = G.rand_caption_nodes(rng, adversarial=0.2, styles=0.9, style_pool=pool, edge_breaks=0.0, max_lines=3)
        if sum(1 for x in spec if x[0] == "t") < 2 or not any(x[0] == "s" for x in spec):
            spec = [("t", "a "), ("s", True) + pool[k % len(pool)], ("t", "b"), ("b",), ("t", "c"), ("s", False) + pool[k % len(pool)], ("t", " d")]
        if any(x[0] == "t" and not x[1].strip() for x in spec):
            continue
        for how in ZERO_HOWS:
            res["evaluations"] += 1
            key = "zero_padding_" + how[0] + ("_" + how[1] if how[1] else "")
            res["distribution"][key] = res["distribution"].get(key, 0) + 1
            res["nontrivial"].add(("zero-padding-" + how[0], repr(spec)))
            for kind, what, doc in judge_zero_padding(spec, how):
                if kind == "setup-raises":
                    res["distribution"]["zero_padding_setup_raises"] = res["distribution"].get("zero_padding_setup_raises", 0) + 1
                    continue
                res["violations"].append({"fmt": "zero-padding", "kind": kind, "what": what, "document": doc, "input": [spec],
                                          "how": list(how), "replay": "zero-padding", "shape": "all-zero-padding-layout"})


def run(ctx):
    res = {"evaluations": 0, "nontrivial": set(), "violations": [], "disagreements": [], "distribution": {},
           "streams": 5, "notes": []}
    run_chains(ctx, res, ctx.n(120, 1200))
    run_scc(ctx, res, ctx.n(150, 1500))
    run_nested(ctx, res, ctx.n(12, 300))
    run_zero_padding(ctx, res, ctx.n(14, 300))
    res["rule"] = ("A/B: caption sets of 1-4 captions with flat balanced spans (9 style dictionaries: i, b, u, combinations, "
                   "colour only) through 6 conversion chains + WebVTT; non-trivial = a caption with at least one style node "
                   "(distinct (chain, node list)). C: generated SCC pop-on streams with italic / plain mid-row codes. "
                   "D: documents with nested inline tags read by DFXP / SAMI / WebVTT readers. Evaluations = captions judged.")
    nt = sorted(res["nontrivial"], key=lambda x: len(x[1]))
    res["samples"] = [{"chain": a, "nodes": b[:300]} for a, b in nt[len(nt) // 3:len(nt) // 3 + 3] + nt[-2:]]
    res["clauses"] = {
        "theorem": ["wave 7: CLOSURE - the reader model's output for a written payload is flat-balanced (end node = start node) over "
                    "XML Char texts and plain dictionaries; CHAINS DFXP->SAMI->DFXP and SAMI->DFXP->SAMI on the models keep the italic "
                    "flags of every visible character (C11_chain_*); executed beside the real chains (request 1110)",
                    "DFXP / SAMI reader models return depth-balanced style nodes (all trees; end-node dictionaries not compared); "
                    "the WebVTT reader model has no style nodes (trivial)",
                    "DFXP writer model: every </span> closes an open <span>, the number left open is the open_span flag (any "
                    "node list); flat balanced spans leave none open; SAMI likewise for flat balanced spans",
                    "WebVTT model: the i/b/u tag events for flat balanced spans are properly nested (no layout groups)",
                    "model round trips writer -> strict parser -> reader keep the flags per visible character: italics through "
                    "DFXP / legacy DFXP, i+b+u through SAMI (flat balanced spans, no colour)"],
        "correspondence_only": ["the characters marked i/b/u are the same after DFXP->DFXP, SAMI->SAMI, DFXP<->SAMI on the real "
                                "code (judged by Coq ok_flags)", "WebVTT cue text: per-character flags through the Coq WebVTT "
                                "pass; reader output -> WebVTT; captions with two layout groups (every cue balanced)",
                                "SCC reader output balance (real reader on generated pop-on streams)",
                                "literal span / tag sequence vs the model trace: COUNTED only (first document of a chain)"]}
    res["trusted_extra"] = ["lxml (strict) for DFXP markup, an html.parser tag-balance pass for SAMI markup"]
    return res


def replay(ctx, rec):
    if rec.get("replay") == "zero-padding":
        spec = [tuple(n) for n in rec["input"][0]]
        how = tuple(rec["how"])
        bad = [x for x in judge_zero_padding(spec, how) if x[0] != "setup-raises"]
        return bool(bad), [x[1] for x in bad[:2]]
    r = {"evaluations": 0, "nontrivial": set(), "violations": [], "disagreements": [], "distribution": {}, "notes": []}
    kind = rec.get("replay")
    if kind in ("chain", "vtt"):
        specs = [[tuple(n) for n in s] for s in rec["input"]]
        cs0 = G.capset(specs)
        if kind == "vtt":
            out = impl.call(lambda: WebVTTWriter().write(cs0))
            if not isinstance(out, Ok):
                return True, "writer raises"
            pl = vtt_payloads(out.v)
            if len(pl) != len(specs):
                return True, "cue count"
            outs = oracle_batch([(1103, [G.wire_nodes(s), p]) for s, p in zip(specs, pl)])
            return any(o[0] != 1 for o in outs), pl
        for (name, steps, mask) in CHAINS:
            if name != rec["fmt"]:
                continue
            cs = cs0
            for (W, R, _) in steps:
                out = impl.call(lambda: W().write(cs))
                if not isinstance(out, Ok) or not markup_ok(W, out.v):
                    return True, "writer"
                rd = impl.call(lambda: R().read(out.v))
                if not isinstance(rd, Ok):
                    return True, "reader raises"
                cs = rd.v
            final = all_captions(cs)
            if len(final) != len(specs):
                return True, "cue count"
            outs = oracle_batch([(1102, [list(mask), G.wire_nodes(a), G.wire_nodes(o)]) for a, o in zip(specs, final)] +
                                [(1100, G.wire_nodes(o)) for o in final])
            return any(o != 1 for o in outs), final
    if kind == "options-layouts":
        specs = [[tuple(n) for n in s] for s in rec["input"]]
        assign = [tuple(a) for a in rec["assign"]]
        judge_options_layouts(r, specs, assign, rec["px"], rec["fmt"], dict(rec["opts"]), {"fmt": rec["fmt"]})
        return bool(r["violations"]), [v["what"] for v in r["violations"]][:3]
    if kind == "vtt-layout":
        spec = [tuple(n) for n in rec["input"][0]]
        ctx.rng.choice = lambda l: rec["cut"] if rec["cut"] in l else l[0]
        run_layout_split(ctx, r, [spec])
        return bool(r["violations"]), [v.get("document") for v in r["violations"]]
    if kind == "chain-vtt":
        specs = [[tuple(n) for n in s] for s in rec["input"]]
        for (name, steps, mask) in CHAINS:
            if name != rec["fmt"]:
                continue
            W, R, _ = steps[0]
            out = impl.call(lambda: W().write(G.capset(specs)))
            rd = impl.call(lambda: R().read(out.v)) if isinstance(out, Ok) else out
            wv = impl.call(lambda: WebVTTWriter().write(rd.v)) if isinstance(rd, Ok) else rd
            if not isinstance(wv, Ok):
                return True, "raises"
            pls = vtt_payloads(wv.v)
            outs = oracle_batch([(1103, [G.wire_nodes(s), p]) for s, p in zip(specs, pls)])
            return any(o[1] == [] or (all(mask) and o[0] != 1) for o in outs), pls
    if kind in ("scc", "doc"):
        R = {"SCC": SCCReader, "DFXP": DFXPReader, "SAMI": SAMIReader, "WebVTT": WebVTTReader}[rec["fmt"]]
        rd = impl.call(lambda: R().read(rec["document"]))
        if not isinstance(rd, Ok):
            return False, "reader raises"
        caps = all_captions(rd.v)
        outs = oracle_batch([(1100, G.wire_nodes(c)) for c in caps])
        return any(o != 1 for o in outs), caps
    return False, "unknown replay kind"
