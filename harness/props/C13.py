"""C13 - absolute sizes are relativized exactly or refused; fit-to-screen stays safe.

Streams
  A  Size.as_percentage_of: 5 units x value grid x axis x video dimension (present / absent / 0 / both);
     model (1300) vs implementation; oracle ok_size_pct (exact px*100/dim with 1em=16px, 1pt=4/3px, 32x15 cells,
     refused iff the needed dimension is absent).
  B  Layout.as_percentage_of, Layout.fit_to_screen and BaseWriter._relativize_and_fit_to_screen on generated
     layouts incl. the 89.99/90/90.01 and 94.99/95/95.01 boundaries; oracles ok_layout_pct, ok_fit.
  D  history: the SAME caption set object written 3-5 times in one process under different video sizes (640x360,
     1280x720, 720x576, none, ...) by fresh writers or by one writer object whose options change; every write is checked
     as in C against the expectation for its own options (a memo of relativized layouts keyed without the video size
     shows as stale percentages or as a missing RelativizationError).
  C  end to end: DFXPWriter / SAMIWriter / WebVTTWriter x relativize x fit_to_screen x video sizes on caption sets with
     layouts at language, caption and node level.  Output parsed by lxml (DFXP regions), a CSS-margin scanner (SAMI)
     and a cue-settings scanner (WebVTT).  Checked: with relativization on every written length is a percentage
     equal (two decimals) to the exact value; RelativizationError exactly when a needed dimension is missing;
     WebVTT never carries a non-percentage length in any configuration; with fit on every written caption/node
     region with an origin in the safe area ends at <= 90 / 95.  Expected values come from the extracted models
     dfxp_transform / sami_transform / vtt_caption (coq/model/Positioning.v).
"""
import re
from fractions import Fraction

import impl
import geom
import posgen
from geom import exact, Some
from wire import Ok, Err, oracle_batch, r_result
from pycaption import DFXPWriter, SAMIWriter, WebVTTWriter
from pycaption.base import BaseWriter
from lxml import etree

TABLES = ("GenGeom.v",)
REL = Fraction(1, 10**9)
VALUES = [0, 0.5, 1, 7, 16, 32, 100, 333.333, 1920, 2.675, 12, 15, 72, 96, 0.01, 1e-3, 123456.789]
DIMS = [(640, 360), (1920, 1080), (None, 360), (640, None), (None, None), (3, 7), (0, 0), (0, 360), (1280.5, 720)]
TTS = "http://www.w3.org/ns/ttml#styling"
XML = "http://www.w3.org/XML/1998/namespace"


def close(a, b):
    return abs(a - b) <= REL * max(1, abs(b))


# ------------------------------------------------------------------------------------------------ A
def stream_sizes(ctx, res):
    rng = ctx.rng
    cases = []
    for u in range(5):
        for v in VALUES:
            for d in [640, 360, 1920, 1080, 3, 7, None, 0, 1280.5]:
                for horiz in (True, False):
                    cases.append(((v, u), horiz, d, None))
    for _ in range(ctx.n(1500, 40000)):
        cases.append((geom.rand_size(rng, wild=False), rng.random() < 0.5, rng.choice([640, 360, 1920, 1080, 3, 7, None, 0]),
                      rng.choice([None, None, None, 480])))       # sometimes both dimensions are passed
    obs, reqs_m, reqs_ok = [], [], []
    for s, horiz, d, other in cases:
        size = geom.mk_size(s)
        w, h = (d, other) if horiz else (other, d)
        r = impl.call(lambda: size.as_percentage_of(video_width=w, video_height=h))
        o = Ok(geom.w_size(r.v)) if isinstance(r, Ok) else r
        obs.append(o)
        ws = geom.w_size(size)
        oq = lambda x: None if x is None else Some(exact(x))  # noqa: E731
        reqs_m.append((1300, [ws, oq(w), oq(h)]))
        reqs_ok.append((1301, [ws, horiz, oq(d), o]))
    models = oracle_batch(reqs_m)
    oks = oracle_batch(reqs_ok)
    for (s, horiz, d, other), o, m, ok in zip(cases, obs, models, oks):
        res["evaluations"] += 1
        mm = r_result(m, geom.r_size)
        if other is None:
            if s[1] != 2:
                res["nontrivial"].add(("size", s, horiz, d))
            if ok != 1:
                res["violations"].append({
                    "kind": "size-pct-wrong" if isinstance(o, Ok) else "size-pct-error", "replay": "size",
                    "input": [list(s), horiz, d], "impl_obs": repr(o),
                    "what": f"Size({s[0]}, {geom.UNIT_NAMES[s[1]]}).as_percentage_of({'width' if horiz else 'height'}={d}) "
                            f"-> {o!r}: not the exact percentage / not refused"})
                continue
        same = (isinstance(o, Err) and mm == o) or (isinstance(o, Ok) and isinstance(mm, Ok) and o.v[1] == mm.v[1]
                                                    and close(o.v[0], mm.v[0]))
        if not same:
            res["disagreements"].append({"stream": "size", "input": [list(s), horiz, d, other], "impl": repr(o), "model": repr(mm)})
    res["distribution"]["size_cases"] = len(cases)


# ------------------------------------------------------------------------------------------------ B
EDGE = [89.99, 90, 90.01, 94.99, 95, 95.01, 0, 10, 50, 85, 100]


def layouts_for_fit(rng, n):
    out = []
    for x in EDGE:
        for y in EDGE:
            out.append((((x, 2), (y, 2)), None, None, None, None))
            for ew, eh in [(0, 0), (5, 5), (10, 0.01), (80, 80), (90 - x, 95 - y), (90.01 - x, 95.01 - y)]:
                if ew >= 0 and eh >= 0:
                    out.append((((x, 2), (y, 2)), ((ew, 2), (eh, 2)), None, None, None))
    for _ in range(n):
        out.append(posgen.gen_layout(rng, (2,), p_none=0.2))
    return out


def same_layout(a, b):
    """plain layouts (exact rationals): equal up to REL on values"""
    if (a is None) != (b is None):
        return False
    if a is None:
        return True
    for i in range(3):
        if (a[i] is None) != (b[i] is None):
            return False
        if a[i] is not None:
            for sa, sb in zip(a[i], b[i]):
                if sa[1] != sb[1] or not close(sa[0], sb[0]):
                    return False
    return a[3] == b[3] and (a[4] or None) == (b[4] or None)


def stream_layouts(ctx, res):
    rng = ctx.rng
    # relativize: any units, every video-size pattern
    cases = []
    for _ in range(ctx.n(2500, 60000)):
        units = rng.choice([(0,), (0, 2), (1, 2, 4), (3,), (0, 1, 2, 3, 4)])
        cases.append((posgen.gen_layout(rng, units, p_none=0.3), rng.choice(DIMS)))
    obs, reqs_ok, reqs_m = [], [], []
    oq = lambda x: None if x is None else Some(exact(x))  # noqa: E731
    for l, (w, h) in cases:
        lay = geom.mk_layout(l)
        o = geom.res_layout(impl.call(lambda: lay.as_percentage_of(w, h)))
        obs.append(o)
        wl = geom.w_layout(lay)
        reqs_ok.append((1304, [wl, oq(w), oq(h), o]))
        reqs_m.append((1302, [True, False, oq(w), oq(h), wl]))
    oks = oracle_batch(reqs_ok)
    models = oracle_batch(reqs_m)
    refused = 0
    for (l, (w, h)), o, ok, m in zip(cases, obs, oks, models):
        res["evaluations"] += 1
        if isinstance(o, Err):
            refused += 1
        if any(s is not None and any(x[1] != 2 for x in s) for s in l[:3]):
            res["nontrivial"].add(("layout-pct", repr(l), w, h))
        if ok != 1:
            res["violations"].append({
                "kind": "layout-pct-wrong" if isinstance(o, Ok) else "layout-pct-error", "replay": "layout-pct",
                "input": [l, w, h], "impl_obs": repr(o),
                "what": f"Layout{l!r}.as_percentage_of({w}, {h}) -> {'a layout' if isinstance(o, Ok) else o!r}: some length "
                        f"is not its exact percentage on its axis, or a missing dimension was not refused"})
            continue
        mm = r_result(m, geom.r_layout)
        op = Ok(geom.r_layout_plain(o.v)) if isinstance(o, Ok) else o
        if not ((isinstance(op, Err) and op == mm) or (isinstance(op, Ok) and isinstance(mm, Ok) and same_layout(op.v, mm.v))):
            res["disagreements"].append({"stream": "layout-pct", "input": [l, w, h], "impl": repr(op), "model": repr(mm)})
    res["distribution"]["layout_pct_cases"] = len(cases)
    res["distribution"]["layout_pct_refused"] = refused
    # fit: percentage layouts
    cases = layouts_for_fit(rng, ctx.n(1500, 40000))
    obs, reqs_ok, reqs_m = [], [], []
    for l in cases:
        lay = geom.mk_layout(l)
        o = geom.res_layout(impl.call(lambda: lay.fit_to_screen()))
        obs.append(o)
        wl = geom.w_layout(lay)
        reqs_ok.append((1303, [wl, o]))
        reqs_m.append((1302, [False, True, None, None, wl]))
    oks = oracle_batch(reqs_ok)
    models = oracle_batch(reqs_m)
    changed = 0
    for l, o, ok, m in zip(cases, obs, oks, models):
        res["evaluations"] += 1
        if ok != 1:
            res["violations"].append({
                "kind": "fit-unsafe", "replay": "fit", "input": l, "impl_obs": repr(o),
                "what": f"Layout{l!r}.fit_to_screen(): right edge > 90 / bottom > 95, a missing extent does not reach the "
                        f"edges, or a fitting extent was changed"})
            continue
        mm = r_result(m, geom.r_layout)
        op = Ok(geom.r_layout_plain(o.v)) if isinstance(o, Ok) else o
        if isinstance(op, Ok) and op.v[1] != geom.float_layout(l)[1]:
            changed += 1
            res["nontrivial"].add(("fit", repr(l)))
        if not ((isinstance(op, Err) and op == mm) or (isinstance(op, Ok) and isinstance(mm, Ok) and same_layout(op.v, mm.v))):
            res["disagreements"].append({"stream": "fit", "input": l, "impl": repr(op), "model": repr(mm)})
    res["distribution"]["fit_cases"] = len(cases)
    res["distribution"]["fit_extent_recomputed"] = changed
    # BaseWriter._relativize_and_fit_to_screen, all option combinations
    cases = []
    for _ in range(ctx.n(2000, 50000)):
        units = rng.choice([(2,), (0,), (0, 2), (0, 1, 2, 3, 4)])
        cases.append((posgen.gen_layout(rng, units, p_none=0.3) if rng.random() < 0.9 else (None, None, None, None, rng.choice(["", "line:1"])),
                      rng.random() < 0.7, rng.random() < 0.6, rng.choice(DIMS)))
    reqs_m, obs = [], []
    for l, rel, fit, (w, h) in cases:
        lay = geom.mk_layout(l)
        bw = BaseWriter(relativize=rel, video_width=w, video_height=h, fit_to_screen=fit)
        r = impl.call(lambda: bw._relativize_and_fit_to_screen(lay))
        obs.append(Ok(geom.p_layout(r.v)) if isinstance(r, Ok) else r)
        reqs_m.append((1302, [rel, fit, oq(w), oq(h), geom.w_layout(lay)]))
    models = oracle_batch(reqs_m)
    for (l, rel, fit, (w, h)), o, m in zip(cases, obs, models):
        res["evaluations"] += 1
        mm = r_result(m, geom.r_layout)
        if not ((isinstance(o, Err) and o == mm) or (isinstance(o, Ok) and isinstance(mm, Ok) and same_layout(o.v, mm.v))):
            res["disagreements"].append({"stream": "relativize_and_fit", "input": [l, rel, fit, w, h], "impl": repr(o), "model": repr(mm)})


# ------------------------------------------------------------------------------------------------ C
SIZE_RE = re.compile(r"^(-?\d+(?:\.\d+)?(?:e[+-]?\d+)?)(px|em|%|c|pt)$")


def parse_len(s):
    m = SIZE_RE.match(s)
    if not m:
        return None
    return (Fraction(m.group(1)), geom.UNIT_NAMES.index(m.group(2)))


def dfxp_regions(doc):
    """[(id, {origin: [..], extent: [..], padding: [..]}, raw attrs)] for every <region> of the output"""
    root = etree.fromstring(doc.encode("utf-8"))
    out = []
    for r in root.iter("{http://www.w3.org/ns/ttml}region"):
        att = {}
        for k in ("origin", "extent", "padding"):
            v = r.get("{%s}%s" % (TTS, k))
            if v is not None:
                att[k] = v.split(" ")
        out.append((r.get("{%s}id" % XML), att))
    return out


def sami_margins(doc):
    return [(m.group(1), m.group(2).strip()) for m in re.finditer(r"margin-(top|right|bottom|left):\s*([^;]*);", doc)]


def vtt_settings(doc):
    """per cue: dict of settings (timing lines)"""
    out = []
    for line in doc.split("\n"):
        if "-->" in line:
            parts = line.split(" ")
            d = {}
            for tok in parts[3:]:
                if ":" in tok:
                    k, v = tok.split(":", 1)
                    d[k] = v
                elif tok:
                    d[tok] = None
            out.append(d)
    return out


def expected_sizes(l):
    """plain layout -> {origin: [sizes], extent: [sizes], padding: [before, end, after, start]}"""
    d = {}
    if l is None:
        return d
    if l[0] is not None:
        d["origin"] = list(l[0])
    if l[1] is not None:
        d["extent"] = list(l[1])
    if l[2] is not None:
        b, a, s, e = l[2]
        d["padding"] = [b, e, a, s]
    return d


class Printed:
    """compare printed lengths with exact expected sizes: the model's printer first, the two-decimal relation on mismatch"""

    def __init__(self):
        self.cache = {}

    def model_str(self, sizes):
        need = [s for s in sizes if s not in self.cache]
        if need:
            for s, r in zip(need, oracle_batch([(1802, [s[0], s[1]]) for s in need])):
                self.cache[s] = r
        return [self.cache[s] for s in sizes]

    def match(self, printed, sizes):
        """printed: list of str; sizes: list of (Fraction, unit)"""
        if len(printed) != len(sizes):
            return False
        if any(s[0] < 0 for s in sizes):
            # negative lengths (padding wider than the cue, origin beyond the safe area): outside the size language;
            # compared numerically
            for p, s in zip(printed, sizes):
                v = parse_len(p)
                if v is None or v[1] != s[1] or abs(v[0] - s[0]) > Fraction(1, 200) + REL:
                    return False
            return True
        ms = self.model_str(sizes)
        if ms == printed:
            return True
        oks = oracle_batch([(1309, [[s[0], s[1]], p]) for s, p in zip(sizes, printed)])
        return all(o == 1 for o in oks)


WRITERS = {"dfxp": DFXPWriter, "sami": SAMIWriter, "vtt": WebVTTWriter}


def run_writer(fmt, cfg, acs, cs=None, writer=None):
    """cs / writer: objects reused across a sequence of writes (history streams); default: fresh ones"""
    rel, fit, w, h = cfg
    if cs is None:
        cs = posgen.build(acs)
    if writer is None:
        writer = WRITERS[fmt](relativize=rel, fit_to_screen=fit, video_width=w, video_height=h)
    else:
        writer.relativize, writer.fit_to_screen, writer.video_width, writer.video_height = rel, fit, w, h
    return impl.call(lambda: writer.write(cs))


def truthy(l):
    return l is not None and (any(x is not None for x in l[:4]) or bool(l[4]))


def geo(l):
    """the geometric components of an abstract layout as exact values (what Layout.__eq__ compares)"""
    return None if l is None else geom.float_layout(posgen.tup(l))[:4]


def vtt_group_layouts(nodes):
    """layout of each WebVTT cue a caption is split into (statement: nodes with different layouts -> separate cues)"""
    groups, cur, has = [], None, False
    for n in nodes:
        if n[0] == "text":
            if has and cur is not None and truthy(posgen.tup(cur)) and geo(n[-1]) != geo(cur):
                groups.append(cur)
            cur, has = n[-1], True
        elif n[0] == "break":
            has = True
    if has:
        groups.append(cur)
    return groups


def reached_layouts(fmt, acs):
    """the layouts the writer positions something with (spec side of 'refused iff a needed dimension is missing')"""
    out = []
    if fmt == "sami" and acs["global"] is not None:
        out.append(acs["global"])
    langs = acs["langs"] if fmt != "vtt" else acs["langs"][:1]
    for lg in langs:
        if fmt != "vtt" and lg["layout"] is not None:
            out.append(lg["layout"])
        for c in lg["caps"]:
            if fmt != "vtt":
                if c["layout"] is not None:
                    out.append(c["layout"])
                out.extend(n[-1] for n in c["nodes"] if n[-1] is not None)
            else:
                # per cue (= group of text nodes with one layout): that layout, else the caption's, else the language's
                for g in vtt_group_layouts(c["nodes"]):
                    for cand in (g, c["layout"], lg["layout"]):
                        if cand is not None and truthy(posgen.tup(cand)):
                            out.append(cand)
                            break
    return [posgen.tup(l) for l in out if truthy(posgen.tup(l))]


def check_case(fmt, cfg, acs, printed, res, shape=None, cs=None, writer=None, history=None):
    """returns an outcome tag; violations / disagreements are appended to res.
    history: the configurations already written in this process with the same objects (recorded for the replay)"""
    rel, fit, w, h = cfg
    out = run_writer(fmt, cfg, acs, cs, writer)
    res["evaluations"] += 1
    base = {"replay": "writer", "fmt": fmt, "cfg": list(cfg), "input": acs}
    if history is not None:
        base.update(replay="history", history=[list(c) for c in history], same_writer=writer is not None)
    oq = lambda x: None if x is None else Some(exact(x))  # noqa: E731
    # ---- spec: must the writer refuse?
    reached = reached_layouts(fmt, acs)
    if rel and reached:
        miss = oracle_batch([(1311, [oq(w), oq(h), geom.a_layout_w(geom.float_layout(l))]) for l in reached])
        must_refuse = any(m == 1 for m in miss)
    else:
        must_refuse = False
    # ---- model
    wcfg = posgen.w_cfg(cfg)
    if fmt == "dfxp":
        m = r_result(oracle_batch([(1306, [wcfg, posgen.w_nset(acs)])])[0], posgen.r_nset)
    elif fmt == "sami":
        m = r_result(oracle_batch([(1307, [wcfg, posgen.w_nset(acs)])])[0], posgen.r_nset)
    else:
        lg = acs["langs"][0]
        rs = oracle_batch([(1308, [wcfg, posgen.w_optlayout(lg["layout"]), posgen.w_ncap(c)]) for c in lg["caps"]])
        ms = [r_result(r) for r in rs]
        bad = [x for x in ms if isinstance(x, Err)]
        m = bad[0] if bad else Ok([x.v for x in ms])
    if isinstance(out, Err):
        if out.code == 5 and must_refuse:
            if not (isinstance(m, Err) and m.code == 5):
                res["disagreements"].append(dict(base, stream="writer", impl=repr(out), model=repr(m)[:300]))
            return "refused"
        if rel and out.code == 5 and not must_refuse:
            res["violations"].append(dict(base, kind="refused-without-need", impl_obs=repr(out),
                                          what=f"{fmt} writer raised RelativizationError although every needed video "
                                               f"dimension was supplied (video {w}x{h})"))
            return "viol"
        # other exceptions (ValueError from fit_to_screen on absolute units with relativize off): documented, model must agree
        if not (isinstance(m, Err) and m.code == out.code):
            res["disagreements"].append(dict(base, stream="writer", impl=repr(out), model=repr(m)[:300]))
        return "other-error"
    if must_refuse:
        res["violations"].append(dict(base, kind="not-refused" + ("" if shape is None else "-" + shape), shape=shape,
                                      impl_obs=out.v[:600],
                                      what=f"{fmt} writer (relativize on, video {w}x{h}) wrote a document although a needed "
                                           f"video dimension is missing (must raise RelativizationError)"))
        return "viol"
    doc = out.v
    if fmt == "dfxp":
        regs = dfxp_regions(doc)
        lengths = [(rid, k, x) for rid, att in regs for k, v in att.items() for x in v]
        nonpct = [t for t in lengths if parse_len(t[2]) is None or parse_len(t[2])[1] != 2]
        if rel and nonpct:
            res["violations"].append(dict(base, kind="non-percent-length" + ("" if shape is None else "-" + shape), shape=shape,
                                          impl_obs=repr(nonpct[:4]),
                                          what=f"DFXP output with relativization on carries the length {nonpct[0][2]!r} "
                                               f"(tts:{nonpct[0][1]} of region {nonpct[0][0]})"))
            return "viol"
        if isinstance(m, Err):
            res["disagreements"].append(dict(base, stream="writer", impl="document", model=repr(m)))
            return "dis"
        g, langs = m.v
        exp = []       # (level, expected sizes dict)
        for ll, caps in langs:
            if truthy(ll):
                exp.append(("lang", expected_sizes(ll)))
            for cl, nodes in caps:
                if truthy(cl):
                    exp.append(("cap", expected_sizes(cl)))
                exp.extend(("node", expected_sizes(nl)) for _, nl in nodes if truthy(nl))
        lang_unfit = []
        for rid, att in regs:
            if rid == "bottom" and not att:
                continue
            found = [lvl for lvl, e in exp if set(e) == set(att) and all(printed.match(att[k], e[k]) for k in att)]
            if not found:
                bad = dict(base, impl_obs=repr(att), model=repr(exp)[:500])
                if rel:
                    res["violations"].append(dict(bad, kind="wrong-percentage",
                                                  what=f"DFXP region {rid} {att!r} is not the two-decimal print of the exact "
                                                       f"percentages of any layout of the caption set"))
                    return "viol"
                res["disagreements"].append(dict(bad, stream="writer"))
                return "dis"
            if fit and set(found) == {"lang"} and "origin" in att:
                # the <div> region: DFXPWriter does not fit language-level layouts (pinned test_empty_cue expects the
                # unfitted region) - reported under its own kind, see known_findings.d/C13-dfxp-lang-level-not-fit.json
                x, y = parse_len(att["origin"][0]), parse_len(att["origin"][1])
                if x and y and x[1] == 2 and y[1] == 2 and 0 <= x[0] <= 90 and 0 <= y[0] <= 95:
                    ext = att.get("extent")
                    ok = ext is not None
                    if ok:
                        ew, eh = parse_len(ext[0]), parse_len(ext[1])
                        ok = ew and eh and ew[1] == 2 and eh[1] == 2 and x[0] + ew[0] <= 90 + Fraction(1, 50) \
                            and y[0] + eh[0] <= 95 + Fraction(1, 50)
                    if not ok:
                        lang_unfit.append(dict(base, kind="region-not-fit-lang-level", shape="lang-level-not-fit",
                                               impl_obs=repr(att),
                                               what=f"DFXP <div> region {rid} {att!r} (language-level layout) is written "
                                                    f"unfitted although fit_to_screen is on"))
            if fit and set(found) & {"cap", "node"} and "origin" in att:
                x, y = parse_len(att["origin"][0]), parse_len(att["origin"][1])
                if x and y and x[1] == 2 and y[1] == 2 and 0 <= x[0] <= 90 and 0 <= y[0] <= 95:
                    ext = att.get("extent")
                    ok = ext is not None
                    if ok:
                        ew, eh = parse_len(ext[0]), parse_len(ext[1])
                        ok = ew and eh and ew[1] == 2 and eh[1] == 2 and x[0] + ew[0] <= 90 + Fraction(1, 50) \
                            and y[0] + eh[0] <= 95 + Fraction(1, 50)
                    if not ok:
                        res["violations"].append(dict(base, kind="region-not-fit", impl_obs=repr(att),
                                                      what=f"DFXP region {rid} {att!r} written with fit_to_screen on ends "
                                                           f"beyond 90%/95% or has no extent"))
                        return "viol"
        if lang_unfit:
            res["violations"].append(lang_unfit[0])
            return "known-lang-unfit"
        return "ok"
    if fmt == "sami":
        marg = sami_margins(doc)
        nonpct = [t for t in marg if parse_len(t[1]) is None or parse_len(t[1])[1] != 2]
        if rel and nonpct:
            res["violations"].append(dict(base, kind="non-percent-length", impl_obs=repr(nonpct[:4]),
                                          what=f"SAMI output with relativization on carries margin-{nonpct[0][0]}: {nonpct[0][1]!r}"))
            return "viol"
        if isinstance(m, Err):
            res["disagreements"].append(dict(base, stream="writer", impl="document", model=repr(m)))
            return "dis"
        g, langs = m.v
        exp = []
        for ll, _ in langs:
            if ll is not None and ll[2] is not None:
                b, a, s, e = ll[2]
                exp.extend([("bottom", a), ("left", s), ("right", e), ("top", b)])   # sorted by attribute name
        if len(exp) != len(marg) or any(k != ek or not printed.match([v], [es]) for (k, v), (ek, es) in zip(marg, exp)):
            bad = dict(base, impl_obs=repr(marg), model=repr(exp)[:500])
            if rel:
                res["violations"].append(dict(bad, kind="wrong-percentage",
                                              what=f"SAMI margins {marg!r} are not the two-decimal print of the exact "
                                                   f"percentages of the language-level paddings"))
                return "viol"
            res["disagreements"].append(dict(bad, stream="writer"))
            return "dis"
        return "ok"
    # WebVTT
    cues = vtt_settings(doc)
    for d in cues:
        for k in ("position", "line", "size"):
            if k in d and (parse_len(d[k]) is None or parse_len(d[k])[1] != 2):
                res["violations"].append(dict(base, kind="non-percent-length", impl_obs=repr(d),
                                              what=f"WebVTT output carries the non-percentage length {k}:{d[k]}"))
                return "viol"
    if isinstance(m, Err):
        res["disagreements"].append(dict(base, stream="writer", impl="document", model=repr(m)))
        return "dis"
    exp = [o for cap in m.v for o in cap]
    if len(exp) != len(cues):
        res["disagreements"].append(dict(base, stream="writer", impl=repr(cues), model=repr(exp)[:500], why="cue count"))
        return "dis"
    for d, o in zip(cues, exp):
        if o[0] == 0:
            good = d == {}
        elif o[0] == 1:
            good = True      # raw settings are not generated here
        else:
            al = geom.r_o(o[1], lambda x: x)
            good = d.get("align") == (None if al is None else ["left", "center", "right", "start", "end"][al])
            for k, x in zip(("position", "line", "size"), o[2:5]):
                sz = geom.r_o(x, geom.r_size)
                if sz is None:
                    good = good and k not in d
                else:
                    good = good and k in d and printed.match([d[k]], [sz])
        if not good:
            res["disagreements"].append(dict(base, stream="writer", impl=repr(d), model=repr(o)))
            return "dis"
    return "ok"


CFG_DIMS = [(640, 360), (1920, 1080), (None, 360), (640, None), (None, None), (3, 7)]


def stream_writers(ctx, res):
    rng = ctx.rng
    printed = Printed()
    outcomes = {}
    n = ctx.n(700, 20000)
    for i in range(n):
        fmt = ["dfxp", "sami", "vtt"][i % 3]
        rel = rng.random() < 0.75
        fit = rng.random() < 0.5
        w, h = rng.choice(CFG_DIMS)
        if rel:
            units = rng.choice([(0,), (0, 2), (2,), (0, 1, 2, 3, 4), (1, 3, 4)])
        else:
            # relativize off + fit on is only meaningful on percentage layouts (fit_to_screen documents that it must be
            # called on relativized layouts); absolute layouts with relativize off and fit off are written as they are
            units = (2,) if fit else rng.choice([(2,), (0, 2)])
        pool = [posgen.gen_layout(rng, units) for _ in range(3)]
        acs = posgen.gen_capset(rng, units, levels=("lang", "cap", "node"), pool=pool, with_global=(fmt == "sami"),
                                bare_text_layouts=(fmt == "vtt"))
        shape = None
        if fmt == "dfxp" and rel:
            # language-level layout with an absolute length: the shape of defect #14
            if any(lg["layout"] is not None and any(s is not None and any(x[1] != 2 for x in s) for s in posgen.tup(lg["layout"])[:3])
                   for lg in acs["langs"]):
                shape = "lang-level"
        r = check_case(fmt, (rel, fit, w, h), acs, printed, res, shape)
        key = f"{fmt}:{r}"
        outcomes[key] = outcomes.get(key, 0) + 1
        if r in ("ok", "refused") and rel and units != (2,):
            res["nontrivial"].add(("writer", fmt, repr(acs), rel, fit, w, h))
    res["distribution"]["writer_outcomes"] = outcomes
    res["distribution"]["writer_excluded"] = "relativize off + fit on with absolute units (documented ValueError): not generated"


HISTORY_DIMS = [(640, 360), (1280, 720), (720, 576), (None, None), (640, 360), (None, 360), (1920, 1080)]


def run_history(fmt, acs, seq, same_writer, printed, res):
    """one process, the SAME caption set object (same Layout objects), a sequence of writes under different video sizes
    (a fresh writer per write, or one writer object whose options are changed): every write is checked against the
    exact expectation for ITS OWN options - percentages recomputed, RelativizationError when the size is missing"""
    cs = posgen.build(acs)
    writer = WRITERS[fmt]() if same_writer else None
    done, tags = [], []
    for cfg in seq:
        tags.append(check_case(fmt, cfg, acs, printed, res, None, cs, writer, history=list(done)))
        done.append(cfg)
    return tags


def stream_history(ctx, res):
    rng = ctx.rng
    printed = Printed()
    outcomes = {}
    for i in range(ctx.n(60, 1500)):
        fmt = ["dfxp", "sami", "vtt"][i % 3]
        units = rng.choice([(0,), (0, 2), (0, 1, 3, 4)])
        pool = [posgen.gen_layout(rng, units) for _ in range(2)]
        acs = posgen.gen_capset(rng, units, nlangs=(1, 2), ncaps=(1, 2), levels=("lang", "cap", "node"), pool=pool,
                                with_global=(fmt == "sami"), bare_text_layouts=(fmt == "vtt"))
        k = rng.randint(3, 5)
        dims = [HISTORY_DIMS[0]] + [rng.choice(HISTORY_DIMS[1:]) for _ in range(k - 1)]
        fit = rng.random() < 0.5
        seq = [(True, fit, w, h) for (w, h) in dims]
        for t in run_history(fmt, acs, seq, same_writer=(i % 2 == 0), printed=printed, res=res):
            outcomes[f"{fmt}:{t}"] = outcomes.get(f"{fmt}:{t}", 0) + 1
        res["nontrivial"].add(("history", fmt, repr(acs), repr(dims)))
    res["distribution"]["history_sequences(same layouts, different video sizes, one process)"] = ctx.n(60, 1500)
    res["distribution"]["history_outcomes"] = outcomes


def run(ctx):
    res = {"evaluations": 0, "nontrivial": set(), "violations": [], "disagreements": [], "distribution": {},
           "streams": 4, "notes": []}
    stream_sizes(ctx, res)
    stream_layouts(ctx, res)
    stream_writers(ctx, res)
    stream_history(ctx, res)
    res["rule"] = ("sizes: 5 units x value grid x axis x dimension; layouts: random layouts over unit subsets x video sizes, "
                   "fit on a boundary grid 89.99/90/90.01 x 94.99/95/95.01 + random percentage layouts; writers: DFXP/SAMI/"
                   "WebVTT x relativize x fit x 6 video sizes on caption sets with layouts at language/caption/node level. "
                   "Non-trivial: an absolute unit is involved / the extent is recomputed / a writer case with absolute units.")
    res["samples"] = [{"size": [[64, "px"], "width", 640]}, {"fit": "origin 35% 25% extent 80% 80%"},
                      {"writer": "dfxp relativize on 640x360, language-level origin 64px 36px"}]
    res["clauses"] = {
        "theorem": ["as_percentage_of exact for px/em/pt/c/% on both axes; refused iff the needed dimension is absent (size and layout level)",
                    "fit_to_screen: right <= 90, bottom <= 95 for origins in the safe area; missing extent reaches the edges; fitting extent unchanged",
                    "two-decimal printing within 1/200 (C18 theorem reused)",
                    "DFXP (repaired) / SAMI transformations leave only percentages at language, caption and node level; WebVTT settings are percentages"],
        "correspondence_only": ["binary64 arithmetic of the conversion (model exact, tolerance 1e-9 relative)",
                                "the writers end to end through bs4 / lxml: which layouts reach the document, RelativizationError propagation",
                                "parsing of the written documents (lxml for DFXP regions, margin scanner for SAMI, timing-line scanner for WebVTT)"]}
    return res


def replay(ctx, rec):
    from wire import oracle1
    tag = rec.get("replay")
    oq = lambda x: None if x is None else Some(exact(x))  # noqa: E731
    if tag == "size":
        s, horiz, d = rec["input"]
        size = geom.mk_size(tuple(s))
        r = impl.call(lambda: size.as_percentage_of(video_width=d if horiz else None, video_height=None if horiz else d))
        o = Ok(geom.w_size(r.v)) if isinstance(r, Ok) else r
        return oracle1(1301, [geom.w_size(size), horiz, oq(d), o]) != 1, repr(o)
    if tag == "layout-pct":
        l, w, h = rec["input"]
        lay = geom.mk_layout(posgen.tup(l))
        o = geom.res_layout(impl.call(lambda: lay.as_percentage_of(w, h)))
        return oracle1(1304, [geom.w_layout(lay), oq(w), oq(h), o]) != 1, repr(o)[:300]
    if tag == "fit":
        lay = geom.mk_layout(posgen.tup(rec["input"]))
        o = geom.res_layout(impl.call(lambda: lay.fit_to_screen()))
        return oracle1(1303, [geom.w_layout(lay), o]) != 1, repr(o)[:300]
    if tag == "history":
        res = {"evaluations": 0, "violations": [], "disagreements": []}
        seq = [tuple(c) for c in rec["history"]] + [tuple(rec["cfg"])]
        run_history(rec["fmt"], rec["input"], seq, rec.get("same_writer", False), Printed(), res)
        same = [v for v in res["violations"] if v.get("kind") == rec.get("kind")]
        return bool(same), (same or [{"what": "ok"}])[0]["what"]
    if tag == "writer":
        res = {"evaluations": 0, "violations": [], "disagreements": []}
        cfg = tuple(rec["cfg"])
        check_case(rec["fmt"], cfg, rec["input"], Printed(), res, rec.get("shape"))
        return bool(res["violations"]), (res["violations"] or res["disagreements"] or ["ok"])[0].get("what", "ok") \
            if (res["violations"] or res["disagreements"]) else "ok"
    return False, "unknown replay tag"
