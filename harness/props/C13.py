"""C13 - absolute sizes are relativized exactly or refused; fit-to-screen stays safe.

Streams
  A  Size.as_percentage_of: 5 units x value grid x axis x video dimension (present / absent / 0 / both);
     model (1300) vs implementation; oracle ok_size_pct (exact px*100/dim with 1em=16px, 1pt=4/3px, 32x15 cells,
     refused iff the needed dimension is absent).
  B  Layout.as_percentage_of, Layout.fit_to_screen and BaseWriter._relativize_and_fit_to_screen on generated
     layouts incl. the 89.99/90/90.01 and 94.99/95/95.01 boundaries; oracles ok_layout_pct, ok_fit.
  D  history: the SAME caption set object written 3-5 times in one process under different video sizes (640x360,
     1280x720, 720x576, none, ...) by fresh writers or by one writer object whose options change; every write is checked
     as in C against the expectation for its own options (a memo of relativized layouts keyed without the video size
     shows as stale percentages or as a missing RelativizationError).
  C  end to end: DFXPWriter / SAMIWriter / WebVTTWriter x relativize x fit_to_screen x video sizes on caption sets with
     layouts at language, caption and node level.  Output parsed by lxml (DFXP regions), a CSS-margin scanner (SAMI)
     and a cue-settings scanner (WebVTT).  Checked: with relativization on every written length is a percentage
     equal (two decimals) to the exact value; RelativizationError exactly when a needed dimension is missing;
     WebVTT never carries a non-percentage length in any configuration; with fit on every written caption/node
     region with an origin in the safe area ends at <= 90 / 95.  Expected values come from the extracted models
     dfxp_transform / sami_transform / vtt_caption (coq/model/Positioning.v).
"""
import re
from fractions import Fraction

import impl
import geom
import posgen
from geom import exact, Some
from wire import Ok, Err, oracle_batch, r_result
from pycaption import DFXPWriter, SAMIWriter, WebVTTWriter
from pycaption.base import BaseWriter
from lxml import etree

TABLES = ("GenGeom.v",)
REL = Fraction(1, 10**9)
VALUES = [0, 0.5, 1, 7, 16, 32, 100, 333.333, 1920, 2.675, 12, 15, 72, 96, 0.01, 1e-3, 123456.789]
DIMS = [(640, 360), (1920, 1080), (None, 360), (640, None), (None, None), (3, 7), (0, 0), (0, 360), (1280.5, 720)]
TTS = "http://www.w3.org/ns/ttml#styling"
XML = "http://www.w3.org/XML/1998/namespace"


def close(a, b):
    return abs(a - b) <= REL * max(1, abs(b))


# ------------------------------------------------------------------------------------------------ A
def stream_sizes(ctx, res):
    rng = ctx.rng
    cases = []
    for u in range(5):
        for v in VALUES:
            for d in [640, 360, 1920, 1080, 3, 7, None, 0, 1280.5]:
                for horiz in (True, False):
                    cases.append(((v, u), horiz, d, None))
    for _ in range(ctx.n(1500, 40000)):
        cases.append((geom.rand_size(rng, wild=False), rng.random() < 0.5, rng.choice([640, 360, 1920, 1080, 3, 7, None, 0]),
                      rng.choice([None, None, None, 480])))       # sometimes both dimensions are passed
    obs, reqs_m, reqs_ok = [], [], []
    for s, horiz, d, other in cases:
        size = geom.mk_size(s)
        w, h = (d, other) if horiz else (other, d)
        r = impl.call(lambda: size.as_percentage_of(video_width=w, video_height=h))
        o = Ok(geom.w_size(r.v)) if isinstance(r, Ok) else r
        obs.append(o)
        ws = geom.w_size(size)
        oq = lambda x: None if x is None else Some(exact(x))  # noqa: E731
        reqs_m.append((1300, [ws, oq(w), oq(h)]))
        reqs_ok.append((1301, [ws, horiz, oq(d), o]))
    models = oracle_batch(reqs_m)
    oks = oracle_batch(reqs_ok)
    both = 0
    for (s, horiz, d, other), o, m, ok in zip(cases, obs, models, oks):
        res["evaluations"] += 1
        mm = r_result(m, geom.r_size)
        if other is not None:
            both += 1            # both dimensions passed to one Size: API misuse outside the statement - counted only
            continue
        if other is None:
            if s[1] != 2:
                res["nontrivial"].add(("size", s, horiz, d))
            if ok != 1:
                res["violations"].append({
                    "kind": "size-pct-wrong" if isinstance(o, Ok) else "size-pct-error", "replay": "size",
                    "input": [list(s), horiz, d], "impl_obs": repr(o),
                    "what": f"Size({s[0]}, {geom.UNIT_NAMES[s[1]]}).as_percentage_of({'width' if horiz else 'height'}={d}) "
                            f"-> {o!r}: not the exact percentage / not refused"})
                continue
        same = (isinstance(o, Err) and mm == o) or (isinstance(o, Ok) and isinstance(mm, Ok) and o.v[1] == mm.v[1]
                                                    and close(o.v[0], mm.v[0]))
        if not same:
            res["disagreements"].append({"stream": "size", "input": [list(s), horiz, d, other], "impl": repr(o), "model": repr(mm)})
    res["distribution"]["size_cases"] = len(cases)
    res["distribution"]["size_cases_with_both_dimensions(outside the statement, not compared)"] = both


# ------------------------------------------------------------------------------------------------ B
EDGE = [89.99, 90, 90.01, 94.99, 95, 95.01, 0, 10, 50, 85, 100]


def layouts_for_fit(rng, n):
    out = []
    for x in EDGE:
        for y in EDGE:
            out.append((((x, 2), (y, 2)), None, None, None, None))
            for ew, eh in [(0, 0), (5, 5), (10, 0.01), (80, 80), (90 - x, 95 - y), (90.01 - x, 95.01 - y)]:
                if ew >= 0 and eh >= 0:
                    out.append((((x, 2), (y, 2)), ((ew, 2), (eh, 2)), None, None, None))
    for _ in range(n):
        out.append(posgen.gen_layout(rng, (2,), p_none=0.2))
    return out


def same_layout(a, b):
    """plain layouts (exact rationals): equal up to REL on values"""
    if (a is None) != (b is None):
        return False
    if a is None:
        return True
    for i in range(3):
        if (a[i] is None) != (b[i] is None):
            return False
        if a[i] is not None:
            for sa, sb in zip(a[i], b[i]):
                if sa[1] != sb[1] or not close(sa[0], sb[0]):
                    return False
    return a[3] == b[3]          # webvtt_positioning after a transformation: not in the statement, not compared


def stream_layouts(ctx, res):
    rng = ctx.rng
    # relativize: any units, every video-size pattern
    cases = []
    for _ in range(ctx.n(2500, 60000)):
        units = rng.choice([(0,), (0, 2), (1, 2, 4), (3,), (0, 1, 2, 3, 4)])
        cases.append((posgen.gen_layout(rng, units, p_none=0.3), rng.choice(DIMS)))
    obs, reqs_ok, reqs_m = [], [], []
    oq = lambda x: None if x is None else Some(exact(x))  # noqa: E731
    for l, (w, h) in cases:
        lay = geom.mk_layout(l)
        o = geom.res_layout(impl.call(lambda: lay.as_percentage_of(w, h)))
        obs.append(o)
        wl = geom.w_layout(lay)
        reqs_ok.append((1304, [wl, oq(w), oq(h), o]))
        reqs_m.append((1302, [True, False, oq(w), oq(h), wl]))
    oks = oracle_batch(reqs_ok)
    models = oracle_batch(reqs_m)
    refused = 0
    for (l, (w, h)), o, ok, m in zip(cases, obs, oks, models):
        res["evaluations"] += 1
        if isinstance(o, Err):
            refused += 1
        if any(s is not None and any(x is not None and x[1] != 2 for x in s) for s in l[:3]):
            res["nontrivial"].add(("layout-pct", repr(l), w, h))
        if ok != 1:
            res["violations"].append({
                "kind": "layout-pct-wrong" if isinstance(o, Ok) else "layout-pct-error", "replay": "layout-pct",
                "input": [l, w, h], "impl_obs": repr(o),
                "what": f"Layout{l!r}.as_percentage_of({w}, {h}) -> {'a layout' if isinstance(o, Ok) else o!r}: some length "
                        f"is not its exact percentage on its axis, or a missing dimension was not refused"})
            continue
        mm = r_result(m, geom.r_layout)
        op = Ok(geom.r_layout_plain(o.v)) if isinstance(o, Ok) else o
        if not ((isinstance(op, Err) and op == mm) or (isinstance(op, Ok) and isinstance(mm, Ok) and same_layout(op.v, mm.v))):
            res["disagreements"].append({"stream": "layout-pct", "input": [l, w, h], "impl": repr(op), "model": repr(mm)})
    res["distribution"]["layout_pct_cases"] = len(cases)
    res["distribution"]["layout_pct_refused"] = refused
    # fit: percentage layouts
    cases = layouts_for_fit(rng, ctx.n(1500, 40000))
    obs, reqs_ok, reqs_m = [], [], []
    for l in cases:
        lay = geom.mk_layout(l)
        o = geom.res_layout(impl.call(lambda: lay.fit_to_screen()))
        obs.append(o)
        wl = geom.w_layout(lay)
        reqs_ok.append((1303, [wl, o]))
        reqs_m.append((1302, [False, True, None, None, wl]))
    oks = oracle_batch(reqs_ok)
    models = oracle_batch(reqs_m)
    changed = 0
    outside = 0
    for l, o, ok, m in zip(cases, obs, oks, models):
        res["evaluations"] += 1
        if ok != 1:
            res["violations"].append({
                "kind": "fit-unsafe", "replay": "fit", "input": l, "impl_obs": repr(o),
                "what": f"Layout{l!r}.fit_to_screen(): right edge > 90 / bottom > 95, a missing extent does not reach the "
                        f"edges, or a fitting extent was changed"})
            continue
        mm = r_result(m, geom.r_layout)
        op = Ok(geom.r_layout_plain(o.v)) if isinstance(o, Ok) else o
        if isinstance(op, Ok) and op.v[1] != geom.float_layout(l)[1]:
            changed += 1
            res["nontrivial"].add(("fit", repr(l)))
        fl = geom.float_layout(l)
        if fl[0] is not None and not (0 <= fl[0][0][0] <= 90 and 0 <= fl[0][1][0] <= 95):
            outside += 1         # origin beyond the safe area: the statement makes no claim (C12 owns the round trip) - counted
            continue
        if not ((isinstance(op, Err) and op == mm) or (isinstance(op, Ok) and isinstance(mm, Ok) and same_layout(op.v, mm.v))):
            res["disagreements"].append({"stream": "fit", "input": l, "impl": repr(op), "model": repr(mm)})
    res["distribution"]["fit_cases"] = len(cases)
    res["distribution"]["fit_extent_recomputed"] = changed
    res["distribution"]["fit_cases_origin_outside_safe_area(oracle only, not compared with the model)"] = outside
    # BaseWriter._relativize_and_fit_to_screen, all option combinations
    cases = []
    for _ in range(ctx.n(2000, 50000)):
        units = rng.choice([(2,), (0,), (0, 2), (0, 1, 2, 3, 4)])
        cases.append((posgen.gen_layout(rng, units, p_none=0.3) if rng.random() < 0.9 else (None, None, None, None, rng.choice(["", "line:1"])),
                      rng.random() < 0.7, rng.random() < 0.6, rng.choice(DIMS)))
    reqs_m, obs = [], []
    if not hasattr(BaseWriter, "_relativize_and_fit_to_screen"):
        # a protected helper, not public API: when it is renamed this stream is skipped (the writers are checked end to end)
        res["distribution"]["relativize_and_fit_helper"] = "absent: stream skipped"
        cases = []
    other_errors = 0
    for l, rel, fit, (w, h) in cases:
        lay = geom.mk_layout(l)
        bw = BaseWriter(relativize=rel, video_width=w, video_height=h, fit_to_screen=fit)
        r = impl.call(lambda: bw._relativize_and_fit_to_screen(lay))
        obs.append(Ok(geom.p_layout(r.v)) if isinstance(r, Ok) else r)
        reqs_m.append((1302, [rel, fit, oq(w), oq(h), geom.w_layout(lay)]))
    models = oracle_batch(reqs_m)
    for (l, rel, fit, (w, h)), o, m in zip(cases, obs, models):
        res["evaluations"] += 1
        mm = r_result(m, geom.r_layout)
        if (isinstance(o, Err) and o.code != 5) or (isinstance(mm, Err) and mm.code != 5):
            other_errors += 1    # fit_to_screen on absolute units: the kind of exception is not in the statement - counted
            continue
        if not ((isinstance(o, Err) and o == mm) or (isinstance(o, Ok) and isinstance(mm, Ok) and same_layout(o.v, mm.v))):
            res["disagreements"].append({"stream": "relativize_and_fit", "input": [l, rel, fit, w, h], "impl": repr(o), "model": repr(mm)})


    res["distribution"]["relativize_and_fit_cases_ending_in_another_exception(counted, not compared)"] = other_errors


# ------------------------------------------------------------------------------------------------ C
SIZE_RE = re.compile(r"^(-?\d+(?:\.\d+)?(?:e[+-]?\d+)?)(px|em|%|c|pt)$")


def parse_len(s):
    m = SIZE_RE.match(s)
    if not m:
        return None
    return (Fraction(m.group(1)), geom.UNIT_NAMES.index(m.group(2)))


def dfxp_document(doc):
    """regions {id: {origin/extent/padding: [..]}} and the positioned elements in document order:
    [("div"|"p"|"span", region id or None, inline {origin/extent/padding: [..]}, lang index, caption index)]"""
    root = etree.fromstring(doc.encode("utf-8"))
    ns = "{http://www.w3.org/ns/ttml}"

    def tts(el):
        att = {}
        for k in ("origin", "extent", "padding"):
            v = el.get("{%s}%s" % (TTS, k))
            if v is not None:
                att[k] = v.split(" ")
        return att
    regions = {}
    for r in root.iter(ns + "region"):
        regions[r.get("{%s}id" % XML)] = tts(r)
    elems = []
    for li, div in enumerate(root.iter(ns + "div")):
        elems.append(("div", div.get("region"), tts(div), li, None))
        for ci, p_ in enumerate(div.iter(ns + "p")):
            elems.append(("p", p_.get("region"), tts(p_), li, ci))
            for sp in p_.iter(ns + "span"):
                elems.append(("span", sp.get("region"), tts(sp), li, ci))
    return regions, elems


def same_or_tie(a, b):
    """two printed lengths: same unit and within one hundredth (binary64 result on the other side of a rounding tie), or a
    negative length (outside the size language: the model's printer is not defined there)"""
    if a.startswith("-") or b.startswith("-"):
        return True
    x, y = parse_len(a), parse_len(b)
    return x is not None and y is not None and x[1] == y[1] and abs(x[0] - y[0]) <= Fraction(1, 100)


def sami_blocks(doc):
    """{selector: {margin-top: .., ...}} of the stylesheet (declaration order is irrelevant in CSS)"""
    out = {}
    for m in re.finditer(r"\n\s*(\S+) \{([^}]*)\}", doc):
        decl = {}
        for d in m.group(2).split(";"):
            if ":" in d:
                k, v = d.split(":", 1)
                decl[k.strip()] = v.strip()
        out[m.group(1)] = decl
    return out


def vtt_settings(doc):
    """per cue: (timing, dict of settings) (timing lines)"""
    out = []
    for line in doc.split("\n"):
        if "-->" in line:
            parts = line.split(" ")
            d = {}
            for tok in parts[3:]:
                if ":" in tok:
                    k, v = tok.split(":", 1)
                    d[k] = v
                elif tok:
                    d[tok] = None
            out.append(d)
    return out


def expected_sizes(l):
    """plain layout -> {origin: [sizes], extent: [sizes], padding: [before, end, after, start]}"""
    d = {}
    if l is None:
        return d
    if l[0] is not None:
        d["origin"] = list(l[0])
    if l[1] is not None:
        d["extent"] = list(l[1])
    if l[2] is not None:
        b, a, s, e = l[2]
        d["padding"] = [b, e, a, s]
    return d


class Printed:
    """compare printed lengths with exact expected sizes: the model's printer first, the two-decimal relation on mismatch"""

    def __init__(self):
        self.cache = {}

    def model_str(self, sizes):
        need = [s for s in sizes if s not in self.cache]
        if need:
            for s, r in zip(need, oracle_batch([(1802, [s[0], s[1]]) for s in need])):
                self.cache[s] = r
        return [self.cache[s] for s in sizes]

    def match(self, printed, sizes):
        """printed: list of str; sizes: list of (Fraction, unit)"""
        if len(printed) != len(sizes):
            return False
        if any(s[0] < 0 for s in sizes):
            # negative lengths (padding wider than the cue, origin beyond the safe area): outside the size language;
            # compared numerically
            for p, s in zip(printed, sizes):
                v = parse_len(p)
                if v is None or v[1] != s[1] or abs(v[0] - s[0]) > Fraction(1, 200) + REL:
                    return False
            return True
        ms = self.model_str(sizes)
        if ms == printed:
            return True
        # statement level: <= 2 decimals, unit, within 1/200 (+1e-9); the canonical form is C18's clause, not C13's
        oks = oracle_batch([(1315, [[s[0], s[1]], p]) for s, p in zip(sizes, printed)])
        return all(o == 1 for o in oks)


WRITERS = {"dfxp": DFXPWriter, "sami": SAMIWriter, "vtt": WebVTTWriter}


def opts_of(acs):
    o = acs.get("opts") or {}
    return bool(o.get("inline")), o.get("force")


def run_writer(fmt, cfg, acs, cs=None, writer=None):
    """cs / writer: objects reused across a sequence of writes (history streams); default: fresh ones.
    acs["opts"]: {"inline": write_inline_positioning, "force": language passed as force= (DFXP) / lang= (WebVTT)}"""
    rel, fit, w, h = cfg
    inline, force = opts_of(acs)
    if cs is None:
        cs = posgen.build(acs)
    if writer is None:
        kw = dict(relativize=rel, fit_to_screen=fit, video_width=w, video_height=h)
        if fmt == "dfxp":
            kw["write_inline_positioning"] = inline
        writer = WRITERS[fmt](**kw)
    else:
        writer.relativize, writer.fit_to_screen, writer.video_width, writer.video_height = rel, fit, w, h
        if fmt == "dfxp":
            writer.write_inline_positioning = inline
    if fmt == "dfxp" and force:
        return impl.call(lambda: writer.write(cs, force=force))
    if fmt == "vtt" and force:
        return impl.call(lambda: writer.write(cs, lang=force))
    return impl.call(lambda: writer.write(cs))


def truthy(l):
    return l is not None and (any(x is not None for x in l[:4]) or bool(l[4]))


def geo(l):
    """the geometric components of an abstract layout as exact values (what Layout.__eq__ compares)"""
    return None if l is None else geom.float_layout(posgen.tup(l))[:4]


def vtt_group_layouts(nodes):
    """layout of each WebVTT cue a caption is split into (statement: nodes with different layouts -> separate cues).
    Copy of Positioning.vtt_groups: a text node with another layout starts a new cue; so does a STYLE START node that
    carries a layout different from the current one (the span opens in the cue of its own layout group)"""
    groups, cur, has = [], None, False
    for n in nodes:
        if n[0] == "text":
            if has and cur is not None and truthy(posgen.tup(cur)) and geo(n[-1]) != geo(cur):
                groups.append(cur)
            cur, has = n[-1], True
        elif n[0] == "break":
            has = True
        elif n[0] in ("style", "ustyle"):
            tags = n[0] == "style"
            if n[1] and has and cur is not None and truthy(posgen.tup(cur)) and n[-1] is not None \
                    and truthy(posgen.tup(n[-1])) and geo(n[-1]) != geo(cur):
                groups.append(cur)
                cur, has = n[-1], tags
            else:
                has = has or tags
    if has:
        groups.append(cur)
    return groups


def written_langs(fmt, acs):
    """indices of the languages the call writes"""
    inline, force = opts_of(acs)
    names = [lg["name"] for lg in acs["langs"]]
    if fmt == "dfxp":
        return [names.index(force)] if force in names else list(range(len(names)))
    if fmt == "vtt":
        return [names.index(force)] if force in names else [0]
    return list(range(len(names)))


def project(acs, idx):
    """the caption set restricted to the written languages (what the model is asked about)"""
    return dict(acs, langs=[acs["langs"][i] for i in idx])


def first_truthy(*ls):
    for l in ls:
        if l is not None and truthy(posgen.tup(l)):
            return l
    return None


def layouts_traversed(fmt, acs):
    """every layout the writer may look at: a refusal is legitimate only if one of them needs a missing dimension"""
    inline, force = opts_of(acs)
    out = []
    if (fmt == "sami" or (fmt == "dfxp" and inline)) and acs["global"] is not None:
        out.append(acs["global"])
    for i in written_langs(fmt, acs):
        lg = acs["langs"][i]
        if fmt == "vtt":
            for c in lg["caps"]:
                for g in vtt_group_layouts(c["nodes"]):
                    l = first_truthy(g, c["layout"], lg["layout"])
                    if l is not None:
                        out.append(l)
            continue
        out.append(lg["layout"])
        for c in lg["caps"]:
            out.append(c["layout"])
            out.extend(n[-1] for n in c["nodes"])
    return [posgen.tup(l) for l in out if l is not None and truthy(posgen.tup(l))]


def span_starts(nodes):
    """style-start nodes that get a <span region=..>: those with a (truthy) layout"""
    return [n for n in nodes if n[0] in ("style", "ustyle") and n[1] and n[-1] is not None and truthy(posgen.tup(n[-1]))]


def layouts_written(fmt, acs):
    """the layouts (reduced to the lengths) that reach the document: the writer MUST refuse if one of them needs a missing
    dimension ("instead of writing a wrong or absolute value")"""
    inline, force = opts_of(acs)
    out = []
    if fmt == "sami":
        cands = ([acs["global"]] if acs.get("styles") else []) + [lg["layout"] for lg in acs["langs"]]
        for l in cands:                                   # only paddings are written (margins)
            if l is not None and posgen.tup(l)[2] is not None:
                out.append((None, None, posgen.tup(l)[2], None, None))
        return out
    for i in written_langs(fmt, acs):
        lg = acs["langs"][i]
        if fmt == "vtt":
            for c in lg["caps"]:
                for g in vtt_group_layouts(c["nodes"]):
                    l = first_truthy(g, c["layout"], lg["layout"])
                    if l is not None and not posgen.tup(l)[4]:
                        l = posgen.tup(l)
                        # position / line come from the origin, size from the horizontal extent
                        e = None if l[1] is None else (l[1][0], (0, 2))
                        out.append((l[0], e, None, None, None))
            continue
        g = acs["global"] if inline else None
        div = first_truthy(lg["layout"], g)
        if div is not None:
            out.append(posgen.tup(div))
        for c in lg["caps"]:
            p_ = first_truthy(c["layout"], lg["layout"], g)
            if p_ is not None:
                out.append(posgen.tup(p_))
            out.extend(posgen.tup(n[-1]) for n in span_starts(c["nodes"]))
    return out


def needs(layouts, w, h):
    oq = lambda x: None if x is None else Some(exact(x))  # noqa: E731
    if not layouts:
        return False
    return any(m == 1 for m in oracle_batch([(1311, [oq(w), oq(h), geom.a_layout_w(geom.float_layout(l))]) for l in layouts]))


def lengths_of(att):
    return [x for v in att.values() for x in v]


def is_pct(x):
    v = parse_len(x)
    return v is not None and v[1] == 2


def fits(att):
    """None: no claim (no origin / origin not a percentage inside the safe area); else bool: extent present, right <= 90,
    bottom <= 95 (two two-decimal prints: 1/100 slack)"""
    if "origin" not in att:
        return None
    x, y = parse_len(att["origin"][0]), parse_len(att["origin"][1])
    if not (x and y and x[1] == 2 and y[1] == 2 and 0 <= x[0] <= 90 and 0 <= y[0] <= 95):
        return None
    ext = att.get("extent")
    if ext is None:
        return False
    ew, eh = parse_len(ext[0]), parse_len(ext[1])
    return bool(ew and eh and ew[1] == 2 and eh[1] == 2 and x[0] + ew[0] <= 90 + Fraction(1, 100) and y[0] + eh[0] <= 95 + Fraction(1, 100))


def check_case(fmt, cfg, acs, printed, res, shape=None, cs=None, writer=None, history=None):
    """returns an outcome tag; violations / disagreements are appended to res.
    history: the configurations already written in this process with the same objects (recorded for the replay)"""
    rel, fit, w, h = cfg
    inline, force = opts_of(acs)
    out = run_writer(fmt, cfg, acs, cs, writer)
    res["evaluations"] += 1
    info = res["distribution"].setdefault("writer_information", {})
    base = {"replay": "writer", "fmt": fmt, "cfg": list(cfg), "input": acs}
    if history is not None:
        base.update(replay="history", history=[list(c) for c in history], same_writer=writer is not None)
    # ---- spec: must / may the writer refuse?
    must_refuse = rel and needs(layouts_written(fmt, acs), w, h)
    may_refuse = rel and (must_refuse or needs(layouts_traversed(fmt, acs), w, h))
    # ---- model (asked about the written languages only)
    idx = written_langs(fmt, acs)
    pacs = project(acs, idx)
    wcfg = posgen.w_cfg(cfg)
    if fmt == "dfxp":
        m = r_result(oracle_batch([(1313 if inline else 1306, [wcfg, posgen.w_nset(pacs)])])[0], posgen.r_nset)
    elif fmt == "sami":
        m = r_result(oracle_batch([(1307, [wcfg, posgen.w_nset(pacs)])])[0], posgen.r_nset)
    else:
        lg = pacs["langs"][0]
        rs = oracle_batch([(1308, [wcfg, posgen.w_optlayout(lg["layout"]), posgen.w_ncap(c)]) for c in lg["caps"]])
        ms = [r_result(r) for r in rs]
        bad = [x for x in ms if isinstance(x, Err)]
        m = bad[0] if bad else Ok([x.v for x in ms])
    if isinstance(out, Err):
        if out.code == 5:
            if not may_refuse:
                res["violations"].append(dict(base, kind="refused-without-need", impl_obs=repr(out),
                                              what=f"{fmt} writer raised RelativizationError although no layout it looks at "
                                                   f"needs a missing video dimension (video {w}x{h})"))
                return "viol"
            if not (isinstance(m, Err) and m.code == 5):
                res["disagreements"].append(dict(base, stream="writer", impl=repr(out), model=repr(m)[:300]))
            return "refused"
        # other exceptions (ValueError from fit_to_screen on absolute units with relativize off): documented, model must agree
        if not (isinstance(m, Err) and m.code == out.code):
            res["disagreements"].append(dict(base, stream="writer", impl=repr(out), model=repr(m)[:300]))
        return "other-error"
    if must_refuse:
        res["violations"].append(dict(base, kind="not-refused" + ("" if shape is None else "-" + shape), shape=shape,
                                      impl_obs=out.v[:600],
                                      what=f"{fmt} writer (relativize on, video {w}x{h}) wrote a document with a length whose "
                                           f"video dimension is missing (must raise RelativizationError)"))
        return "viol"
    doc = out.v
    unwritten_refusal = isinstance(m, Err) and m.code == 5
    if unwritten_refusal:
        # the model (like the unchanged code) refuses because of a layout that would not reach the document; the statement
        # asks for refusal "instead of writing a wrong or absolute value" only: counted, the lengths are still checked
        info["document_written_although_a_layout_that_is_never_written_needs_a_dimension"] = \
            info.get("document_written_although_a_layout_that_is_never_written_needs_a_dimension", 0) + 1
    if fmt == "dfxp":
        regions, elems = dfxp_document(doc)

        def att_of(el):
            kind, rid, inl, li, ci = el
            if inline:
                return inl
            if rid is None:
                return {}            # an element without a region attribute (a style-only span) positions nothing itself
            return regions.get(rid)
        # level of the layout each positioned element uses, from the INPUT (div: language, else set level; p: caption, else
        # language, else set level; span: its node)
        in_levels = []
        for lg in pacs["langs"]:
            in_levels.append("lang" if first_truthy(lg["layout"]) is not None else "set")
            for c in lg["caps"]:
                in_levels.append("cap" if first_truthy(c["layout"]) is not None else
                                 ("lang" if first_truthy(lg["layout"]) is not None else "set"))
                in_levels.extend("node" for _ in span_starts(c["nodes"]))
        positioned = [el for el in elems if el[0] != "span" or el[1] is not None or el[2]]
        level_of = dict(zip(map(id, positioned), in_levels)) if len(positioned) == len(in_levels) else {}
        # every length that positions something is a percentage
        for el in elems:
            att = att_of(el)
            if att is None:
                res["violations"].append(dict(base, kind="element-region-missing", impl_obs=repr(el[:2]),
                                              what=f"DFXP <{el[0]} region={el[1]!r}> references a region that is not in the document"))
                return "viol"
            bad = [x for x in lengths_of(att) + lengths_of(el[2]) + lengths_of(regions.get(el[1]) or {}) if not is_pct(x)]
            if rel and bad and not inline and level_of.get(id(el)) == "set" and acs["global"] is not None:
                # the element falls back to the (never relativized) set-level layout and finds the region of an EQUAL layout
                # of a language that force= left untransformed: known_findings.d/C13-dfxp-set-level-fallback-region.json
                res["violations"].append(dict(base, kind="non-percent-length-set-level-fallback", shape="set-level-region",
                                              impl_obs=repr((el[0], el[1], att)),
                                              what=f"DFXP <{el[0]} region={el[1]!r}> falls back to the set-level layout and references "
                                                   f"a region with the absolute length {bad[0]!r} (relativization on)"))
                return "known-set-level-region"
            if rel and bad:
                res["violations"].append(dict(base, kind="non-percent-length" + ("" if shape is None else "-" + shape), shape=shape,
                                              impl_obs=repr((el[0], el[1], att)),
                                              what=f"DFXP output with relativization on carries the length {bad[0]!r} "
                                                   f"on/for <{el[0]} region={el[1]!r}>"))
                return "viol"
        if unwritten_refusal:
            return "ok-unwritten"
        if isinstance(m, Err):
            res["disagreements"].append(dict(base, stream="writer", impl="document", model=repr(m)))
            return "dis"
        g, langs = m.v
        # expected layout of every positioned element (completeness: each div / p / span-with-layout is checked)
        exp_elems = []
        for li, (ll, caps) in enumerate(langs):
            gl = g if inline else None
            exp_elems.append(("div", first_plain(ll, gl), li, None, "lang" if truthy_plain(ll) else "set"))
            for ci, (cl, nodes) in enumerate(caps):
                exp_elems.append(("p", first_plain(cl, ll, gl), li, ci,
                                  "cap" if truthy_plain(cl) else ("lang" if truthy_plain(ll) else "set")))
                src = pacs["langs"][li]["caps"][ci]["nodes"]
                for n, (kind, nl) in zip(src, nodes):
                    if n[0] in ("style", "ustyle") and n[1] and truthy(nl):
                        exp_elems.append(("span", nl, li, ci, "node"))
        if inline:
            # wave 7: the layouts written inline, element by element, as the Coq definition the theorem
            # C13_dfxp_inline_attributes_percent is about computes them (spec/SpecPos7.v inline_layouts, request 1320)
            il = r_result(oracle_batch([(1320, [wcfg, posgen.w_nset(pacs)])])[0])
            mine = [e[1] if truthy_plain(e[1]) else None for e in exp_elems]
            theirs = None if isinstance(il, Err) else \
                [(lambda l: l if truthy_plain(l) else None)(geom.r_o(x, geom.r_layout)) for x in il.v]
            info["inline_element_layouts_compared_with_the_model(request 1320)"] = \
                info.get("inline_element_layouts_compared_with_the_model(request 1320)", 0) + len(mine)
            if mine != theirs:
                res["disagreements"].append(dict(base, stream="writer-inline-choice", impl=repr(mine)[:300], model=repr(theirs)[:300]))
                return "dis"
            # audit w7: from here on the expectation of every element IS the Coq spec's layout (inline_layouts), so the loop below
            # compares the inline attributes printed by pycaption with request 1320 directly
            exp_elems = [(e[0], th if th is not None else e[1], e[2], e[3], e[4]) for e, th in zip(exp_elems, theirs)]
        got = [el for el in elems if el[0] != "span" or el[1] is not None or el[2]]
        if [(e[0], e[2], e[3]) for e in exp_elems] != [(e[0], e[3], e[4]) for e in got]:
            res["violations"].append(dict(base, kind="dfxp-elements", impl_obs=repr([(e[0], e[1]) for e in got])[:400],
                                          what="the positioned elements of the DFXP document (div / p / span with a region) are not "
                                               "those of the caption set (one div per language, one p per caption, one span per style "
                                               "node with a layout)"))
            return "viol"
        lang_unfit = []
        for (kind, el_l, li, ci, level), el in zip(exp_elems, got):
            att = att_of(el)
            e = expected_sizes(el_l)
            alt_ok = False
            if not inline and g is not None and el_l is None:
                # fallback to the set-level layout: a region exists only if an equal layout was written elsewhere
                ge = expected_sizes(g)
                alt_ok = set(ge) == set(att) and all(printed.match(att[k], ge[k]) for k in att)
            good = (set(e) == set(att) and all(printed.match(att[k], e[k]) for k in att)) or alt_ok
            if not good:
                bad = dict(base, impl_obs=repr((kind, el[1], att)), model=repr(e)[:400])
                if rel:
                    res["violations"].append(dict(bad, kind="wrong-percentage",
                                                  what=f"DFXP <{kind} region={el[1]!r}> carries {att!r}: not the two-decimal print of "
                                                       f"the exact percentages of the layout of that {kind}"))
                    return "viol"
                res["disagreements"].append(dict(bad, stream="writer"))
                return "dis"
            if fit and fits(att) is False:
                if level in ("lang", "set"):
                    # DFXPWriter does not fit language-level layouts (pinned test_empty_cue expects the unfitted <div>
                    # region; a <p> without a layout of its own falls back to it):
                    # known_findings.d/C13-dfxp-lang-level-not-fit.json - classified by the LEVEL OF THE LAYOUT the element
                    # uses (from the input), never by the printed values
                    lang_unfit.append(dict(base, kind="region-not-fit-lang-level", shape="lang-level-not-fit", impl_obs=repr(att),
                                           what=f"DFXP <{kind} region={el[1]!r}> {att!r} (language-level layout) is written unfitted "
                                                f"although fit_to_screen is on"))
                else:
                    res["violations"].append(dict(base, kind="region-not-fit", impl_obs=repr((kind, el[1], att)),
                                                  what=f"DFXP <{kind} region={el[1]!r}> {att!r} written with fit_to_screen on ends "
                                                       f"beyond 90%/95% or has no extent"))
                    return "viol"
        if lang_unfit:
            res["violations"].append(lang_unfit[0])
            return "known-lang-unfit"
        return "ok"
    if fmt == "sami":
        blocks = sami_blocks(doc)
        marg = [(sel, k, v) for sel, d in blocks.items() for k, v in d.items() if k.startswith("margin-")]
        nonpct = [t for t in marg if not is_pct(t[2])]
        if rel and nonpct:
            res["violations"].append(dict(base, kind="non-percent-length", impl_obs=repr(nonpct[:4]),
                                          what=f"SAMI output with relativization on carries {nonpct[0][1]}: {nonpct[0][2]!r} in {nonpct[0][0]}"))
            return "viol"
        if unwritten_refusal:
            return "ok-unwritten"
        if isinstance(m, Err):
            res["disagreements"].append(dict(base, stream="writer", impl="document", model=repr(m)))
            return "dis"
        g, langs = m.v
        # round 4: the margins as TEXT (model/Pos13Doc.v sami_doc_margins, request 1322: set-level block, then one block per
        # language) against the stylesheet of the document
        mt = r_result(oracle_batch([(1322, [wcfg, posgen.w_nset(pacs)])])[0])
        if isinstance(mt, Ok):
            mblocks = [dict((k, v) for k, v in b) for b in mt.v]
            sels = ([".c1"] if acs.get("styles") else [None]) + ["." + lg["name"] for lg in pacs["langs"]]
            for sel, mb in zip(sels, mblocks):
                if sel is None:
                    continue
                got = {k: v for k, v in blocks.get(sel, {}).items() if k.startswith("margin-")}
                key = "sami_margin_blocks_identical_to_the_model's_text(request 1322)"
                if got == mb:
                    info[key] = info.get(key, 0) + 1
                elif set(got) == set(mb) and all(same_or_tie(got[k], mb[k]) for k in got):
                    info["sami_margin_blocks_differing_by_a_rounding_tie_or_a_negative_length"] = \
                        info.get("sami_margin_blocks_differing_by_a_rounding_tie_or_a_negative_length", 0) + 1
                else:
                    res["disagreements"].append(dict(base, stream="sami-margins-text", impl=repr((sel, got)), model=repr(mb)))
                    return "dis"
        exp = {}
        for lg, (ll, _) in zip(pacs["langs"], langs):
            exp["." + lg["name"]] = ll
        if acs.get("styles"):
            exp[".c1"] = g
        for sel, lay in exp.items():
            got = {k: v for k, v in blocks.get(sel, {}).items() if k.startswith("margin-")}
            want = {}
            if lay is not None and lay[2] is not None:
                b, a, s_, e = lay[2]
                want = {"margin-top": b, "margin-right": e, "margin-bottom": a, "margin-left": s_}
            if set(got) != set(want) or any(not printed.match([got[k]], [want[k]]) for k in got):
                bad = dict(base, impl_obs=repr((sel, got)), model=repr(want)[:500])
                if rel:
                    res["violations"].append(dict(bad, kind="wrong-percentage",
                                                  what=f"SAMI margins of {sel} {got!r} are not the two-decimal print of the exact "
                                                       f"percentages of that level's padding"))
                    return "viol"
                res["disagreements"].append(dict(bad, stream="writer"))
                return "dis"
        return "ok"
    # WebVTT
    cues = vtt_settings(doc)
    lg = pacs["langs"][0]
    cue_layouts = []
    for c in lg["caps"]:
        for gl in vtt_group_layouts(c["nodes"]):
            cue_layouts.append(first_truthy(gl, c["layout"], lg["layout"]))
    for d, lay in zip(cues, cue_layouts + [None] * len(cues)):
        raw = lay is not None and bool(posgen.tup(lay)[4])
        for k in ("position", "line", "size"):
            if k in d and not is_pct(d[k]):
                if raw:
                    info["raw_cue_settings_with_a_non_percentage_token_passed_through(C12 verbatim clause)"] = \
                        info.get("raw_cue_settings_with_a_non_percentage_token_passed_through(C12 verbatim clause)", 0) + 1
                    continue
                res["violations"].append(dict(base, kind="non-percent-length", impl_obs=repr(d),
                                              what=f"WebVTT output carries the non-percentage length {k}:{d[k]}"))
                return "viol"
    # fit clause on computed cues: origin inside the safe area -> right edge (position + size) <= 90
    if rel and fit and len(cues) == len(cue_layouts):
        oq = lambda x: None if x is None else Some(exact(x))  # noqa: E731
        todo = [(d, posgen.tup(l)) for d, l in zip(cues, cue_layouts) if l is not None and not posgen.tup(l)[4] and posgen.tup(l)[0] is not None]
        rels = oracle_batch([(1302, [True, False, oq(w), oq(h), geom.a_layout_w(geom.float_layout(l))]) for _, l in todo])
        for (d, l), r1 in zip(todo, rels):
            l1 = r_result(r1, geom.r_layout)
            if isinstance(l1, Err):
                continue
            x, y = l1.v[0][0][0], l1.v[0][1][0]
            if not (0 <= x <= 90 and 0 <= y <= 95):
                continue
            ps = l1.v[2][2][0] if l1.v[2] else 0
            pe = l1.v[2][3][0] if l1.v[2] else 0
            room = 90 - x - ps - pe
            sz = parse_len(d["size"]) if "size" in d else None
            if sz is None or sz[0] > room + Fraction(1, 100) or (l1.v[1] is None and abs(sz[0] - room) > Fraction(1, 100)):
                res["violations"].append(dict(base, kind="vtt-not-fit", impl_obs=repr(d),
                                              what=f"WebVTT cue {d!r} written with fit_to_screen on: origin x = {float(x):.2f}% is inside "
                                                   f"the safe area but size is missing or exceeds the room up to 90% ({float(room):.2f}%)"))
                return "viol"
    if unwritten_refusal:
        return "ok-unwritten"
    if isinstance(m, Err):
        res["disagreements"].append(dict(base, stream="writer", impl="document", model=repr(m)))
        return "dis"
    exp = [o for cap in m.v for o in cap]
    if len(exp) != len(cues):
        res["disagreements"].append(dict(base, stream="writer", impl=repr(cues), model=repr(exp)[:500], why="cue count"))
        return "dis"
    for d, o in zip(cues, exp):
        if o[0] == 0:
            good = d == {}
        elif o[0] == 1:
            good = True      # raw settings: verbatim (C12)
        else:
            al = geom.r_o(o[1], lambda x: x)
            good = d.get("align") == (None if al is None else ["left", "center", "right", "start", "end"][al])
            for k, x in zip(("position", "line", "size"), o[2:5]):
                sz = geom.r_o(x, geom.r_size)
                if sz is None:
                    good = good and k not in d
                else:
                    good = good and k in d and printed.match([d[k]], [sz])
        if not good:
            res["disagreements"].append(dict(base, stream="writer", impl=repr(d), model=repr(o)))
            return "dis"
    return "ok"


def truthy_plain(l):
    return l is not None and truthy(l)


def first_plain(*ls):
    """first truthy plain (model output) layout"""
    for l in ls:
        if l is not None and truthy(l):
            return l
    return None


CFG_DIMS = [(640, 360), (1920, 1080), (None, 360), (640, None), (None, None), (3, 7), (0, 360), (1280.5, 720.25)]
RAW_SETTINGS = ["position:10%,start line:5% size:50%", "line:-1 align:left", "position:10px"]


def gen_writer_case(rng, fmt, rel, fit, history=False):
    if rel:
        units = rng.choice([(0,), (0, 2), (2,), (0, 1, 2, 3, 4), (1, 3, 4)])
    else:
        # relativize off + fit on is only meaningful on percentage layouts (fit_to_screen documents that it must be
        # called on relativized layouts); absolute layouts with relativize off and fit off are written as they are
        units = (2,) if fit else rng.choice([(2,), (0, 2)])
    if history:
        units = rng.choice([(0,), (0, 2), (0, 1, 3, 4)])
    pool = [posgen.gen_layout(rng, units) for _ in range(3)]
    acs = posgen.gen_capset(rng, units, levels=("lang", "cap", "node"), pool=pool, with_global=True,
                            bare_text_layouts=(fmt == "vtt"), break_layouts=True, style_only=True)
    acs["opts"] = {"inline": fmt == "dfxp" and rng.random() < 0.3,
                   "force": rng.choice([lg["name"] for lg in acs["langs"]]) if fmt in ("dfxp", "vtt") and rng.random() < 0.25 else None}
    if fmt == "sami" and rng.random() < 0.5:
        acs["styles"] = True
    if fmt == "vtt" and rng.random() < 0.15:
        # raw cue settings at caption level (as WebVTTReader attaches them): passed through verbatim
        c = rng.choice(acs["langs"][0]["caps"])
        c["layout"] = (None, None, None, None, rng.choice(RAW_SETTINGS))
        for n in c["nodes"]:
            if n[0] == "text":
                n[-1] = None
    return acs, units


def stream_writers(ctx, res):
    rng = ctx.rng
    printed = Printed()
    outcomes = {}
    n = ctx.n(640, 20000)
    for i in range(n):
        fmt = ["dfxp", "sami", "vtt"][i % 3]
        rel = rng.random() < 0.75
        fit = rng.random() < 0.5
        w, h = rng.choice(CFG_DIMS)
        acs, units = gen_writer_case(rng, fmt, rel, fit)
        r = check_case(fmt, (rel, fit, w, h), acs, printed, res, None)
        key = f"{fmt}:{r}"
        outcomes[key] = outcomes.get(key, 0) + 1
        if r in ("ok", "refused") and rel and units != (2,):
            res["nontrivial"].add(("writer", fmt, repr(acs), rel, fit, w, h))
    # deterministic shape of the known finding C13-dfxp-set-level-fallback-region: set-level px layout, forced language
    # without layouts, another language carrying an equal layout
    L = (((64, 0), (36, 0)), None, None, None, None)
    acs = {"global": L, "opts": {"inline": False, "force": "en-US"},
           "langs": [{"name": "en-US", "layout": None, "caps": [{"layout": None, "nodes": [["text", "alpha0", None]]}]},
                     {"name": "fr", "layout": None, "caps": [{"layout": L, "nodes": [["text", "beta1", None]]}]}]}
    r = check_case("dfxp", (True, False, 640, 360), acs, printed, res, None)
    outcomes[f"dfxp:{r}"] = outcomes.get(f"dfxp:{r}", 0) + 1
    # exhaustive: every pair of units for the x / y coordinate of a WebVTT origin (mixed ones such as "48px 10%" included),
    # without / with an extent, relativize x fit x video size present / absent (relativize off + fit on: not generated)
    VAL = {0: 48, 1: 2, 2: 10, 3: 3, 4: 18}
    for ux in range(5):
        for uy in range(5):
            for ext in (None, ((VAL[uy], uy), (VAL[ux], ux))):
                L = (((VAL[ux], ux), (VAL[uy], uy)), ext, None, None, None)
                acs = {"global": None, "opts": {"inline": False, "force": None},
                       "langs": [{"name": "en-US", "layout": None, "caps": [{"layout": L, "nodes": [["text", "alpha0", L]]}]}]}
                for rel, fit in ((True, False), (True, True), (False, False)):
                    for w, h in ((640, 360), (None, None)):
                        r = check_case("vtt", (rel, fit, w, h), acs, printed, res, None)
                        outcomes[f"vtt-unit-grid:{r}"] = outcomes.get(f"vtt-unit-grid:{r}", 0) + 1
    res["distribution"]["writer_outcomes"] = outcomes
    res["distribution"]["writer_excluded"] = "relativize off + fit on with absolute units (documented ValueError): not generated"


HISTORY_DIMS = [(640, 360), (1280, 720), (720, 576), (None, None), (640, 360), (None, 360), (1920, 1080)]


def run_history(fmt, acs, seq, same_writer, printed, res):
    """one process, the SAME caption set object (same Layout objects), a sequence of writes under different video sizes
    (a fresh writer per write, or one writer object whose options are changed): every write is checked against the
    exact expectation for ITS OWN options - percentages recomputed, RelativizationError when the size is missing"""
    cs = posgen.build(acs)
    writer = WRITERS[fmt]() if same_writer else None
    done, tags = [], []
    for cfg in seq:
        tags.append(check_case(fmt, cfg, acs, printed, res, None, cs, writer, history=list(done)))
        done.append(cfg)
    return tags


def stream_history(ctx, res):
    rng = ctx.rng
    printed = Printed()
    outcomes = {}
    for i in range(ctx.n(60, 1500)):
        fmt = ["dfxp", "sami", "vtt"][i % 3]
        acs, units = gen_writer_case(rng, fmt, True, False, history=True)
        k = rng.randint(3, 5)
        dims = [HISTORY_DIMS[0]] + [rng.choice(HISTORY_DIMS[1:]) for _ in range(k - 1)]
        fit = rng.random() < 0.5
        seq = [(True, fit, w, h) for (w, h) in dims]
        for t in run_history(fmt, acs, seq, same_writer=(i % 2 == 0), printed=printed, res=res):
            outcomes[f"{fmt}:{t}"] = outcomes.get(f"{fmt}:{t}", 0) + 1
        res["nontrivial"].add(("history", fmt, repr(acs), repr(dims)))
    res["distribution"]["history_sequences(same layouts, different video sizes, one process)"] = ctx.n(60, 1500)
    res["distribution"]["history_outcomes"] = outcomes


def run(ctx):
    res = {"evaluations": 0, "nontrivial": set(), "violations": [], "disagreements": [], "distribution": {},
           "streams": 4, "notes": []}
    stream_sizes(ctx, res)
    stream_layouts(ctx, res)
    stream_writers(ctx, res)
    stream_history(ctx, res)
    res["rule"] = ("sizes: 5 units x value grid x axis x dimension; layouts: random layouts over unit subsets x video sizes, "
                   "fit on a boundary grid 89.99/90/90.01 x 94.99/95/95.01 + random percentage layouts; writers: DFXP/SAMI/"
                   "WebVTT x relativize x fit x 6 video sizes on caption sets with layouts at language/caption/node level. "
                   "Non-trivial: an absolute unit is involved / the extent is recomputed / a writer case with absolute units.")
    res["samples"] = [{"size": [[64, "px"], "width", 640]}, {"fit": "origin 35% 25% extent 80% 80%"},
                      {"writer": "dfxp relativize on 640x360, language-level origin 64px 36px"}]
    res["clauses"] = {
        "theorem": ["as_percentage_of exact for px/em/pt/c/% on both axes; refused iff the needed dimension is absent (size and layout level)",
                    "fit_to_screen: right <= 90, bottom <= 95 for origins in the safe area; missing extent reaches the edges; fitting extent unchanged",
                    "two-decimal printing within 1/200 (C18 theorem reused)",
                    "DFXP (repaired) / SAMI transformations leave only percentages at language, caption and node level; WebVTT settings are percentages"],
        "correspondence_only": ["binary64 arithmetic of the conversion (model exact, tolerance 1e-9 relative)",
                                "the writers end to end through bs4 / lxml: which layouts reach the document, RelativizationError propagation",
                                "parsing of the written documents (lxml for DFXP regions, margin scanner for SAMI, timing-line scanner for WebVTT)"]}
    return res


def replay(ctx, rec):
    from wire import oracle1
    tag = rec.get("replay")
    oq = lambda x: None if x is None else Some(exact(x))  # noqa: E731
    if tag == "size":
        s, horiz, d = rec["input"]
        size = geom.mk_size(tuple(s))
        r = impl.call(lambda: size.as_percentage_of(video_width=d if horiz else None, video_height=None if horiz else d))
        o = Ok(geom.w_size(r.v)) if isinstance(r, Ok) else r
        return oracle1(1301, [geom.w_size(size), horiz, oq(d), o]) != 1, repr(o)
    if tag == "layout-pct":
        l, w, h = rec["input"]
        lay = geom.mk_layout(posgen.tup(l))
        o = geom.res_layout(impl.call(lambda: lay.as_percentage_of(w, h)))
        return oracle1(1304, [geom.w_layout(lay), oq(w), oq(h), o]) != 1, repr(o)[:300]
    if tag == "fit":
        lay = geom.mk_layout(posgen.tup(rec["input"]))
        o = geom.res_layout(impl.call(lambda: lay.fit_to_screen()))
        return oracle1(1303, [geom.w_layout(lay), o]) != 1, repr(o)[:300]
    if tag == "history":
        res = {"evaluations": 0, "violations": [], "disagreements": []}
        seq = [tuple(c) for c in rec["history"]] + [tuple(rec["cfg"])]
        run_history(rec["fmt"], rec["input"], seq, rec.get("same_writer", False), Printed(), res)
        same = [v for v in res["violations"] if v.get("kind") == rec.get("kind")]
        return bool(same), (same or [{"what": "ok"}])[0]["what"]
    if tag == "writer":
        res = {"evaluations": 0, "violations": [], "disagreements": []}
        cfg = tuple(rec["cfg"])
        check_case(rec["fmt"], cfg, rec["input"], Printed(), res, rec.get("shape"))
        return bool(res["violations"]), (res["violations"] or res["disagreements"] or ["ok"])[0].get("what", "ok") \
            if (res["violations"] or res["disagreements"]) else "ok"
    return False, "unknown replay tag"
