"""C01 - readers preserve every cue's start and end instant (SRT, WebVTT, DFXP, SAMI, MicroDVD).

Abstract documents (numeric stamp fields + zero padding + fraction digits; cues in any order; coq/spec/SpecTime.v) are
rendered by the Coq spec renderer (SRT, WebVTT, MicroDVD: whole documents; DFXP, SAMI: the attribute strings, the document
around them is assembled here); the real reader (public API, Reader().read, lang option varied, fresh and long-lived
reader objects) and the extracted model (coq/model/TimeRead.v, TimeTree.v) read the text.  Property oracle: Coq ok_times /
ok_times_alt (requests 105 / 116) on what the implementation returned, against floor(instant * 10^6) per non-empty cue
computed in Q by the spec.  Correspondence: model == implementation on every in-domain document (failing); on the
malformed / raw stream, strict WebVTT on unsorted cues and blank paragraphs with junk times the two are compared incl.
the exception class but a difference is only RECORDED (the property is silent there).
"""
import json
from fractions import Fraction

import impl
import timegen as tg
from wire import Ok, Err, Some, oracle_batch, oracle1, r_result
from pycaption import SRTReader, WebVTTReader, DFXPReader, SAMIReader, MicroDVDReader

FORMATS = ["srt", "vtt", "mdvd", "dfxp", "sami"]


def plain(x):
    """abstract input -> JSON-able"""
    if isinstance(x, Some):
        return {"some": plain(x.v)}
    if isinstance(x, (list, tuple)):
        return [plain(y) for y in x]
    return x


def unplain(x):
    if isinstance(x, dict):
        return Some(unplain(x["some"]))
    if isinstance(x, list):
        return [unplain(y) for y in x]
    return x


def times_of(cs, lang=None):
    """observation: Ok([[start, end], ...]) with exact integers, or a marker for non-integral values"""
    langs = cs.get_languages()
    if not langs:
        return []          # an empty caption set holds no caption (the exception is not demanded)
    lang = lang if lang is not None else langs[0]
    out = []
    for c in cs.get_captions(lang):
        pair = []
        for v in (c.start, c.end):
            if isinstance(v, bool) or not isinstance(v, (int, float)):
                f = Fraction(v) if isinstance(v, Fraction) else None
                if f is None or f.denominator != 1:
                    return ("non-integer", repr(v))
                v = int(f)
            elif isinstance(v, float):
                f = Fraction(*v.as_integer_ratio())
                if f.denominator != 1:
                    return ("non-integer", repr(v))
                v = int(f)
            pair.append(v)
        out.append(pair)
    return out


def make_reader(fmt, opts=None):
    if fmt == "srt":
        return SRTReader()
    if fmt == "vtt":
        strict, shift = opts
        return WebVTTReader(ignore_timing_errors=not strict, time_shift_milliseconds=shift)
    if fmt == "mdvd":
        return MicroDVDReader()
    if fmt in ("dfxp", "dfxp-tree", "dfxp-text"):
        return DFXPReader()
    if fmt in ("sami", "sami-tree", "sami-text"):
        return SAMIReader()
    raise ValueError(fmt)


def extract(fmt, cs, lang=None, rlang=None):
    if rlang is not None:
        # the `lang` option of SRTReader / WebVTTReader / MicroDVDReader: the captions are filed under that language only
        if cs.get_languages() != [rlang]:
            return ("languages", repr(cs.get_languages()))
        return times_of(cs, rlang)
    if fmt == "dfxp":
        return times_of(cs, lang)
    if fmt == "sami":
        return {l: times_of(cs, l) for l in cs.get_languages()}
    if fmt in ("dfxp-tree", "sami-tree", "dfxp-text", "sami-text"):
        return [[l, times_of(cs, l)] for l in cs.get_languages()]
    return times_of(cs)


def do_read(reader, doc, rlang):
    return reader.read(doc, lang=rlang) if rlang is not None else reader.read(doc)


def read_with(fmt, doc, opts=None, lang=None, rlang=None):
    """run the real reader (a fresh object); Ok(list of [start, end]) or Err(code) or ('non-integer', repr)"""
    return impl.call(lambda: extract(fmt, do_read(make_reader(fmt, opts), doc, rlang), lang, rlang))


# history: one long-lived reader object per format (and per option set) reads every generated document after having
# read the others; C01's instants must not depend on what a reader object has read before
REUSED = {}


def read_reused(fmt, doc, opts=None, lang=None, rlang=None):
    """(observation of the long-lived reader, the last documents it read before)"""
    key = (fmt, tuple(opts) if opts else None)
    if key not in REUSED:
        REUSED[key] = [make_reader(fmt, opts), []]
    reader, hist = REUSED[key]
    prev = list(hist)
    r = impl.call(lambda: extract(fmt, do_read(reader, doc, rlang), lang, rlang))
    hist.append(doc)
    del hist[:-12]
    return r, prev


def check_reuse(acc, fmt, rec, fresh, doc, opts=None, lang=None, rlang=None, dom=True):
    """the long-lived reader must return what the fresh reader returns (value; on in-domain documents only)"""
    reused, prev = read_reused(fmt, doc, opts, lang, rlang)
    if not dom:
        return
    d = acc.res["distribution"]
    d["reads_with_a_reused_reader_object"] = d.get("reads_with_a_reused_reader_object", 0) + 1
    same_obs = (isinstance(fresh, Ok) and isinstance(reused, Ok) and fresh.v == reused.v) or \
               (isinstance(fresh, Err) and isinstance(reused, Err) and fresh.code == reused.code)
    if not same_obs:
        v = dict(rec)
        v.update({"kind": fmt.split("-")[0] + "-reused-reader", "format": fmt, "replay": "reuse", "history": prev,
                  "document": doc, "opts": plain(opts), "lang": lang, "rlang": rlang,
                  "what": ("a %s reader object that had read other documents before returned %s; a fresh reader returns %s"
                           % (fmt, show(reused), show(fresh)))[:500]})
        acc.res["violations"].append(v)


def model_times(m):
    """wire result of of_rcaps / of_result of_pairs -> Ok([[s, e], ...]) / Err"""
    r = r_result(m)
    if isinstance(r, Ok):
        return Ok([[c[0], c[1]] for c in r.v])
    return r


class Acc:
    def __init__(self):
        self.res = {"evaluations": 0, "nontrivial": set(), "violations": [], "disagreements": [], "distribution": {},
                    "streams": 0, "notes": [], "samples": []}
        self.pending = []   # (fmt, record, expected, impl_obs, model_obs, in_dom)
        self.alt = {}       # index in pending -> expected under the other admissible reading (begin+dur)

    def add(self, fmt, rec, expected, obs, model, in_dom=True, expected2=None):
        self.alt[len(self.pending)] = expected2
        # a document without any non-empty cue: CaptionReadNoCaptions is the documented answer
        if expected == [] and isinstance(obs, Err) and obs.code == 1:
            obs = Ok([])
        if expected == [] and isinstance(model, Err) and model.code == 1:
            model = Ok([])
        self.pending.append((fmt, rec, expected, obs, model, in_dom))

    def flush(self):
        reqs = []
        idx = []
        for i, (fmt, rec, expected, obs, model, in_dom) in enumerate(self.pending):
            if isinstance(obs, (Ok, Err)) and not (isinstance(obs, Ok) and isinstance(obs.v, tuple)):
                if self.alt.get(i) is not None:
                    reqs.append((116, [expected, self.alt[i], obs]))
                else:
                    reqs.append((105, [expected, obs]))
                idx.append(i)
        oks = oracle_batch(reqs) if reqs else []
        okmap = dict(zip(idx, oks))
        d = self.res["distribution"]
        for i, (fmt, rec, expected, obs, model, in_dom) in enumerate(self.pending):
            self.res["evaluations"] += 1
            d[fmt + "_cases"] = d.get(fmt + "_cases", 0) + 1
            if not in_dom:
                d[fmt + "_out_of_domain_dropped"] = d.get(fmt + "_out_of_domain_dropped", 0) + 1
                continue
            ok = okmap.get(i, 0) == 1
            if not ok:
                self.shrunk = getattr(self, "shrunk", 0) + 1
                small = shrink(fmt, rec) if self.shrunk <= 12 else None
                if small is not None:
                    rec, expected, obs = small
                what = (f"{fmt} reader returned {show(obs)} for a document denoting {expected}")
                v = dict(rec)
                v.update({"kind": fmt + "-times", "what": what[:400], "format": fmt, "expected": expected,
                          "impl_obs": show(obs), "replay": "doc"})
                self.res["violations"].append(v)
            elif model is not None and not (isinstance(obs, Ok) and isinstance(model, Ok) and obs.v == model.v):
                if self.alt.get(i) is not None:
                    # the implementation took the other admissible reading of begin+dur: counted, not a failure
                    d["begin_dur_other_reading_than_model"] = d.get("begin_dur_other_reading_than_model", 0) + 1
                else:
                    self.res["disagreements"].append({"format": fmt, "input": rec, "impl": show(obs),
                                                      "model": show(model)})
        self.pending = []
        self.alt = {}


SHRINK = {"srt": (100, 1), "vtt": (101, 3), "mdvd": (102, 2)}


def shrink(fmt, rec):
    """try the one-cue sub-documents; return (rec, expected, obs) of the first one that still violates"""
    try:
        d = unplain(rec["input"])
        if fmt in SHRINK:
            code, k = SHRINK[fmt]
            cues = d[k]
            if len(cues) <= 1:
                return None
            subs = [d[:k] + [[c]] + d[k + 1:] for c in cues]
            outs = oracle_batch([(code, x) for x in subs])
            opts = tuple(rec["opts"]) if fmt == "vtt" else None
            for x, o in zip(subs, outs):
                obs = read_with(fmt, o[0], opts)
                exp = o[2]
                if exp == [] and isinstance(obs, Err) and obs.code == 1:
                    continue
                if oracle1(105, [exp, obs]) != 1 if isinstance(obs, (Ok, Err)) and not (
                        isinstance(obs, Ok) and isinstance(obs.v, tuple)) else True:
                    return {"input": plain(x), "document": o[0], "opts": rec["opts"]}, exp, obs
        if fmt == "dfxp":
            ps = d
            if len(ps) <= 1:
                return None
            outs = oracle_batch([(103, [p]) for p in ps])
            for p, o in zip(ps, outs):
                b, e, dd = [x[0] if x else None for x in o[0][0]]
                doc = tg.dfxp_doc([("en", [(b, e, dd, "text")])])
                obs = read_with("dfxp", doc, lang="en")
                if not isinstance(obs, (Ok, Err)) or (isinstance(obs, Ok) and isinstance(obs.v, tuple)) or \
                        oracle1(105, [o[2], obs]) != 1:
                    return {"input": plain([p]), "document": doc, "opts": None}, o[2], obs
    except Exception:  # shrinking is best effort
        return None
    return None


def show(o):
    if isinstance(o, Ok):
        return o.v
    if isinstance(o, Err):
        return "raised " + impl.ERR_NAMES.get(o.code, str(o.code))
    return repr(o)


def unwrap(obs):
    """impl.call result whose value may be the ('non-integer', ..) marker"""
    if isinstance(obs, Ok) and isinstance(obs.v, tuple):
        return obs
    return obs


# ------------------------------------------------------------------------------------------------
def stream_docs(ctx, acc, fmt, n, gen, code, args_of, opts_of, nontriv):
    docs = [gen(ctx.rng) for _ in range(n)]
    outs = oracle_batch([(code, args_of(d)) for d in docs])
    trimmed = []
    for d, o in zip(docs, outs):
        text, model, expected, dom = o[0], model_times(o[1]), o[2], all(x == 1 for x in o[3:])
        rlang = ctx.rng.choice([None, None, None, "fr", "xx-YY", "en", "de-CH"])
        obs = read_with(fmt, text, opts_of(d), rlang=rlang)
        if not dom and fmt == "vtt" and o[3] == 1 and not d[0]:
            dom = True          # unsorted / overlapping cues are inside the domain of the lenient reader
        check_reuse(acc, fmt, {"input": plain(d)}, obs, text, opts_of(d), rlang=rlang,
                    dom=dom and not (fmt == "vtt" and d[0] and o[4] != 1))
        dd0 = acc.res["distribution"]
        if rlang is not None:
            dd0[fmt + "_read_with_lang_option"] = dd0.get(fmt + "_read_with_lang_option", 0) + 1
        cl = {"srt": 1, "vtt": 3, "mdvd": 2}[fmt]
        if len(d[cl]) > 6:
            dd0[fmt + "_documents_with_more_than_50_cues"] = dd0.get(fmt + "_documents_with_more_than_50_cues", 0) + 1
        if dom and (expected != sorted(expected) or any(a[1] > b[0] for a, b in zip(expected, expected[1:]))
                    or any(a > b for a, b in expected)):
            dd0[fmt + "_documents_unsorted_or_overlapping"] = dd0.get(fmt + "_documents_unsorted_or_overlapping", 0) + 1
        if fmt == "vtt" and o[3] == 1 and o[4] != 1 and d[0]:
            # strict reader on unsorted cues: refusal is the documented behaviour; compare model and implementation
            acc.res["distribution"]["vtt_strict_unsorted_compared_with_model_only"] = \
                acc.res["distribution"].get("vtt_strict_unsorted_compared_with_model_only", 0) + 1
            if not same(obs, model):
                differs(acc.res, {"format": fmt, "input": plain(d), "impl": show(obs), "model": show(model)})
            acc.res["evaluations"] += 1
            continue
        rec = {"input": plain(d), "document": text, "opts": plain(opts_of(d)), "rlang": rlang}
        acc.add(fmt, rec, expected, obs, model, dom)
        if dom and fmt == "mdvd":
            dd = acc.res["distribution"]
            dd["mdvd_cues_inside_one_frame"] = dd.get("mdvd_cues_inside_one_frame", 0) + sum(1 for c in d[2] if c[1] == c[3])
            dd["mdvd_cues_inside_one_frame_with_numeric_text"] = dd.get("mdvd_cues_inside_one_frame_with_numeric_text", 0) \
                + mdvd_same_frame_numeric(d)
        if dom:
            acc.res["nontrivial"] |= {(fmt,) + tuple(k) for k in nontriv(d)}
            if ctx.rng.random() < 0.3:
                trimmed.append((d, text.rstrip("\r\n"), expected))
    # the same documents without the final line terminator / trailing blank lines (outside the renderer, hence outside
    # the document theorems; well-formed all the same)
    raw_code = {"srt": 109, "mdvd": 110, "vtt": 113}[fmt]
    margs = [(raw_code, [d[0], d[1], t2] if fmt == "vtt" else t2) for (d, t2, e) in trimmed]
    for (d, t2, expected), m in zip(trimmed, oracle_batch(margs) if margs else []):
        obs = read_with(fmt, t2, opts_of(d))
        rec = {"input": plain(d), "document": t2, "opts": plain(opts_of(d))}
        acc.add(fmt, rec, expected, obs, model_times(m), True)
        acc.res["distribution"][fmt + "_without_final_newline"] = acc.res["distribution"].get(fmt + "_without_final_newline", 0) + 1
    if docs:
        acc.res["samples"].append({"format": fmt, "input": plain(docs[0]), "document": outs[0][0], "expected": outs[0][2]})
    acc.flush()


def differs(res, rec):
    """model and implementation differ on an input about which the property says nothing (malformed text, refused
    unsorted cues): recorded and counted, never a failure"""
    res.setdefault("model_differences", []).append(rec)
    d = res["distribution"]
    d["model_differences_outside_the_property"] = d.get("model_differences_outside_the_property", 0) + 1


def same(obs, model):
    return (isinstance(obs, Ok) and isinstance(model, Ok) and obs.v == model.v) or \
           (isinstance(obs, Err) and isinstance(model, Err) and obs.code == model.code)


def mdvd_same_frame_numeric(d):
    return sum(1 for c in d[2] if c[1] == c[3] and any(l.replace(".", "").isdigit() for l in c[4]))


def mdvd_nontriv(d):
    fps = None if d[1] is None else (d[1].v[1], tuple(d[1].v[2]))
    return {(fps, c[1], c[3]) for c in d[2] if c[1] or c[3]}


def stream_dfxp(ctx, acc, n):
    cases = [tg.gen_dfxp_ps(ctx.rng) for _ in range(n)]
    outs = oracle_batch([(103, ps) for ps in cases])
    for ps, o in zip(cases, outs):
        attrs, model, expected, dom = o[0], r_result(o[1]), o[2], o[3] == 1
        rows = []
        for k, a in enumerate(attrs):
            b, e, d = [x[0] if x else None for x in a]
            rows.append((b, e, d, "text %d" % k))
        # a second language division with its own cues checks that divisions are kept apart
        doc = tg.dfxp_doc([("en", rows), ("fr", [("1s", "2s", None, "autre")])])
        obs = read_with("dfxp", doc, lang="en")
        check_reuse(acc, "dfxp", {"input": plain(ps)}, obs, doc, None, "en")
        rec = {"input": plain(ps), "document": doc, "opts": None}
        acc.add("dfxp", rec, expected, obs, model, dom)
        if dom:
            for p in ps:
                acc.res["nontrivial"].add(("dfxp", repr(p[0])))
                acc.res["nontrivial"].add(("dfxp", repr(p[2]), p[1]))
    if cases:
        acc.res["samples"].append({"format": "dfxp", "input": plain(cases[0]), "attrs": outs[0][0], "expected": outs[0][2]})
    acc.flush()


def stream_sami(ctx, acc, n):
    cases = [tg.gen_sami(ctx.rng) for _ in range(n)]
    reqs = []
    for (nl, syncs) in cases:
        for li in range(nl):
            reqs.append((104, tg.sami_lang_ps(syncs, li)))
    outs = iter(oracle_batch(reqs))
    for (nl, syncs) in cases:
        starts = ["0" * pad + str(ms) for (pad, ms, _) in syncs]
        doc = tg.sami_doc(nl, syncs, starts)
        r = read_with("sami", doc)
        check_reuse(acc, "sami", {"input": plain([nl, [[p, ms, sorted(pr.items())] for (p, ms, pr) in syncs]])}, r, doc)
        for li in range(nl):
            o = next(outs)
            ps = tg.sami_lang_ps(syncs, li)
            lang = tg.SAMI_LANGS[li][1]
            assert o[0] == ["0" * p[0] + str(p[1]) for p in ps], "spec renderer and harness disagree on a sync start"
            model, expected, dom = r_result(o[1]), o[2], o[3] == 1
            if isinstance(r, Ok):
                obs = Ok(r.v.get(lang, []))
            elif isinstance(r, Err) and r.code == 1 and not any(p[2] for s in [syncs] for p in
                                                                [x for li2 in range(nl) for x in tg.sami_lang_ps(syncs, li2)]):
                obs = Ok([])       # no cue with text in any language: CaptionReadNoCaptions is the documented answer
            else:
                obs = r
            if not expected and isinstance(r, Ok) and lang not in r.v:
                obs = Ok([])
            rec = {"input": plain([nl, [[p, ms, sorted(pr.items())] for (p, ms, pr) in syncs]]), "document": doc,
                   "opts": lang}
            acc.add("sami", rec, expected, obs, model, dom)
            if dom and len(ps) >= 2:
                acc.res["nontrivial"].add(("sami", tuple((p[1], p[2]) for p in ps)))
    if cases:
        acc.res["samples"].append({"format": "sami", "input": plain(cases[0][1])})
    acc.flush()


# ---- whole DFXP / SAMI documents as abstract trees (requests 114 / 115) --------------------------------
EXTRA_ATTRS = [("region", "r1"), ("style", "s1"), ("xml:id", "p%d"), ("tts:textalign", "center"), ("role", "x")]
BLANK_ATTRS = [[], [("begin", "junk")], [("begin", "1s")], [("end", "2s")], [("begin", "5s"), ("end", "1s")], [("dur", "x")]]


WELL_FORMED_BLANK = [[], [("begin", "1s")], [("end", "2s")], [("begin", "1s"), ("dur", "2s")]]
JUNK_BLANK = [[("begin", "junk")], [("begin", "5s"), ("end", "1s")], [("dur", "x")]]


def gen_dfxp_doc(rng):
    """a document tree: <div>s (several of one language, nested ones, with / without own xml:lang) holding <p>s with and
    without text; now and then a <p> outside every <div>.  Returns (tt lang, tree, has_junk_blank)."""
    tt = rng.choice([None, None, "en", "fr", "de-AT"])
    pool = [None, None, None, "en-US", "es", "pt-BR"]
    state = {"k": 0, "junk": False}

    def gen_p():
        state["k"] += 1
        if rng.random() < 0.25:
            if rng.random() < 0.3:
                state["junk"] = True
                return ["p", [1, [list(a) for a in rng.choice(JUNK_BLANK)]]]
            return ["p", [1, [list(a) for a in rng.choice(WELL_FORMED_BLANK)]]]
        ex = [[n, v % state["k"] if "%d" in v else v] for (n, v) in rng.sample(EXTRA_ATTRS, rng.choice([0, 0, 1, 2]))]
        return ["p", [0, ex, [tg.gen_texpr(rng), rng.random() < 0.3, tg.gen_texpr(rng)]]]

    def gen_div(depth):
        kids = []
        for _ in range(rng.choice([0, 1, 2, 2, 3])):
            if depth < 2 and rng.random() < 0.2:
                kids.append(gen_div(depth + 1))
            else:
                kids.append(gen_p())
        return ["div", rng.choice(pool), kids]

    tree = []
    for _ in range(rng.choice([1, 2, 2, 3, 4])):
        tree.append(gen_p() if rng.random() < 0.08 else gen_div(0))
    return tt, tree, state["junk"]


def flatten_dfxp(tree):
    """(div chains, paragraphs with the chain of their nearest div or None) in document order"""
    divs, ps = [], []

    def walk(node, chain):
        if node[0] == "p":
            ps.append([None if chain is None else Some([None if x is None else Some(x) for x in chain]), node[1]])
        else:
            ch = [node[1]] + (chain or [])
            divs.append([None if x is None else Some(x) for x in ch])
            for k in node[2]:
                walk(k, ch)
    for n in tree:
        walk(n, None)
    return divs, ps


def render_dfxp_doc(tt, tree, rendered, frame_rate=None):
    it = iter(rendered)
    n = [0]

    def walk(node):
        if node[0] == "p":
            attrs, text = next(it)
            n[0] += 1
            a = "".join(' %s="%s"' % (nm, v) for (nm, v) in attrs)
            return "<p%s>%s</p>" % (a, ("words %d" % n[0]) if text == 1 else "  ")
        return "<div%s>\n%s\n</div>" % ("" if node[1] is None else ' xml:lang="%s"' % node[1],
                                         "\n".join(walk(k) for k in node[2]))
    body = "\n".join(walk(x) for x in tree)
    return ('<?xml version="1.0" encoding="utf-8"?>\n<tt%s%s xmlns="http://www.w3.org/ns/ttml" '
            'xmlns:tts="http://www.w3.org/ns/ttml#styling" xmlns:ttp="http://www.w3.org/ns/ttml#parameter"><head></head><body>\n%s\n</body></tt>'
            % ("" if tt is None else ' xml:lang="%s"' % tt, "" if frame_rate is None else ' ttp:frameRate="%s"' % frame_rate, body))


def dict_obs(cs):
    return [[l, times_of(cs, l)] for l in cs.get_languages()]


def lang_ok(caps, alt, times):
    if alt is not None:
        return oracle1(116, [caps, alt, Ok(times)]) == 1
    return oracle1(105, [caps, Ok(times)]) == 1


def compare_dict(acc, fmt, rec, expected, obs, model, dom, expected2=None):
    """expected / model: Ok([[lang, pairs], ..]) / Err ; obs: Ok([[lang, times]..]) / Err.  The oracle is evaluated per
    language (requests 105 / 116).  A language without any expected caption may be missing; a document without any
    caption may be refused or returned empty; the order of the languages belongs to C14 (recorded, not failed)."""
    res = acc.res
    res["evaluations"] += 1
    d = res["distribution"]
    d[fmt + "_cases"] = d.get(fmt + "_cases", 0) + 1
    if not dom:
        d[fmt + "_out_of_domain_dropped"] = d.get(fmt + "_out_of_domain_dropped", 0) + 1
        return
    exp = expected.v if isinstance(expected, Ok) else []
    alt = dict(expected2.v) if isinstance(expected2, Ok) else {}
    if isinstance(obs, Err):
        ok = obs.code == 1 and all(not caps for (_, caps) in exp)
    elif any(isinstance(t, tuple) for (_, t) in obs.v):
        ok = False
    else:
        od = {l: t for (l, t) in obs.v}
        el = {l for (l, _) in exp}
        ok = all(l in el or not t for (l, t) in obs.v) and all(
            (lang_ok(caps, alt.get(l) if expected2 is not None else None, od[l]) if l in od else not caps)
            for (l, caps) in exp)
        if ok and [l for (l, _) in obs.v] != [l for (l, _) in exp]:
            differs(res, {"format": fmt, "what": "language order / empty languages", "impl": [l for (l, _) in obs.v],
                          "model": [l for (l, _) in exp]})
    if not ok:
        v = dict(rec)
        v.update({"kind": fmt + "-times", "format": fmt, "replay": "tree", "expected": show(expected),
                  "expected2": show(expected2) if expected2 is not None else None,
                  "what": ("%s reader returned %s for a document denoting %s" % (fmt, show(obs), show(expected)))[:500]})
        res["violations"].append(v)
    elif not same(obs, model):
        if isinstance(obs, Ok) and isinstance(model, Ok) and sorted(obs.v) == sorted(model.v):
            pass
        elif expected2 is not None and isinstance(expected2, Ok) and isinstance(obs, Ok) and sorted(obs.v) == sorted(expected2.v) \
                and show(expected2) != show(expected):
            # the implementation took the OTHER admissible begin+dur reading (only possible when the two readings differ)
            d["begin_dur_other_reading_than_model"] = d.get("begin_dur_other_reading_than_model", 0) + 1
        else:
            res["disagreements"].append({"format": fmt, "input": rec, "impl": show(obs), "model": show(model)})


def stream_dfxp_tree(ctx, acc, n):
    cases = [gen_dfxp_doc(ctx.rng) for _ in range(n)]
    flat = [flatten_dfxp(tree) for (_, tree, _) in cases]
    outs = oracle_batch([(114, [None if tt is None else Some(tt), divs, ps]) for (tt, _, _), (divs, ps) in zip(cases, flat)])
    dd = acc.res["distribution"]
    docs = [render_dfxp_doc(tt, tree, o[0]) for (tt, tree, _), o in zip(cases, outs)]
    # wave 7: the string-level reader model (request 121) reads the Python-assembled text too
    text_models = oracle_batch([(121, doc) for doc in docs])
    for (tt, tree, junk), (divs, ps), o, doc, tm in zip(cases, flat, outs, docs, text_models):
        model, expected, expected2, dom = r_result(o[1]), r_result(o[2]), r_result(o[3]), o[4] == 1
        obs = impl.call(lambda: dict_obs(DFXPReader().read(doc)))
        check_text_model(acc, "dfxp-tree", doc, r_result(tm), obs, failing=dom and not junk)
        rec = {"input": plain([tt, tree]), "document": doc, "opts": None}
        langs = [nearest(tt, ch) for ch in divs]
        if len(set(langs)) < len(langs):
            dd["dfxp_documents_with_several_divisions_of_a_language"] = dd.get("dfxp_documents_with_several_divisions_of_a_language", 0) + 1
        if any(len(ch) > 1 for ch in divs):
            dd["dfxp_documents_with_nested_divisions"] = dd.get("dfxp_documents_with_nested_divisions", 0) + 1
        if junk:
            # a paragraph WITHOUT text carries malformed time attributes: not well-formed TTML, the property is silent;
            # model and implementation are still compared (recorded, not failing)
            dd["dfxp_documents_with_malformed_blank_paragraph"] = dd.get("dfxp_documents_with_malformed_blank_paragraph", 0) + 1
            if not same(obs, model) and not (isinstance(obs, Ok) and isinstance(model, Ok) and sorted(obs.v) == sorted(model.v)):
                differs(acc.res, {"format": "dfxp-tree", "input": rec["input"], "impl": show(obs), "model": show(model)})
            acc.res["evaluations"] += 1
            continue
        check_reuse(acc, "dfxp-tree", {"input": rec["input"]}, obs, doc, dom=dom)
        compare_dict(acc, "dfxp-tree", rec, expected, obs, model, dom, expected2)
        if dom:
            acc.res["nontrivial"].add(("dfxp-tree", repr(rec["input"])))
    if cases:
        acc.res["samples"].append({"format": "dfxp-tree", "input": plain([cases[0][0], cases[0][1]])})

# ---- DFXP documents AS TEXT (wave 7, requests 120 / 121): the whole text is rendered by the Coq renderer ----------
def stream_dfxp_text(ctx, acc, n):
    """abstract documents of coq/spec/SpecXmlDocT.v (structure + every lexical choice); the extracted string-level reader
    model (coq/model/XmlRead.v: text -> tree -> DFXPReader.read) and the real DFXPReader read the SAME text."""
    import xmldocgen as xg
    cases = [xg.gen(ctx.rng, n_top=(ctx.rng.choice([30, 80]) if ctx.rng.random() < 0.02 else None)) for _ in range(n)]
    outs = oracle_batch([(120, xg.wire_doc(d)) for (d, _) in cases])
    dd = acc.res["distribution"]
    for (d, g), o in zip(cases, outs):
        if o == [-1]:
            acc.res["disagreements"].append({"format": "dfxp-text", "what": "request 120 refused the abstract document",
                                             "input": plain(xg.wire_doc(d))})
            continue
        doc = o[0]
        model, expected, expected2, dom = r_result(o[1]), r_result(o[2]), r_result(o[3]), o[4] == 1
        obs = impl.call(lambda: dict_obs(DFXPReader().read(doc)))
        rec = {"input": None, "document": doc, "opts": None}
        for key, val in (("dfxp_text_character_references", g.refs), ("dfxp_text_single_quoted_attributes", g.single),
                         ("dfxp_text_close_before_begin", g.swapped), ("dfxp_text_paragraphs", g.ps),
                         ("dfxp_text_generic_elements_of_arbitrary_name", getattr(g, "generic", 0)),
                         ("dfxp_text_blank_paragraphs_written_with_references_only", g.blank_ref_only)):
            dd[key] = dd.get(key, 0) + val
        if isinstance(model, Err) and model.code == 99:
            dd["dfxp_text_outside_the_model_sublanguage"] = dd.get("dfxp_text_outside_the_model_sublanguage", 0) + 1
        check_reuse(acc, "dfxp-text", {"input": None}, obs, doc, dom=dom)
        compare_dict(acc, "dfxp-text", rec, expected, obs, model, dom, expected2)
        if dom:
            acc.res["nontrivial"].add(("dfxp-text", doc))
    if cases:
        acc.res["samples"].append({"format": "dfxp-text", "document": outs[0][0] if outs[0] != [-1] else None})

def check_text_model(acc, fmt, doc, tmodel, obs, failing):
    """the string-level reader model (coq/model/XmlRead.v, request 121) against the real DFXPReader on the same text.
    Err 199 = the text is outside the modelled XML sublanguage (comments, CDATA, unquoted attributes...): counted."""
    dd = acc.res["distribution"]
    dd["dfxp_texts_read_by_the_string_level_model"] = dd.get("dfxp_texts_read_by_the_string_level_model", 0) + 1
    if isinstance(tmodel, Err) and tmodel.code == 199:
        dd["dfxp_texts_outside_the_model_sublanguage"] = dd.get("dfxp_texts_outside_the_model_sublanguage", 0) + 1
        return
    if same(obs, tmodel) or (isinstance(obs, Ok) and isinstance(tmodel, Ok) and sorted(obs.v) == sorted(tmodel.v)):
        return
    if failing:
        acc.res["disagreements"].append({"format": fmt + "-string-model", "document": doc, "impl": show(obs), "model": show(tmodel)})
    elif fmt.startswith("dfxp-corpus"):
        # a fixture whose layout / style attributes are malformed is refused by parts of the reader the model does not
        # contain (CaptionReadSyntaxError): the property is silent; counted on its own
        dd["dfxp_corpus_texts_read_differently_(malformed_layout_or_times)"] = \
            dd.get("dfxp_corpus_texts_read_differently_(malformed_layout_or_times)", 0) + 1
    else:
        differs(acc.res, {"format": fmt + "-string-model", "document": doc[:400], "impl": show(obs), "model": show(tmodel)})


def stream_dfxp_corpus(ctx, acc):
    """texts NOT rendered by Coq: the DFXP fixtures of pycaption's own test suite and what pycaption's DFXP writers write
    for generated caption sets - read by the string-level model and by the real reader (differences recorded; failing
    for the writer's output, whose times are integers and whose text is visible)."""
    import importlib, sys, os
    from pycaption import DFXPWriter, CaptionSet, CaptionList, Caption, CaptionNode
    docs = []
    try:
        if ctx.repo not in sys.path:
            sys.path.insert(0, ctx.repo)
        fx = importlib.import_module("tests.fixtures.dfxp")
        for name in sorted(dir(fx)):
            f = getattr(fx, name)
            if hasattr(f, "__wrapped__"):
                try:
                    d = f.__wrapped__()
                except Exception:
                    continue
                if isinstance(d, str):
                    docs.append(("fixture", d))
    except Exception:
        acc.res["distribution"]["dfxp_fixture_module_not_importable"] = 1
    # audit 7 witnesses: a <p> below <template> / <rt> / <rp> (outside xdoc_ok: bs4 hides the strings from get_text(), the
    # real reader finds no caption, the string-level model does) - kept as fixed corpus cases, counted as outside the model
    for nm in ("template", "rt", "rp"):
        docs.append(("fixture", '<tt xml:lang="en"><body><div><%s><p begin="1s" end="2s">x</p></%s></div></body></tt>' % (nm, nm)))
    rng = ctx.rng
    for _ in range(ctx.n(40, 600)):
        langs = {}
        for lang in rng.sample(["en-US", "fr", "de"], rng.choice([1, 1, 2])):
            t = 0
            caps = []
            for _ in range(rng.choice([1, 2, 5])):
                a = t + rng.choice([0, 1, 999, 1000, 123456, 3599999999])
                b = a + rng.choice([1, 1000, 1001, 59999999, 2500000])
                t = b
                nodes = [CaptionNode.create_text(rng.choice(["x", "a & b", "<i>", "l'a \"q\"", "\u00e9\u4e2d"]))]
                if rng.random() < 0.4:
                    nodes += [CaptionNode.create_break(), CaptionNode.create_text("second")]
                caps.append(Caption(a, b, nodes))
            langs[lang] = CaptionList(caps)
        w = impl.call(lambda: DFXPWriter().write(CaptionSet(langs)))
        if isinstance(w, Ok):
            docs.append(("writer", w.v))
    tms = oracle_batch([(121, d) for (_, d) in docs])
    dd = acc.res["distribution"]
    for (kind, d), tm in zip(docs, tms):
        obs = impl.call(lambda: dict_obs(DFXPReader().read(d)))
        dd["dfxp_corpus_" + kind] = dd.get("dfxp_corpus_" + kind, 0) + 1
        acc.res["evaluations"] += 1
        # a fixture with malformed layout / times is refused by parts of the reader the model does not contain
        check_text_model(acc, "dfxp-corpus-" + kind, d, r_result(tm), obs, failing=(kind == "writer"))

# ---- SAMI documents AS TEXT (round 4, requests 122 / 123): the body text is rendered by the Coq renderer --------------
def stream_sami_text(ctx, acc, n):
    """abstract documents of coq/spec/SpecSamiText.v; the extracted string-level model (coq/model/SamiText.v: tokens ->
    sync / paragraph machine -> sami_read_tree) and the real SAMIReader read the SAME body text (the real reader with the
    head in front: the stylesheet goes through cssutils, the model is given its class -> lang table)."""
    import samitextgen as sg
    cases = [sg.gen(ctx.rng) for _ in range(n)]
    outs = oracle_batch([(122, [sg.STYLES[:nl], d]) for (nl, d, _) in cases])
    dd = acc.res["distribution"]
    for (nl, d, g), o in zip(cases, outs):
        if o == [-1]:
            acc.res["disagreements"].append({"format": "sami-text", "what": "request 122 refused the abstract document", "input": plain(d)})
            continue
        doc = sg.head(nl) + o[0]
        model, expected, dom = r_result(o[1]), r_result(o[2]), o[3] == 1
        obs = impl.call(lambda: dict_obs(SAMIReader().read(doc)))
        for key, val in (("sami_text_unquoted_attribute_values", g.unquoted), ("sami_text_single_quoted_attribute_values", g.single),
                         ("sami_text_character_references", g.refs), ("sami_text_nbsp_entities", g.nbsp),
                         ("sami_text_upper_case_tag_names", g.upper), ("sami_text_paragraphs", g.ps),
                         ("sami_text_paragraphs_visible_only_through_references", getattr(g, "only_refs", 0))):
            dd[key] = dd.get(key, 0) + val
        rec = {"input": None, "document": doc, "opts": None}
        check_reuse(acc, "sami-text", {"input": None}, obs, doc, dom=dom)
        compare_dict(acc, "sami-text", rec, expected, obs, model, dom)
        if dom:
            acc.res["nontrivial"].add(("sami-text", doc))
    if cases and outs[0] != [-1]:
        acc.res["samples"].append({"format": "sami-text", "document": sg.head(cases[0][0]) + outs[0][0]})


def nearest(tt, chain):
    for x in chain:
        if x is not None:
            return x.v
    return tt if tt is not None else "und"

P_SPELLINGS = ['class=%(cls)s', 'class="hl" lang="%(lang)s"', 'lang="%(lang)s" class="hl"', 'class="nodef" lang="%(lang)s"',
               'lang="%(lang)s" class="nodef"', 'lang="%(lang)s"', 'class="hl" id="x" lang="%(lang)s"']


def sami_doc_lang_attr(rng, nl, syncs, starts):
    """tg.sami_doc with, for the languages after the first (two-letter names: what a lang= attribute files a cue under),
    every <P> spelled in one of P_SPELLINGS; .hl is a stylesheet class without a lang, .nodef is not defined"""
    css = "\n".join(".%s {Name: L%d; lang: %s; SAMI_Type: CC;}" % (cls, i, lang)
                    for i, (cls, lang) in enumerate(tg.SAMI_LANGS[:nl]))
    out = ['<SAMI><HEAD><TITLE>t</TITLE><STYLE TYPE="text/css"><!--\nP { margin-left: 1pt; }\n%s\n.hl {color: red;}\n--></STYLE></HEAD><BODY>' % css]
    for (pad, ms, present), st in zip(syncs, starts):
        ps = []
        for li, txt in sorted(present.items()):
            cls, lang = tg.SAMI_LANGS[li]
            a = "class=%s" % cls if li == 0 else rng.choice(P_SPELLINGS) % {"cls": cls, "lang": lang}
            ps.append("<P %s>%s</P>" % (a, ("text %d %d" % (ms, li)) if txt else "&nbsp;"))
        out.append("<SYNC start=%s>%s</SYNC>" % (st, "".join(ps)))
    out.append("</BODY></SAMI>")
    return "\n".join(out)


def stream_sami_tree(ctx, acc, n):
    cases = [tg.gen_sami(ctx.rng) for _ in range(n)]
    reqs = []
    for (nl, syncs) in cases:
        order = []
        for (pad, ms, present) in syncs:
            for li in sorted(present):
                if tg.SAMI_LANGS[li][1] not in order:
                    order.append(tg.SAMI_LANGS[li][1])
        body = [[pad, ms, [[tg.SAMI_LANGS[li][1], txt] for li, txt in sorted(present.items())]] for (pad, ms, present) in syncs]
        reqs.append((115, [order, body]))
    outs = oracle_batch(reqs)
    for (nl, syncs), o in zip(cases, outs):
        starts = ["0" * pad + str(ms) for (pad, ms, _) in syncs]
        doc = tg.sami_doc(nl, syncs, starts)
        if nl > 1 and ctx.rng.random() < 0.5:
            # last round: <P> whose language comes from a lang= attribute next to a NON-language class (defined in the
            # stylesheet without a lang, or undefined), in either attribute order, mixed with class=<language class>
            doc = sami_doc_lang_attr(ctx.rng, nl, syncs, starts)
            dd = acc.res["distribution"]
            dd["sami_documents_with_lang_attribute_beside_a_non_language_class"] = \
                dd.get("sami_documents_with_lang_attribute_beside_a_non_language_class", 0) + 1
        model, expected, dom = r_result(o[0]), r_result(o[1]), o[2] == 1
        obs = impl.call(lambda: dict_obs(SAMIReader().read(doc)))
        check_reuse(acc, "sami-tree", {"input": None}, obs, doc)
        rec = {"input": plain([nl, [[p, ms, sorted(pr.items())] for (p, ms, pr) in syncs]]), "document": doc, "opts": None}
        compare_dict(acc, "sami-tree", rec, expected, obs, model, dom)
        if dom and nl > 1:
            acc.res["nontrivial"].add(("sami-tree", repr(syncs)))


# ---- explicit well-formed spellings outside the spec renderer: judged by the oracle with a hand-written expectation ----
def explicit_cases():
    sami = ('<SAMI><HEAD><STYLE TYPE="text/css"><!--\n.ENCC {Name: E; lang: en-US;}\n--></STYLE></HEAD><BODY>'
            '<SYNC start="%s"><P class=ENCC>one</P></SYNC><SYNC Start=%s><P class=ENCC>&nbsp;</P></SYNC></BODY></SAMI>')
    vtt_body = "00:01.000 --> 00:02.500\nx\n\n1:00:03.000 --> 01:00:04.000\ny\n"
    exp_vtt = [[1000000, 2500000], [3603000000, 3604000000]]
    out = [
        # SAMI: the start attribute is a number; pycaption's own writer used to emit "1000.0"
        ("sami", sami % ("1000.0", "2500"), None, [[1000000, 2500000]], 112, [[Some("1000.0"), True], [Some("2500"), False]]),
        ("sami", sami % ("1e3", "2.5e3"), None, [[1000000, 2500000]], 112, [[Some("1e3"), True], [Some("2.5e3"), False]]),
        ("sami", sami % ("1000.9", "02500.0"), None, [[1000000, 2500000]], 112, [[Some("1000.9"), True], [Some("02500.0"), False]]),
        # WebVTT header variants
        ("vtt", "\ufeffWEBVTT\n\n" + vtt_body, (False, 0), exp_vtt, 113, None),
        ("vtt", "WEBVTT - a title\n\n" + vtt_body, (True, 0), exp_vtt, 113, None),
        ("vtt", "WEBVTT\nKind: captions\nLanguage: en\n\nNOTE first\n\n" + vtt_body, (True, 0), exp_vtt, 113, None),
        # blocks after the last cue and a STYLE block in the header (C01_vtt_doc_exact_framed)
        ("vtt", "WEBVTT\n\nSTYLE\n::cue { color: red }\n\n" + vtt_body + "\nNOTE the end\nof the file\n", (True, 0), exp_vtt, 113, None),
        ("vtt", "WEBVTT\n\n" + vtt_body + "\n\nstray text after the last cue", (False, 0), exp_vtt, 113, None),
        ("vtt", "WEBVTT\r\n\r\n" + vtt_body.replace("\n", "\r\n"), (False, 500), [[1500000, 3000000], [3603500000, 3604500000]], 113, None),
        # SRT: CRLF, a trailing blank after the stamp, no blank line at the end
        ("srt", "1\r\n00:00:01,000 --> 00:00:02,500 \r\nx\r\n\r\n2\r\n01:00:03,000 --> 01:00:04,000\r\ny", None, exp_vtt, 109, None),
        # MicroDVD: declared rates in the other float spellings
        ("mdvd", "{0}{0}.5\n{1}{2}t\n", None, [[2000000, 4000000]], 110, None),
        ("mdvd", "{0}{0}1e2\n{100}{250}t\n", None, [[1000000, 2500000]], 110, None),
        ("mdvd", "{0}{0}+25\n{25}{50}t\n", None, [[1000000, 2000000]], 110, None),
        ("mdvd", "{0}{0} 12.5 \n{25}{50}t\n", None, [[2000000, 4000000]], 110, None),
        # DFXP: a time expression followed by a line break inside the attribute value
        ("dfxp", tg.dfxp_doc([("en", [("1s&#10;", "2.5s", None, "t")])]), None, [[1000000, 2500000]], 111,
         [[Some("1s\n"), Some("2.5s"), None]]),
    ]
    return out


def stream_explicit(ctx, acc):
    cases = explicit_cases()
    reqs = []
    for (fmt, doc, opts, exp, code, marg) in cases:
        if marg is not None:
            reqs.append((code, marg))
        elif fmt == "vtt":
            reqs.append((113, [opts[0], opts[1], doc]))
        else:
            reqs.append((code, doc))
    models = oracle_batch(reqs)
    for (fmt, doc, opts, exp, code, marg), m in zip(cases, models):
        if fmt == "sami":
            r = read_with("sami", doc)
            obs = Ok(r.v.get("en-US", [])) if isinstance(r, Ok) and isinstance(r.v, dict) else r
            model = r_result(m)
        elif fmt == "dfxp":
            obs = read_with("dfxp", doc, lang="en")
            model = r_result(m)
        else:
            obs = read_with(fmt, doc, opts)
            model = model_times(m)
        rec = {"input": "explicit", "document": doc, "opts": plain(opts) if fmt == "vtt" else ("en-US" if fmt == "sami" else None)}
        acc.add(fmt, rec, exp, obs, model, True)
    acc.res["distribution"]["explicit_well_formed_spellings"] = len(cases)
    acc.flush()


# ---- a declared frame rate (ttp:frameRate): the reader hard-codes 30 frames per second - recorded finding ----------
def stream_frame_rate(ctx, acc):
    rng = ctx.rng
    d = acc.res["distribution"]
    for _ in range(ctx.n(12, 200)):
        rate = rng.choice([24, 25, 50, 60])
        ff = rng.randrange(1, rate)
        s1, s2 = rng.randrange(0, 50), rng.randrange(50, 59)
        begin = "00:00:%02d:%02d" % (s1, ff)
        end = "00:00:%02d:%02d" % (s2, ff)
        exp = [[(s1 * rate + ff) * 10**6 // rate, (s2 * rate + ff) * 10**6 // rate]]
        at30 = [[s1 * 10**6 + ff * 10**6 // 30, s2 * 10**6 + ff * 10**6 // 30]]
        doc = render_dfxp_doc("en", [["div", None, [["p", None]]]], [([["begin", begin], ["end", end]], 1)], frame_rate=rate)
        obs = read_with("dfxp", doc, lang="en")
        acc.res["evaluations"] += 1
        d["dfxp_declared_frame_rate_cases"] = d.get("dfxp_declared_frame_rate_cases", 0) + 1
        if isinstance(obs, Ok) and obs.v == exp:
            continue
        kind = "dfxp-declared-frame-rate" if (isinstance(obs, Ok) and obs.v == at30 and exp != at30) else "dfxp-times"
        acc.res["violations"].append({
            "kind": kind, "format": "dfxp", "document": doc, "expected": exp, "opts": None, "replay": "doc", "input": None,
            "what": "ttp:frameRate=%d, begin=%s: the document denotes %s, the reader returned %s" % (rate, begin, exp, show(obs))})


# ---- malformed / raw stream: model == implementation incl. the exception class ------------------
RAW_SRT = ["00:00:01,000", "0:0:1,5", "1:2:3", "1:2", "1:2:3,4,5", "::,", "", "01:02:03,", "01:02:03.5", "1:2:3:4",
           "999:59:59,999", "0001:00:00,000", "1:2:,5", "a:b:c", "1::3,0", "00:00:01,1000", "00:00:01,5", "00:00:01,50",
           "00:00:01,1234", "00:00:01,000000"]
RAW_VTT = ["00:01.000", "0:01.000", "00:00:01.000", "1:00:01.000", "00:01.0000", "00:01.00", "00:1.000", "100:01.000",
           "00:01:02.000", "00:01:02", "00:01,000", "1234:56.789xyz", "00:01.000extra", "00:00:60.000", "59:59.999",
           "", "abc", "00:01:2.000", "0:00:01:02.000", "00:01.0a0"]
RAW_DFXP = ["00:00:01", "00:00:01.5", "00:00:01:15", "00:00:01:5", "1s", "1.5s", "1.s", ".5s", "5", "5x", "5ms", "5m",
            "5h", "5f", "5t", "1.5t", "0:00:01", "00:0:01", "00:00:01.", "00:00:01:155", "00:00:01.5s", "1:2:3",
            "12:34:56.7890123", "5 s", "", "s", "1.2.3s", "10.0100ms", "99:59:59:99", "2.3h", "0.29h", "123f"]


def rand_over(rng, alphabet, n):
    return "".join(rng.choice(alphabet) for _ in range(rng.randint(0, n)))


def stream_raw(ctx, acc, n):
    rng = ctx.rng
    res = acc.res
    # SRT stamps through a one-cue document
    stamps = RAW_SRT + [rand_over(rng, "0123456789::,,", 12) for _ in range(n)]
    docs = ["1\n%s --> 00:00:09,000\nx\n" % s for s in stamps]
    docs += ["1\n00:00:01,000 --> %s\nx\n" % s for s in stamps[:len(stamps) // 2]]
    # structural variants
    docs += ["", "x", "1", "1\n", "1\n\n", "1\n00:00:01,000 --> 00:00:02,000", "1\n00:00:01,000 --> 00:00:02,000\n",
             "1\n00:00:01,000 -> 00:00:02,000\nx\n", "1\n00:00:01,000 --> 00:00:02,000\n\n\nlate\n",
             "1\n00:00:01,000 --> 00:00:02,000\nx\n\n\n\n2\n00:00:03,000 --> 00:00:04,000\ny",
             "1\n00:00:01,000 --> 00:00:02,000\nx\n \n2\n00:00:03,000 --> 00:00:04,000\ny\n",
             "1\n00:00:01,000 --> 00:00:02,000\nx\n\nnot a number\n00:00:03,000 --> 00:00:04,000\ny\n",
             "1\n00:00:01,000 --> 00:00:02,000 --> 00:00:03,000\nx\n", "1\r\n00:00:01,000 --> 00:00:02,000\r\nx\r\n\r\n",
             "1\n  00:00:01,000  -->  00:00:02,000  \nx\n", "1\n00:00:01,000-->00:00:02,000\nx\n"]
    models = oracle_batch([(109, d) for d in docs])
    for d, m in zip(docs, models):
        obs = read_with("srt", d)
        res["evaluations"] += 1
        if not same(obs, model_times(m)):
            differs(res, {"format": "srt-raw", "input": d, "impl": show(obs), "model": show(model_times(m))})
    res["distribution"]["raw_srt"] = len(docs)
    # WebVTT stamps
    stamps = RAW_VTT + [rand_over(rng, "0123456789::..", 12) for _ in range(n)]
    docs = ["WEBVTT\n\n%s --> 00:00:09.000\nx\n" % s for s in stamps]
    docs += ["WEBVTT\n\n00:01.000 --> %s\nx\n" % s for s in stamps[:len(stamps) // 2]]
    docs += ["WEBVTT", "WEBVTT\n\n", "WEBVTT\n\n00:01.000 --> 00:02.000", "WEBVTT\n\n00:01.000 --> 00:02.000\nx",
             "WEBVTT\n\n00:01.000 -->00:02.000\nx\n", "WEBVTT\n\n00:01.000--> 00:02.000\nx\n",
             "WEBVTT\n\n 00:01.000 --> 00:02.000\nx\n", "WEBVTT\n\n00:01.000 \t-->\t 00:02.000 \t\nx\n",
             "WEBVTT\n\n00:01.000 --> 00:02.000 align:left\nx\n\n00:03.000 --> 00:04.000\ny\n",
             "WEBVTT\n\n00:01.000 --> 00:02.000\nx\n00:03.000 --> 00:04.000\ny\n",
             "WEBVTT\n\n00:03.000 --> 00:04.000\nx\n\n00:01.000 --> 00:02.000\ny\n",
             "WEBVTT\n\n00:05.000 --> 00:04.000\nx\n", "WEBVTT\n\nNOTE x --> y\n\n00:01.000 --> 00:02.000\nx\n",
             "WEBVTT\n\nid\n00:01.000 --> 00:02.000\nx\n\n\n\nstray\n\n00:03.000 --> 00:04.000\n\ny\n"]
    reqs = []
    for d in docs:
        for strict in (False, True):
            for shift in (0, -1500):
                reqs.append((113, [strict, shift, d]))
    models = iter(oracle_batch(reqs))
    for d in docs:
        for strict in (False, True):
            for shift in (0, -1500):
                m = model_times(next(models))
                obs = read_with("vtt", d, (strict, shift))
                res["evaluations"] += 1
                if not same(obs, m):
                    differs(res, {"format": "vtt-raw", "input": [d, strict, shift], "impl": show(obs),
                                                 "model": show(m)})
    res["distribution"]["raw_vtt"] = len(docs) * 4
    # DFXP time expressions through begin / end / dur
    exprs = RAW_DFXP + [rand_over(rng, "0123456789::..hmsft", 10) for _ in range(n // 2)]
    rows = []
    for x in exprs:
        rows.append([(x, "99:00:00", None)])
        rows.append([("1s", x, None)])
        rows.append([("1s", None, x)])
    rows += [[(None, "2s", None)], [("1s", None, None)], [("", "2s", None)], [("1s", "", "3s")], [("1s", "2s", "3s")],
             [("1s", "2s", None), ("bad", "3s", None)], [("3f", None, "2f")], [("1f", None, "1f")]]
    clean = []
    for r in rows:
        if all(all(v is None or ('"' not in v and "<" not in v and "&" not in v) for v in p) for p in r):
            clean.append(r)
    models = oracle_batch([(111, [[None if v is None else Some(v) for v in p] for p in r]) for r in clean])
    for r, m in zip(clean, models):
        doc = tg.dfxp_doc([("en", [(b, e, d, "t") for (b, e, d) in r])])
        obs = read_with("dfxp", doc, lang="en")
        mm = r_result(m)
        res["evaluations"] += 1
        if not same(obs, mm):
            differs(res, {"format": "dfxp-raw", "input": r, "impl": show(obs), "model": show(mm)})
    res["distribution"]["raw_dfxp"] = len(clean)
    # MicroDVD lines
    docs = ["{0}{0}25\n{1}{2}a", "{0}{0}abc\n{1}{2}a", "{0}{0}\n{1}{2}a", "{1}{2}", "{1}{2}|", "{1}{2}a||b", "{1}{2a",
            "x{1}{2}a", "{1}{2}a\n\n{3}{4}b\n", "{0}{0}23.976\n{1001}{2002}a|b", "{00}{0}x", "{0}{00}25", "{}{1}a",
            "{1}{}a", "{1} {2}a", "", "\n", "{0}{0}0\n{1}{2}a", "{0}{0}0.0\n{1}{2}a", "{0}{0}25\n", "{5}{3}a",
            "{0}{0}30\n{30}{60}a\n{0}{0}15\n{30}{60}b", "{0}{0} 25 \n{25}{50}a", "{1}{2}a{3}{4}b", "{0}{0}25.\n{1}{2}a",
            "{1}{2}{3}"]
    docs += ["{0}{0}%s\n{%d}{%d}t" % (f, a, a + 7) for f in ["24", "29.97", "59.94", "12.5", "1", "100"] for a in (1, 201, 1001)]
    docs += [rand_over(rng, "{}{}0123456789a|\n", 14) for _ in range(n)]
    models = oracle_batch([(110, d) for d in docs])
    for d, m in zip(docs, models):
        obs = read_with("mdvd", d)
        res["evaluations"] += 1
        if not same(obs, model_times(m)):
            differs(res, {"format": "mdvd-raw", "input": d, "impl": show(obs), "model": show(model_times(m))})
    res["distribution"]["raw_mdvd"] = len(docs)
    # SAMI start attributes
    cases = [[(Some("1000"), True), (Some("2000"), False)], [(None, True)], [(Some(""), True)],
             [(Some("1000"), True), (Some("1000"), True)], [(Some("0"), True), (Some("0"), False), (Some("5000"), True)],
             [(Some("3000"), True), (Some("1000"), True), (Some("2000"), True)],
             [(Some("0"), True), (Some("0"), True), (Some("0"), True)], [(Some("1000"), False)],
             [(Some("1000"), True), (Some("1000"), False), (Some("1000"), True), (Some("2000"), False)]]
    models = oracle_batch([(112, [[s, t] for (s, t) in c]) for c in cases])
    for c, m in zip(cases, models):
        body = "".join("<SYNC%s><P class=ENCC>%s</P></SYNC>" % ("" if s is None else " start=\"%s\"" % s.v,
                                                               "t%d" % i if t else "&nbsp;") for i, (s, t) in enumerate(c))
        doc = ('<SAMI><HEAD><STYLE TYPE="text/css"><!--\n.ENCC {Name: E; lang: en-US;}\n--></STYLE></HEAD><BODY>'
               + body + "</BODY></SAMI>")
        r = read_with("sami", doc)
        obs = Ok(r.v.get("en-US", [])) if isinstance(r, Ok) else r
        mm = r_result(m)
        if isinstance(mm, Ok) and mm.v == [] and isinstance(obs, Err) and obs.code == 1:
            obs = Ok([])
        res["evaluations"] += 1
        if not same(obs, mm):
            differs(res, {"format": "sami-raw", "input": plain(c), "impl": show(obs), "model": show(mm)})
    res["distribution"]["raw_sami"] = len(cases)


def run(ctx):
    REUSED.clear()
    acc = Acc()
    res = acc.res
    q = ctx.n
    stream_docs(ctx, acc, "srt", q(1100, 25000), tg.gen_srt_doc, 100, lambda d: d, lambda d: None, tg.srt_nontrivial)
    stream_docs(ctx, acc, "vtt", q(1100, 25000), tg.gen_vtt_doc, 101, lambda d: d, lambda d: (d[0], d[1]),
                tg.vtt_nontrivial)
    stream_docs(ctx, acc, "mdvd", q(1000, 20000), tg.gen_mdvd_doc, 102, lambda d: d, lambda d: None, mdvd_nontriv)
    stream_dfxp(ctx, acc, q(600, 10000))
    stream_sami(ctx, acc, q(300, 5000))
    stream_dfxp_tree(ctx, acc, q(400, 6000))
    stream_sami_tree(ctx, acc, q(200, 4000))
    stream_dfxp_text(ctx, acc, q(300, 3000))
    stream_dfxp_corpus(ctx, acc)
    stream_sami_text(ctx, acc, q(150, 3000))
    stream_explicit(ctx, acc)
    stream_frame_rate(ctx, acc)
    stream_raw(ctx, acc, q(150, 2500))
    if ctx.thorough:
        sweep(ctx, acc)
    res["streams"] = 12
    res["distribution"].setdefault("model_differences_outside_the_property", 0)
    res["notes"].append("malformed/raw stream, strict-unsorted WebVTT and blank paragraphs with junk time attributes: model "
                        "vs implementation compared incl. exception class; %d differences (recorded, NOT failing: the "
                        "property is silent there); first: %s" % (
                            res["distribution"]["model_differences_outside_the_property"],
                            str(res.get("model_differences", [None])[0])[:300]))
    res["rule"] = ("abstract documents per format, 1-6 cues (about 1 in 40: 60 / 150 / 300 cues), stamps rendered by the Coq "
                   "spec renderer (SRT, WebVTT, MicroDVD: the whole document; DFXP, SAMI: the attribute strings, the "
                   "document around them is assembled by Python): hours from {0,1,9,10,23,24,25,99,100,999}+random with 0-3 "
                   "extra leading zeros, minutes/seconds {0,1,9,10,59}+random, ms {0,1,9,10,99,100,999}+random, SRT / WebVTT "
                   "fraction absent or exactly 3 digits (declared decision), DFXP fractions of length 1-20 with leading "
                   "zeros, frames {0,1,14,15,29}+random, offsets in h/m/s/ms/f with integer and fractional counts, begin+dur "
                   "(both readings accepted), MicroDVD frames incl. 201/203/123/89999999 under 15 declared rates or the "
                   "default. 35% of the SRT, WebVTT and MicroDVD documents have cues in arbitrary order (shuffled, "
                   "overlapping, end before start, equal starts); the lang option of the three readers that take it is "
                   "varied ('en-US', 'fr', '', None) and the times are read from THAT language, no other language may "
                   "appear. WebVTT: 1-3 blanks or tabs around '-->', NOTE / STYLE / identifier lines before a cue, shift in "
                   "{0,+-1,+-999,+-3600000,12345}, strict and lenient; LF and CRLF, 0-2 extra blank lines, cues without "
                   "text (in the domain for MicroDVD, counted out for SRT / WebVTT). DFXP documents: 1-4 divisions, "
                   "SAME-language and NESTED divisions, languages on tt / div / default, blank paragraphs; SAMI: 1-3 "
                   "interleaved languages with blank paragraphs. DFXP AS TEXT (stream dfxp-text, the whole text rendered by "
                   "the Coq renderer of spec/SpecXmlDocT.v): optional XML declaration, tt / head / styling / layout / body, "
                   "1-4 divisions nested to depth 3, <metadata> / <set> children, paragraphs with text, <br/>, <span>; per "
                   "attribute 1+ white-space characters before the name, 0+ around '=', single or double quotes, values with "
                   "& < > and both quotes; begin / end / dur anywhere among up to 3 other attributes, close before begin in "
                   "40%; every text character literal / entity or a decimal character reference (20%); blank paragraphs "
                   "made of U+00A0 / U+2003 / U+3000 written literally or as references; about 1 in 50 with 30 / 80 "
                   "divisions. The string-level model also reads the Python-assembled documents of the dfxp-tree stream, "
                   "the DFXP fixtures of pycaption's tests and DFXPWriter output for generated caption sets. Explicit well-formed spellings (failing stream): SAMI "
                   "float-literal starts, WebVTT header text / BOM, CRLF SRT without final newline, MicroDVD rates .5 1e2 +25, "
                   "DFXP '1s' followed by a line break. ttp:frameRate other than 30: own stream, known finding. "
                   "Non-trivial: a distinct stamp with a non-zero hour, a fraction, a frame field, an offset metric, a "
                   "shift, a non-zero frame number, or a SAMI language with >= 2 syncs.")
    res["clauses"] = {
        "theorem": ["SRT/WebVTT/DFXP clock and offset/MicroDVD stamp parsers of the model return floor(instant*10^6) for all "
                    "field values and paddings (fraction length free for DFXP, 0 or 3 digits for SRT/WebVTT) (C01_*_exact)",
                    "DFXP begin+dur: the model's answer is one of the two readings the oracle accepts "
                    "(C01_dfxp_div_meets_oracle)", "SAMI back-filling over all strictly increasing sync lists, 4 s tail",
                    "document level of SRT, WebVTT and MicroDVD at string level, cues in ANY order: one caption per "
                    "non-empty cue, in document order (C01_srt_doc_exact, C01_vtt_doc_exact, C01_mdvd_doc_exact)",
                    "DFXP abstract document with same-language and nested divisions: every paragraph with text goes to the "
                    "language of its nearest division, per language in document order (C01_dfxp_doc_exact); SAMI abstract "
                    "tree (C01_sami_tree_exact)",
                    "DFXP at STRING level (wave 7): for every abstract document with every lexical choice (white space in "
                    "tags, quote characters, attribute order, xml:lang position, XML declaration, character references) "
                    "the rendered text parses to its tree (C01_dfxp_text_to_tree) and the string-level reader returns "
                    "exactly the denoted caption set (C01_dfxp_string_exact); well-formed text implies the tree-level "
                    "domain (C01_dfxp_text_domain)",
                    "SAMI at STRING level (round 4): for every abstract document (several languages, any strictly "
                    "increasing sync list per language, blank paragraphs) with every lexical choice (tag-name case, "
                    "double / single / no quotes, white space, references, &nbsp;, <br>) the body text tokenises to its "
                    "tags and runs (C01_sami_text_tokens) and the string-level reader returns exactly the denoted captions "
                    "of every language (C01_sami_string_exact)"],
        "definitional_or_spec_internal": ["C01_vtt_shift_unfold (identity between two spec functions)",
                                          "C01_dfxp_blank_paragraph_ignored, C01_dfxp_missing_times_refused (unfold the "
                                          "model)", "C01_dfxp_long_fraction_refuted (history: the pre-fix variant)",
                                          "C01_dfxp_div_exact, C01_vtt_validation_transparent (liftings / corollaries)"],
        "correspondence_only": ["SAMI head / stylesheet (cssutils): the model is given the class -> lang table; SAMI text "
                                "outside the sublanguage of spec/SpecSamiText.v (missing end tags, comments, markup inside "
                                "paragraphs)",
                                "DFXP text -> tree: since wave 7 INSIDE the model on the XML sublanguage of "
                                "spec/SpecXmlDocT.v (theorem C01_dfxp_string_exact; the model parser stands for BeautifulSoup + "
                                "html.parser and is executed against the real reader on every generated text, on the "
                                "fixtures of pycaption's test suite and on DFXPWriter output); outside that sublanguage "
                                "(comments, CDATA, DOCTYPE, unquoted attributes, HTML void / raw-text element names, "
                                "character references 128..159, named HTML entities) correspondence only",
                                "float() literals of SAMI starts / MicroDVD rates are modelled as decimal literals "
                                "(dec_literal), exact below 2^53",
                                "Python int()/isdigit()/\\d outside ASCII digit strings (never generated)",
                                "the lang option, reader reuse"]}
    res["trusted_extra"] = ["C01: Python int()/isdigit()/\\d modelled on ASCII digit strings only"]
    return res


def sweep(ctx, acc):
    """thorough: where float truncation used to bite - every MicroDVD frame < 2*10^6 at the default rate (exact
    arithmetic on the harness side, reader through the public API in blocks), DFXP N.DDD{h,m,s,ms} for N < 50."""
    res = acc.res
    bad = 0
    block = 20000
    for a in range(0, 2 * 10**6, block):
        doc = "\n".join("{%d}{%d}t" % (n, n + 1) for n in range(a, a + block) if n)
        r = read_with("mdvd", doc)
        exp = [[n * 40000, (n + 1) * 40000] for n in range(a, a + block) if n]
        res["evaluations"] += 1
        if not (isinstance(r, Ok) and r.v == exp):
            bad += 1
            got = r.v if isinstance(r, Ok) else []
            k = next((i for i, (x, y) in enumerate(zip(got, exp)) if x != y), 0)
            res["violations"].append({"kind": "mdvd-times", "what": "MicroDVD frame sweep: frame %d read as %s" %
                                      (exp[k][0] // 40000, got[k] if k < len(got) else show(r)), "format": "mdvd",
                                      "document": "{%d}{%d}t" % (exp[k][0] // 40000, exp[k][1] // 40000),
                                      "expected": [exp[k]], "opts": None, "replay": "doc", "input": None})
    units = {"h": 3600 * 10**6, "m": 60 * 10**6, "s": 10**6, "ms": 1000}
    for u, mul in units.items():
        for n in range(0, 50):
            rows = []
            exp = []
            for d in range(0, 1000):
                rows.append(("%d.%03d%s" % (n, d, u), "99999h", None, "t"))
                exp.append([(n * 1000 + d) * mul // 1000, 99999 * 3600 * 10**6])
            doc = tg.dfxp_doc([("en", rows)])
            r = read_with("dfxp", doc, lang="en")
            res["evaluations"] += 1
            if not (isinstance(r, Ok) and r.v == exp):
                got = r.v if isinstance(r, Ok) else []
                k = next((i for i, (x, y) in enumerate(zip(got, exp)) if x != y), 0)
                res["violations"].append({"kind": "dfxp-times", "what": "DFXP offset sweep: %s read as %s" %
                                          (rows[k][0], got[k] if k < len(got) else show(r)), "format": "dfxp",
                                          "document": tg.dfxp_doc([("en", [rows[k]])]), "expected": [exp[k]],
                                          "opts": None, "replay": "doc", "input": None})
    res["distribution"]["sweep_mdvd_frames"] = 2 * 10**6
    res["distribution"]["sweep_dfxp_offsets"] = 2 * 10**5


def replay(ctx, rec):
    fmt = rec["format"]
    if rec.get("replay") == "reuse":
        opts = tuple(rec["opts"]) if rec.get("opts") else None
        reader = make_reader(fmt, opts)
        for h in rec.get("history", []):
            impl.call(lambda: reader.read(h))
        reused = impl.call(lambda: extract(fmt, do_read(reader, rec["document"], rec.get("rlang")), rec.get("lang"),
                                           rec.get("rlang")))
        fresh = read_with(fmt, rec["document"], opts, rec.get("lang"), rec.get("rlang"))
        return show(reused) != show(fresh), [show(reused), show(fresh)]
    if rec.get("replay") == "tree":
        reader = SAMIReader if fmt in ("sami-tree", "sami-text") else DFXPReader
        obs = impl.call(lambda: dict_obs(reader().read(rec["document"])))
        return show(obs) != rec["expected"], show(obs)
    opts = rec.get("opts")
    if fmt == "vtt":
        opts = tuple(opts)
    if fmt == "sami":
        r = read_with("sami", rec["document"])
        obs = Ok(r.v.get(opts, [])) if isinstance(r, Ok) else r
    elif fmt == "dfxp":
        obs = read_with("dfxp", rec["document"], lang="en")
    else:
        obs = read_with(fmt, rec["document"], opts, rlang=rec.get("rlang"))
    if isinstance(obs, Ok) and isinstance(obs.v, tuple):
        return True, show(obs)
    ok = oracle1(105, [rec["expected"], obs])
    return ok != 1, show(obs)
