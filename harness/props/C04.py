"""C04 - read text equals authored text.

Abstract inline content of a cue (text with a spelling per character, source line wraps - also next to inline elements -,
breaks, inline tags in every start-tag shape, comments / processing instructions, WebVTT voice / timestamp / unknown tags)
is generated here, serialised by the Coq SPEC serialisers (coq/spec/SpecTextRead.v, request 400) into DFXP / SAMI / WebVTT /
SRT / MicroDVD documents, and read by the real readers through the public API.
  property oracle  : Coq ok_lines_a (display items) (lines of the caption the reader returned)     [request 408]
                     (trim; runs of white space collapse; U+00A0 inside a line is a character)
  correspondence   : the reader models (coq/model/TextRead.v composed with the library stand-ins, request 402) give the same
                     TEXT/BREAK lines (exact node equality is counted); stream D: literal equality with vtt_decode
  library layers   : html.parser's events for the SAMI serialisation vs spec events_of (403); BeautifulSoup's tree for the
                     DFXP serialisation vs spec tree_of (404) - COUNTED and noted, never an alarm about pycaption
Streams: A random structured content x 5 formats; B short token sequences per format (exhaustive to length 2, sampled at
3 in quick); C WebVTT documents with identifiers / NOTE / STYLE / REGION blocks; D regex tie (random tag-like payloads).
Known findings are recognised by the failure (observed = authored with the wrap runs next to inline elements shown as
nothing / with the references shown literally), and both shapes are in the B alphabets, i.e. generated in every run.
"""
import itertools
from html.parser import HTMLParser

import impl
import gens_text as G  # noqa: F401
from wire import Ok, Err, Some, oracle_batch  # noqa: F401
from pycaption import DFXPReader, SAMIReader, WebVTTReader, SRTReader, MicroDVDReader

TABLES = ("Generated.v", "GenText.v")     # the SAMI entity table is generated from the working tree

FMT = {"DFXP": 0, "SAMI": 1, "WebVTT": 2, "SRT": 3, "MicroDVD": 4}
READERS = {"DFXP": DFXPReader, "SAMI": SAMIReader, "WebVTT": WebVTTReader, "SRT": SRTReader,
           "MicroDVD": MicroDVDReader}

# ---- abstract content -------------------------------------------------------------------------------------
PLAIN = list("abcdefghijklmnopqrstuvwxyzABCDEFXYZ0123456789.,!?'\"-;#=/()[]{}%")
# characters of the str.splitlines() set that are NOT line ends in any of the five formats, other non-ASCII blanks
ODD = ["\u2028", "\u2029", "\x85", "\x0c", "\x0b", "\x1c", "\x1e", "\u00a0", "\u2003", "\u200b", "\ufeff"]
SPECIAL = ["&", "<", ">", "&", "<", ">", " ", "é", "©", "€", "‎", "中", "\U0001F600", "x", ";", "#"]
LOOKALIKE = ["&amp;", "&lt;", "&gt;", "&#60;", "&#x3c;", "&nbsp;", "&bogus;", "<b>", "</i>", "<br/>", "<v Bob>",
             "a<b", "R&D", "]]>", "<!--", "&lt", "&#38;lt;", "&amp;lt;", "<00:01.000>", "</p>", "<span>"]
HTML_NAMED = {38, 60, 62, 34, 39, 160, 233, 169, 8364}
XML_NAMED = {38, 60, 62, 34, 39}
VTT_NAMED = {38, 60, 62, 160, 8206, 8207}


VTT_REFS = [0.03]        # share of WebVTT characters spelled as a numeric / HTML named reference (known finding)


def spellings(fmt, c, rng=None):
    o = ord(c)
    if fmt in ("SRT", "MicroDVD"):
        return [0]
    if fmt == "WebVTT":
        if rng is not None and rng.random() < VTT_REFS[0]:
            return [2, 3, 4] + ([5] if o in HTML_NAMED and o not in VTT_NAMED else [])
        r = [1] if o in VTT_NAMED else []
        if c not in "&<":
            r.append(0)
        return r
    named = XML_NAMED if fmt == "DFXP" else HTML_NAMED
    r = [2, 3, 4]
    if o in named:
        r.append(1)
    if c not in "&<":
        r += [0, 0, 0]
    return r


def rand_word(rng, fmt, adversarial):
    r = rng.random()
    if r < adversarial * 0.5:
        w = rng.choice(LOOKALIKE)
    elif r < adversarial:
        w = "".join(rng.choice(SPECIAL + PLAIN[:10] + (ODD if rng.random() < 0.3 else [])) for _ in range(rng.randint(1, 4)))
    else:
        w = "".join(rng.choice(PLAIN) for _ in range(rng.randint(1, 6)))
    if fmt == "MicroDVD":
        w = w.replace("|", "/")
    if not w.strip():
        return rand_word(rng, fmt, adversarial)      # a word has a visible character
    if w != w.strip():
        # Unicode white space at the edge of a word may end up next to a source line wrap, where the readers' strip()
        # removes it; for U+00A0 that is a (small) loss the comparison would report - kept inside words (design/C04.md)
        w = "x" + w + "x"
    return w


def txt_item(rng, fmt, s):
    cs = []
    for ch in s:
        if fmt in ("DFXP", "SAMI") and ch in "\x0b\x0c\x1c\x1e\x85" :
            ch = "\u2028"                # C0/C1 controls are not XML / HTML characters
        sp = rng.choice(spellings(fmt, ch, rng))
        if fmt == "WebVTT" and ch == ">" and sp == 0 and cs and cs[-1][0] == ord("-"):
            sp = 1                       # never a raw "-->" in cue text
        cs.append((ord(ch), sp))
    return ("t", cs)


def _entity_names():
    from html.entities import name2codepoint
    names = sorted(set(name2codepoint) | {"apos"})
    # names that exist in two spellings differing only by case decode to different characters
    lower = {}
    for n in names:
        lower.setdefault(n.lower(), []).append(n)
    cased = sorted(n for group in lower.values() if len(group) > 1 for n in group)
    cp = dict(name2codepoint)
    cp["apos"] = 0x27                      # HTML5 / XML; the table of html.entities (HTML 4) lacks it
    return names, cased, cp


ENT_NAMES, ENT_CASED, ENT_CP = _entity_names()


ENT_SPECIAL = ["apos", "quot", "amp", "lt", "gt", "nbsp"]      # apos is the entry pycaption adds to the table itself


def rand_entity(rng):
    r = rng.random()
    return ("e", rng.choice(ENT_CASED) if r < 0.5 else rng.choice(ENT_SPECIAL) if r < 0.7 else rng.choice(ENT_NAMES))


def rand_wrap(rng):
    return ("w", rng.choice([0, 0, 0, 100, 100, 200]) + rng.randint(0, 6))


COMMENTS = [" c ", "note", " a<b>c ", ""]
PIS = ["pi x", "xml-stylesheet href=\"a.css\""]
VTT_UNKNOWN = ["bar", "verbatim", "i2", "cite", "vv", "rtl", "language", "blink", "x", "under", "br"]
STAMPS = ["00:01.000", "12:34.567", "1:00:01.000", "100:59:59.999"]


def rand_line(rng, fmt, adversarial, depth=0, wraps=True):
    """one display line: words separated by single spaces (or a source wrap), some wrapped in inline tags"""
    items = []
    nwords = rng.randint(1, 5)
    k = 0
    if fmt == "WebVTT" and depth == 0 and rng.random() < 0.2:
        cls = [rng.choice(["loud", "x1", "a_b"]) for _ in range(rng.randint(0, 2))]
        items.append(("v", cls, txt_item(rng, fmt, rng.choice(["Bob", "Ann B", "Tom & Jerry", "Q<A"]))[1]))
    while k < nwords:
        r = rng.random()
        can_tag = fmt in ("DFXP", "SAMI", "WebVTT") and depth < 2
        if can_tag and r < 0.25:
            kmax = {"DFXP": 3, "SAMI": 4, "WebVTT": 7}[fmt]
            kind = rng.randint(0, kmax)
            if fmt == "WebVTT":
                kind += 10 * rng.choice([0, 0, 1, 2, 3, 4, 5])       # shape of the start tag: classes / annotation / TAB
            inner = rand_line(rng, fmt, adversarial, depth + 1, wraps=False)
            items += [("o", kind)] + inner + [("c", kind)]
        elif fmt == "WebVTT" and depth < 2 and r < 0.33:
            name = rng.choice(VTT_UNKNOWN)
            inner = rand_line(rng, fmt, adversarial, depth + 1, wraps=False)
            items += [("unk", False, name)] + inner + [("unk", True, name)]
        elif fmt == "WebVTT" and r < 0.38:
            items.append(("ts", rng.choice(STAMPS)))
        elif fmt == "SAMI" and r > 0.8:
            ent = rand_entity(rng)
            blank = chr(ENT_CP[ent[1]]).isspace()     # &nbsp; &ensp; ...: kept inside a word (see rand_word)
            if blank or rng.random() < 0.5:
                items.append(txt_item(rng, fmt, rand_word(rng, fmt, 0.0)))
            items.append(ent)
            if blank or rng.random() < 0.3:
                items.append(txt_item(rng, fmt, rand_word(rng, fmt, 0.0)))
        else:
            items.append(txt_item(rng, fmt, rand_word(rng, fmt, adversarial)))
        k += 1
        if k < nwords:
            if fmt in ("DFXP", "SAMI") and rng.random() < 0.04:
                items.append(("com", rng.choice(COMMENTS)) if fmt == "SAMI" or rng.random() < 0.7 else ("pi", rng.choice(PIS)))
            if fmt in ("DFXP", "SAMI") and rng.random() < (0.3 if wraps else 0.1):
                # a source line wrap between two words - also next to an inline element (pretty-printed documents)
                if rng.random() < 0.2:
                    items.append(txt_item(rng, fmt, " "))
                items.append(rand_wrap(rng))
            else:
                items.append(txt_item(rng, fmt, rng.choice([" ", " ", "  "])))
    return items


def rand_cue(rng, fmt, adversarial):
    nlines = rng.randint(1, 3)
    items = []
    for i in range(nlines):
        if i:
            items.append(("br",))
        if fmt in ("DFXP", "SAMI") and rng.random() < 0.3:
            items.append(rand_wrap(rng))                    # a source line end + indentation before the text
        items += rand_line(rng, fmt, adversarial)
        if fmt in ("DFXP", "SAMI") and rng.random() < 0.2:
            items.append(rand_wrap(rng))                    # ... and before the end
    return items


def wire_items(items):
    out = []
    for it in items:
        k = it[0]
        if k == "t":
            out.append([0, [[c, sp] for c, sp in it[1]]])
        elif k == "w":
            out.append([1, it[1]])
        elif k == "br":
            out.append([2])
        elif k == "o":
            out.append([3, it[1]])
        elif k == "c":
            out.append([4, it[1]])
        elif k == "v":
            out.append([5, list(it[1]), [[c, sp] for c, sp in it[2]]])
        elif k == "ts":
            out.append([6, it[1]])
        elif k == "e":
            out.append([8, it[1], ENT_CP[it[1]]])
        elif k == "com":
            out.append([9, it[1]])
        elif k == "pi":
            out.append([10, it[1]])
        else:
            out.append([7, bool(it[1]), it[2]])
    return out


# ---- documents ------------------------------------------------------------------------------------------------
def doc_of(fmt, contents):
    if fmt == "DFXP":
        ps = "\n".join('   <p begin="%s" end="%s">%s</p>' % (G.srt_timing(*G.times(i))[:12].replace(",", "."),
                                                            G.srt_timing(*G.times(i))[17:].replace(",", "."), c)
                       for i, c in enumerate(contents))
        return ('<?xml version="1.0" encoding="utf-8"?>\n<tt xml:lang="en" xmlns="http://www.w3.org/ns/ttml" '
                'xmlns:tts="http://www.w3.org/ns/ttml#styling">\n <body>\n  <div xml:lang="en">\n%s\n  </div>\n </body>\n</tt>\n' % ps)
    if fmt == "SAMI":
        body = ""
        for i, c in enumerate(contents):
            s, e = G.times(i)
            body += '<SYNC Start=%d><P Class=ENCC>%s</P></SYNC>\n<SYNC Start=%d><P Class=ENCC>&nbsp;</P></SYNC>\n' % (
                s // 1000, c, e // 1000)
        return ('<SAMI>\n<HEAD>\n<STYLE TYPE="text/css">\n<!--\nP { font-family: Arial; }\n.ENCC { Name: English; lang: en-US; }\n'
                '.hl { color: yellow; }\n-->\n</STYLE>\n</HEAD>\n<BODY>\n' + body + '</BODY>\n</SAMI>\n')
    if fmt == "WebVTT":
        return "WEBVTT\n\n" + "\n".join("%s\n%s\n" % (G.vtt_timing(*G.times(i)), c) for i, c in enumerate(contents))
    if fmt == "SRT":
        return "\n".join("%d\n%s\n%s\n" % (i + 1, G.srt_timing(*G.times(i)), c) for i, c in enumerate(contents))
    return "".join("%s%s\n" % (G.mdvd_prefix(*G.times(i)), c) for i, c in enumerate(contents))


STALE = ["STALE words", "left <i>over</i>", "old &amp; gone"]


def rejected_docs(fmt):
    """documents the reader of `fmt` REJECTS after it has already collected caption text: a well-formed first cue with
    text, then a cue whose timing is broken (and the same with the broken cue first; and a document cut off in the middle)"""
    good = doc_of(fmt, STALE[:2] + ["tail"])
    out = []
    if fmt == "DFXP":
        t1 = G.srt_timing(*G.times(1))[:12].replace(",", ".")
        t0 = G.srt_timing(*G.times(0))[:12].replace(",", ".")
        out = [good.replace('begin="%s"' % t1, 'begin="bogus"'), good.replace('begin="%s"' % t0, 'begin="1:xx"'),
               good[:good.index("tail")], good.replace('end="', 'end="x', 1),
               # round 3: a malformed later paragraph after a paragraph with inline elements and a break
               doc_of("DFXP", ['STALE mid <span tts:fontStyle="italic">para</span><br/>rest', "tail"]).replace('begin="%s"' % t1, 'begin="later"')]
    elif fmt == "SAMI":
        out = [good.replace("<SYNC Start=%d>" % (G.times(1)[0] // 1000), "<SYNC Start=abc>"), good[:good.index("tail")],
               "<SAMI><BODY></BODY></SAMI>", good.replace("lang: en-US;", ""),
               # round 3: the reader raises IN THE MIDDLE of a paragraph, after some of its words were translated
               doc_of("SAMI", ['STALE mid <i>para</i> <span class="">x</span> rest', "tail"]),
               doc_of("SAMI", ["old &amp; gone", 'second STALE <b>words</b><br/>more <span class="">x</span>', "tail"])]
    elif fmt == "WebVTT":
        t1 = G.vtt_timing(*G.times(1))
        out = [good.replace(t1, t1.replace("-->", "--> x")), good.replace(t1, "00:00:09.000 --> 00:00:01"),
               good.replace("WEBVTT", "WEBVT", 1), good.replace(t1, t1[:6] + "zz" + t1[8:])]
    elif fmt == "SRT":
        t1 = G.srt_timing(*G.times(1))
        out = [good.replace(t1, "00:00:0x,000 --> 00:00:04,500"), good.replace(t1, t1.replace(" --> ", " -> ")),
               good.replace("\n2\n", "\ntwo\n", 1), ""]
    else:
        p1 = G.mdvd_prefix(*G.times(1))
        out = [good.replace(p1, "{x}{y}"), good.replace(p1, ""), good.replace(p1, p1[:-1]), ""]
    return out


_REJECTED = {}


def used_reader(fmt, rng):
    """a reader object with a past: it has read (and refused) a document before; the caller caught the exception"""
    if fmt not in _REJECTED:
        keep = []
        for d in rejected_docs(fmt):
            r = impl.call(lambda: READERS[fmt]().read(d))
            if not isinstance(r, Ok):
                keep.append(d)
        _REJECTED[fmt] = keep
    reader = READERS[fmt]()
    docs = _REJECTED[fmt]
    for d in (rng.sample(docs, min(len(docs), rng.randint(1, 2))) if docs else []):
        impl.call(lambda: reader.read(d))
    return reader, len(docs)


READER_HISTORY = [None]       # set to an rng by run(): half of the documents are read by a reader object with a past


def read_doc(fmt, doc):
    rng = READER_HISTORY[0]
    if rng is not None and rng.random() < 0.5:
        reader, nrej = used_reader(fmt, rng)
        HIST_COUNT[fmt] = HIST_COUNT.get(fmt, 0) + (1 if nrej else 0)
        r = impl.call(lambda: reader.read(doc))
    else:
        r = impl.call(lambda: READERS[fmt]().read(doc))
    if not isinstance(r, Ok):
        return r
    return _caps_of(r.v)


def _caps_of(cs):
    caps = []
    for lang in cs.get_languages():
        for c in cs.get_captions(lang):
            nodes = []
            for n in (getattr(c, "nodes", None) or []):     # a reader may leave None / node-less captions behind
                if n.type_ == 1:
                    nodes.append(("t", n.content))
                elif n.type_ == 3:
                    nodes.append(("b",))
                else:
                    d = n.content if isinstance(n.content, dict) else {}
                    nodes.append(("s", bool(n.start), bool(d.get("italics")), bool(d.get("bold")),
                                  bool(d.get("underline")), d.get("color")))
            caps.append(nodes)
    return Ok(caps)


HIST_COUNT = {}


def model_nodes(resp):
    """wire option (list node) -> python canonical nodes"""
    if resp == []:
        return None
    out = []
    for n in resp[0]:
        if n[0] == 1:
            out.append(("t", n[1]))
        elif n[0] == 3:
            out.append(("b",))
        else:
            out.append(("s", bool(n[1]), bool(n[2]), bool(n[3]), bool(n[4]), None if n[5] == [] else n[5][0]))
    return out


def text_break(nodes):
    return [n for n in nodes if n[0] != "s"]


def in_domain(fmt, content):
    """excluded shapes, counted"""
    if fmt == "WebVTT":
        for line in content.split("\n"):
            if "-->" in line:
                return "vtt_arrow_in_payload"
            if line == "":
                return "vtt_empty_payload_line"
    if fmt == "SRT":
        for line in content.split("\n"):
            if not line.strip():
                return "srt_blank_payload_line"
    return None


# ---- library layers ---------------------------------------------------------------------------------------------
class _Events(HTMLParser):
    def __init__(self):
        super().__init__(convert_charrefs=False)
        self.ev = []

    def handle_starttag(self, tag, attrs):
        self.ev.append([0, tag, [[k, v if v is not None else ""] for k, v in attrs]])

    def handle_endtag(self, tag):
        self.ev.append([1, tag])

    def handle_entityref(self, name):
        self.ev.append([2, name])

    def handle_charref(self, name):
        self.ev.append([3, name])

    def handle_data(self, data):
        if self.ev and self.ev[-1][0] == 4:
            self.ev[-1][1] += data
        else:
            self.ev.append([4, data])


def html_events(content):
    p = _Events()
    p.feed(content)
    p.close()
    return p.ev


def bs4_tree(content):
    from bs4 import BeautifulSoup, NavigableString, Comment, ProcessingInstruction
    soup = BeautifulSoup("<p>" + content.replace("&apos;", "'") + "</p>", "html.parser")

    def kids(e):
        out = []
        for ch in e.contents:
            if isinstance(ch, (Comment, ProcessingInstruction)):
                continue
            if isinstance(ch, NavigableString):
                out.append([0, str(ch)])
            else:
                out.append([1, ch.name, [[k, v if isinstance(v, str) else " ".join(v)] for k, v in ch.attrs.items()],
                            kids(ch)])
        return out
    return kids(soup.find("p"))


# ---- known findings, recognised by the FAILURE ----------------------------------------------------------------------
def _is_ws_text(it):
    # WS_UNICODE: Python white space (U+2028, U+00A0 ... after a wrap are dropped with the indentation like blanks);
    # otherwise ASCII blanks only (a no-break space in front of the wrap stays).  The classification tries both.
    if WS_UNICODE[0]:
        return it[0] == "t" and all(chr(c).isspace() for c, _ in it[1])
    return it[0] == "t" and all(chr(c) in " \t\r\n\x0c" for c, _ in it[1])


WS_UNICODE = [False]


def _glue_alts(items, sami):
    out = []
    for mode in (False, True):
        WS_UNICODE[0] = mode
        out += [a for a in (glue_alt(items, sami), glue_alt(items, not sami)) if a is not None]
        out += glue_subsets(items)
    WS_UNICODE[0] = False
    return out


def glue_alt(items, sami=False):
    """DFXP/SAMI: what the readers show when a source line wrap touches an inline element: the run of white space
    holding the wrap is lost (bs4 hands over "\\n" for an all-white string; the text-node matcher strips a leading
    line end + indentation and a trailing one).  Returns the items with exactly those runs removed."""
    out, i, n, changed = [], 0, len(items), False
    solid = lambda it: it[0] in ("o", "c", "com", "pi")        # noqa: E731
    while i < n:
        if items[i][0] == "w" or _is_ws_text(items[i]):
            j = i
            while j < n and (items[j][0] == "w" or _is_ws_text(items[j])):
                j += 1
            run = items[i:j]
            has_w = any(x[0] == "w" for x in run)
            left_tag = i > 0 and solid(items[i - 1])
            right_tag = j < n and solid(items[j])
            left_edge = i == 0 or items[i - 1][0] == "br"
            right_edge = j == n or items[j][0] == "br"
            has_lf = any(x[0] == "w" and (sami or x[1] // 100 in (0, 1)) for x in run)
            if (left_tag or left_edge) and (right_tag or right_edge):
                lost = has_lf and (left_tag or right_tag)      # an all-white string with a line feed: bs4 gives "\n", dropped
            elif left_tag:
                lost = run[0][0] == "w"                        # leading [\n\r]+\s* is stripped
            elif right_tag:
                # trailing LF + indentation is dropped (DFXP: a CR stays; SAMI: CR and CR LF have become LF by then)
                lost = run[0][0] == "w" and (sami or run[0][1] // 100 == 0)
            else:
                lost = False
            if lost:
                changed = True
            else:
                out += run
            i = j
        else:
            out.append(items[i])
            i += 1
    return out if changed else None


def literal_refs_alt(items):
    """WebVTT: what the reader shows for numeric / HTML named references: their spelling, literally"""
    names = {34: "quot", 39: "apos", 233: "eacute", 169: "copy", 8364: "euro"}
    changed = [False]

    def conv(cs):
        out = []
        for c, sp in cs:
            lit = None
            if sp == 2:
                lit = "&#%d;" % c
            elif sp == 3:
                lit = "&#x%x;" % c
            elif sp == 4:
                lit = "&#X%X;" % c
            elif sp == 5 and c in names:
                lit = "&%s;" % names[c]
            if lit is None:
                out.append((c, sp))
            else:
                changed[0] = True
                out += [(ord(ch), 1 if ch == "&" else 0) for ch in lit]
        return out
    out = []
    for it in items:
        if it[0] == "t":
            out.append(("t", conv(it[1])))
        elif it[0] == "v":
            out.append(("v", it[1], conv(it[2])))
        else:
            out.append(it)
    return out if changed[0] else None


def glue_subsets(items):
    """every way of showing some of the wrap runs that touch an inline element / comment as nothing (at most 10 runs)"""
    runs, i, n = [], 0, len(items)
    solid = lambda it: it[0] in ("o", "c", "com", "pi")        # noqa: E731
    while i < n:
        if items[i][0] == "w" or _is_ws_text(items[i]):
            j = i
            while j < n and (items[j][0] == "w" or _is_ws_text(items[j])):
                j += 1
            if any(x[0] == "w" for x in items[i:j]) and ((i > 0 and solid(items[i - 1])) or (j < n and solid(items[j]))):
                runs.append((i, j))
            i = j
        else:
            i += 1
    runs = runs[:10]
    out = []
    for mask in range(1, 2 ** len(runs)):
        drop = set()
        for b, (i, j) in enumerate(runs):
            if mask >> b & 1:
                drop.update(range(i, j))
        out.append([it for k, it in enumerate(items) if k not in drop])
    return out


def strip_alt(items):
    """DFXP/SAMI: Unicode white space (U+00A0 ...) directly after or before a source line wrap is removed by the readers'
    lstrip()/strip() together with the indentation"""
    out, changed = [], False
    for k, it in enumerate(items):
        if it[0] == "t":
            cs = list(it[1])
            if k > 0 and items[k - 1][0] == "w":
                while cs and chr(cs[0][0]).isspace():
                    cs.pop(0)
                    changed = True
            if k + 1 < len(items) and items[k + 1][0] == "w":
                while cs and chr(cs[-1][0]).isspace():
                    cs.pop()
                    changed = True
            out.append(("t", cs))
        else:
            out.append(it)
    return out if changed else None


def strip_alts(items):
    """strip_alt applied at every non-empty subset of the places where it can apply (at most 6 places)"""
    places = []
    for k, it in enumerate(items):
        if it[0] == "t" and it[1]:
            if k > 0 and items[k - 1][0] == "w" and chr(it[1][0][0]).isspace():
                places.append((k, 0))
            if k + 1 < len(items) and items[k + 1][0] == "w" and chr(it[1][-1][0]).isspace():
                places.append((k, 1))
    places = places[:6]
    out = []
    for mask in range(1, 2 ** len(places)):
        alt = [it if it[0] != "t" else ("t", list(it[1])) for it in items]
        for b, (k, side) in enumerate(places):
            if mask >> b & 1:
                cs = alt[k][1]
                if side == 0:
                    while cs and chr(cs[0][0]).isspace():
                        cs.pop(0)
                else:
                    while cs and chr(cs[-1][0]).isspace():
                        cs.pop()
        out.append(alt)
    return out


def classify_known(viols):
    """re-label a text-differs violation when the observed lines are EXACTLY what the known defect produces"""
    reqs, slots = [], []
    for v in viols:
        if v["kind"] != "text-differs" or "observed" not in v:
            continue
        items = [tuple(x) for x in v["input"]]
        if v["fmt"] in ("DFXP", "SAMI"):
            kind = "words-glued-at-wrap-next-to-inline-element"
            alts = _glue_alts(items, v["fmt"] == "SAMI")
            for alt in alts:
                reqs.append((408, [wire_items(alt), v["observed"]]))
                slots.append((v, kind))
            for base_items in [items] + alts[:12]:
                for st in strip_alts(base_items)[:63]:
                    reqs.append((408, [wire_items(st), v["observed"]]))
                    slots.append((v, "unicode-space-stripped-at-wrap"))
            continue
        elif v["fmt"] == "WebVTT":
            alt, kind = literal_refs_alt(items), "vtt-character-reference-left-literal"
        else:
            continue
        if alt is not None:
            reqs.append((408, [wire_items(alt), v["observed"]]))
            slots.append((v, kind))
    for (v, kind), r in zip(slots, oracle_batch(reqs) if reqs else []):
        if r == 1 and v["kind"] == "text-differs":
            v["kind"] = kind
            v["what"] = kind + ": " + v["what"]


# ---- one batch of cues for one format -------------------------------------------------------------------------------
def run_batch(ctx, res, fmt, cues, stream):
    """cues: list of item lists"""
    code = FMT[fmt]
    wires = [wire_items(c) for c in cues]
    contents = oracle_batch([(400, [code, w]) for w in wires])
    shown = oracle_batch([(401, w) for w in wires])
    keep = []
    for c, w, s, d in zip(cues, wires, contents, shown):
        why = in_domain(fmt, s)
        if not why and not any(l.strip() for l in d):
            why = "no_visible_character"
        if why:
            res["distribution"][why] = res["distribution"].get(why, 0) + 1
        else:
            keep.append((c, w, s))
    if not keep:
        return
    doc = doc_of(fmt, [s for _, _, s in keep])
    got = read_doc(fmt, doc)
    models = oracle_batch([(402, [code, True, w]) for _, w, _ in keep])
    n = len(keep)
    res["distribution"]["cues_" + fmt] = res["distribution"].get("cues_" + fmt, 0) + n
    if not isinstance(got, Ok) or len(got.v) != n:
        # attribute the failure to single cues
        if n == 1:
            c, w, s = keep[0]
            what = (f"{fmt} reader raised {impl.ERR_NAMES.get(got.code, got.code)}" if not isinstance(got, Ok)
                    else f"{fmt} reader returned {len(got.v)} captions for 1 cue")
            res["evaluations"] += 1
            res["violations"].append({"kind": "reader-raises" if not isinstance(got, Ok) else "cue-count", "fmt": fmt,
                                      "what": what, "input": c, "content": s, "document": doc, "replay": "read",
                                      "shape": shape_of(fmt, c, s)})
            return
        half = n // 2
        run_batch(ctx, res, fmt, [c for c, _, _ in keep[:half]], stream)
        run_batch(ctx, res, fmt, [c for c, _, _ in keep[half:]], stream)
        return
    lines_obs = [G.py_lines(nd) for nd in got.v]
    oks = oracle_batch([(408, [w, lo]) for (_, w, _), lo in zip(keep, lines_obs)])
    mlines_req, mslots = [], []
    for (c, w, s), nd, m, ok, lo in zip(keep, got.v, models, oks, lines_obs):
        res["evaluations"] += 1
        res["nontrivial"].add((fmt, s))
        if ok != 1:
            res["violations"].append({"kind": "text-differs", "fmt": fmt,
                                      "what": f"{fmt}: caption text {lo!r} is not what the cue {s!r} displays",
                                      "input": c, "content": s, "observed": lo, "replay": "read",
                                      "shape": shape_of(fmt, c, s)})
            continue
        mn = model_nodes(m)
        if mn is not None and mn == nd:
            res["distribution"]["model_exact_equal"] = res["distribution"].get("model_exact_equal", 0) + 1
            continue
        res["distribution"]["model_exact_differs"] = res["distribution"].get("model_exact_differs", 0) + 1
        if mn is None:
            res["disagreements"].append({"fmt": fmt, "what": "the model pipeline rejects the cue", "content": s, "input": c})
            continue
        mslots.append((c, s, mn, nd))
        mlines_req.append((408, [w, G.py_lines(mn)]))
    for (c, s, mn, nd), ok in zip(mslots, oracle_batch(mlines_req) if mlines_req else []):
        if ok != 1:
            res["disagreements"].append({"fmt": fmt, "what": "model and reader give different lines", "content": s,
                                         "model": mn, "impl": nd})
        elif len(res["notes"]) < 5:
            res["notes"].append(f"exact difference (same lines) {fmt} {s!r}: model {mn!r} impl {nd!r}")
    # library layers
    if fmt == "SAMI":
        exp = oracle_batch([(403, w) for _, w, _ in keep])
        for (c, w, s), e in zip(keep, exp):
            same = html_events(s) == e
            key = "lib_html_parser_events_" + ("equal" if same else "differ")
            res["distribution"][key] = res["distribution"].get(key, 0) + 1
            if not same and len(res["notes"]) < 8:
                res["notes"].append(f"library layer (not pycaption): html.parser events differ from spec events_of on {s!r}")
    if fmt == "DFXP":
        exp = oracle_batch([(404, [0, w]) for _, w, _ in keep])
        for (c, w, s), e in zip(keep, exp):
            t = bs4_tree(s)
            same = e != [] and norm_tree(e[0]) == norm_tree(t)
            key = "lib_bs4_tree_" + ("equal" if same else "differ")
            res["distribution"][key] = res["distribution"].get(key, 0) + 1
            if not same and len(res["notes"]) < 8:
                res["notes"].append(f"library layer (not pycaption): BeautifulSoup tree differs from spec tree_of on {s!r}")


IDENTS = [None, None, "1", "3", "cue-2", "intro", "a b c", "Chapter 1 - start", "NOTEBOOK"]
OTHER_BLOCKS = [["NOTE"], ["NOTE this is a comment"], ["NOTE", "a multi-line", "comment block"],
                ["NOTE check <i>this</i> &amp; that", "second line"],
                ["STYLE", "::cue {", "  color: papayawhip;", "}"], ["STYLE", "::cue(b) { color: peachpuff; }"],
                ["REGION", "id:fred width:40% lines:3"], ["NOTE TODO", "1", "2"], ["just some stray text"]]
HEADERS = [["WEBVTT"], ["WEBVTT - a title"], ["WEBVTT", "Kind: captions", "Language: en"]]


def run_vtt_documents(ctx, res, ndocs):
    rng = ctx.rng
    specs = []
    keep_refs, VTT_REFS[0] = VTT_REFS[0], 0.0        # block structure is the subject here; references: streams A, B
    for _ in range(ndocs):
        blocks = []
        cues = []
        for _ in range(rng.randint(1, 6)):
            if rng.random() < 0.45:
                blocks.append([1, list(rng.choice(OTHER_BLOCKS)), rng.randint(1, 2)])
            else:
                items = rand_cue(rng, "WebVTT", rng.choice([0.2, 0.5]))
                s, e = G.times(len(cues))
                ident = rng.choice(IDENTS)
                blocks.append([0, None if ident is None else Some(ident), G.vtt_timing(s, e) + rng.choice(["", " align:left", " position:10%"]),
                               wire_items(items), rng.randint(1, 3)])
                cues.append(items)
        if not cues:
            continue
        if rng.random() < 0.4:
            blocks[-1][-1] = 0                     # the document ends right after the last block
        specs.append((list(rng.choice(HEADERS)), blocks, cues))
    VTT_REFS[0] = keep_refs
    lines_all = oracle_batch([(410, [h, b]) for h, b, _ in specs])
    payloads = oracle_batch([(400, [2, wire_items(c)]) for _, _, cs in specs for c in cs])
    pos = 0
    jobs = []
    for (h, b, cues), lines in zip(specs, lines_all):
        pl = payloads[pos:pos + len(cues)]
        pos += len(cues)
        why = next((w for w in (in_domain("WebVTT", s) for s in pl) if w), None)
        if why:
            res["distribution"][why] = res["distribution"].get(why, 0) + 1
            continue
        doc = "\n".join(lines) + rng.choice(["", "\n"])
        jobs.append((doc, cues, b))
    models = oracle_batch([(409, [True, reader_lines(doc)]) for doc, _, _ in jobs])
    for (doc, cues, blocks), m in zip(jobs, models):
        res["evaluations"] += len(cues)
        res["distribution"]["vtt_documents"] = res["distribution"].get("vtt_documents", 0) + 1
        res["nontrivial"].add(("WebVTT-doc", doc))
        got = read_doc("WebVTT", doc)
        base = {"fmt": "WebVTT", "replay": "vttdoc", "document": doc, "input": [wire_items(c) for c in cues],
                "shape": "vtt-document-blocks"}
        if not isinstance(got, Ok):
            res["violations"].append(dict(base, kind="reader-raises", what="WebVTT reader raised on a document with identifiers / NOTE blocks"))
            continue
        if len(got.v) != len(cues):
            res["violations"].append(dict(base, kind="cue-count", observed=[G.py_lines(n) for n in got.v],
                                          what=f"WebVTT: {len(cues)} cues in the document, {len(got.v)} captions read "
                                               "(identifier / NOTE / STYLE lines must never become captions)"))
            continue
        oks = oracle_batch([(408, [wire_items(c), G.py_lines(n)]) for c, n in zip(cues, got.v)])
        if any(o != 1 for o in oks):
            k = next(i for i, o in enumerate(oks) if o != 1)
            res["violations"].append(dict(base, kind="text-differs", observed=G.py_lines(got.v[k]),
                                          what=f"WebVTT: cue {k} reads {G.py_lines(got.v[k])!r}: not the displayed cue text"))
            continue
        mn = [[n for n in (model_nodes([x]) or [])] for x in m]
        if mn != got.v:
            ml = oracle_batch([(408, [wire_items(c), G.py_lines(n)]) for c, n in zip(cues, mn)]) if len(mn) == len(cues) else [0]
            if any(o != 1 for o in ml):
                res["disagreements"].append({"fmt": "WebVTT", "what": "line-loop model and reader differ on a document",
                                             "document": doc, "model": mn, "impl": got.v})
            else:
                res["distribution"]["model_exact_differs"] = res["distribution"].get("model_exact_differs", 0) + 1
        else:
            res["distribution"]["model_exact_equal"] = res["distribution"].get("model_exact_equal", 0) + 1


def reader_lines(doc):
    """the readers' line splitting: LF, CR LF, CR only (pycaption.utils.split_lines)"""
    import re
    lines = re.split("\r\n|\r|\n", doc)
    if lines and lines[-1] == "":
        lines.pop()
    return lines


FUZZ = ["<", "<", "</", ">", ">", "c", "i", "b", "u", "v", "ruby", "rt", "lang", "x", "bar", ".", ".a", " ", " ", "\t", "B",
        "1", ":", "00:01.000", "&amp;", "&lt;", "&gt;", "&nbsp;", "&", ";", "-", "_", "é", "/"]


def run_regex_fuzz(ctx, res, n):
    """D: ties VOICE_SPAN_PATTERN / OTHER_SPAN_PATTERN / the replace chain to the model: random tag-like one-line cue
    payloads through the PUBLIC reader, the text it returns must be literally the model's vtt_decode (request 405)"""
    rng = ctx.rng
    payloads = set()
    while len(payloads) < n:
        sline = "".join(rng.choice(FUZZ) for _ in range(rng.randint(1, 9)))
        if sline.strip() and "-->" not in sline:
            payloads.add(sline)
    payloads = sorted(payloads)
    models = oracle_batch([(405, [True, p]) for p in payloads])
    bad = 0
    for pl, m in zip(payloads, models):
        got = read_doc("WebVTT", "WEBVTT\n\n00:00:01.000 --> 00:00:02.000\n%s\n" % pl)
        if not isinstance(got, Ok):
            obs = ("raise", got.code)
        elif len(got.v) == 0:
            obs = ""
        else:
            obs = "".join(n[1] for n in got.v[0] if n[0] == "t") if len(got.v) == 1 and all(n[0] == "t" for n in got.v[0]) else got.v
        res["evaluations"] += 1
        if obs != m:
            bad += 1
            if len(res["disagreements"]) < 30:
                res["disagreements"].append({"fmt": "WebVTT", "what": "regex tie: reader text differs literally from the model's vtt_decode",
                                             "payload": pl, "impl": obs, "model": m})
    res["distribution"]["D_regex_fuzz_payloads"] = len(payloads)
    res["distribution"]["D_regex_fuzz_differ"] = bad


def norm_tree(t):
    out = []
    for x in t:
        if x[0] == 0:
            out.append([0, x[1]])
        else:
            out.append([1, x[1], sorted([a, v] for a, v in x[2]), norm_tree(x[3])])
    return out


def shape_of(fmt, items, content):
    kinds = [it[0] for it in items]
    if "com" in kinds or "pi" in kinds:
        return "comment-or-pi"
    if fmt in ("DFXP", "SAMI") and "w" in kinds:
        return "wrapped-text"
    for a, b, c in zip(items, items[1:], items[2:]):
        if a[0] == "c" and c[0] == "o" and b[0] == "t" and all(chr(x[0]).isspace() for x in b[1]):
            return "space-between-inline-elements"
    if fmt == "SAMI" and "e" in kinds:
        return "sami-named-entity"
    if fmt == "SAMI" and any(it[0] == "t" and any(sp != 0 or c in (38, 60, 62) for c, sp in it[1]) for it in items):
        return "sami-entity"
    if fmt == "WebVTT" and "unk" in kinds:
        return "vtt-unknown-tag"
    return "other"


# ---- stream B: exhaustive short token sequences --------------------------------------------------------------------
def tokens_for(fmt):
    T = lambda s, sp=None: ("t", [(ord(ch), sp if sp is not None else 0) for ch in s])   # noqa: E731
    named = lambda s: ("t", [(ord(ch), 1) for ch in s])    # noqa: E731
    if fmt == "WebVTT":
        toks = [[T("a")], [T(" ")], [T("x>y")], [named("&")], [named("<")], [named(">")], [named(" ")],
                [("t", [(38, 1), (ord("l"), 0), (ord("t"), 0), (ord(";"), 0)])],        # &amp;lt;
                [("o", 0)], [("c", 0)], [("o", 3)], [("c", 3)], [("o", 4)], [("o", 5)], [("c", 5)], [("c", 4)],
                [("o", 6)], [("c", 6)], [("v", [], [(66, 0), (111, 0), (98, 0)])], [("v", ["loud"], [(65, 0), (32, 0), (66, 0)])],
                [("c", 7)], [("ts", "00:01.000")], [("ts", "1:00:01.000")]]
        # every known tag in every start-tag shape (bare, class, annotation after a space / a TAB, both); one pair each
        for t in range(8):
            for v in (1, 2, 3, 4, 5):
                if t == 7 and v in (3, 4):
                    continue
                toks.append([("o", t + 10 * v), T("w"), ("c", t)])
        # numeric / HTML named references (the reader leaves them literal: known finding)
        toks += [[("t", [(65, 2)])], [("t", [(233, 5)])], [("t", [(60, 3), (98, 0), (62, 4)])]]
        for n in ["bar", "verbatim", "i2", "cite", "vv", "rtl", "language", "u1", "b-x", "c_"]:
            toks.append([("unk", False, n)])
            toks.append([("unk", True, n)])
        return toks
    if fmt in ("DFXP", "SAMI"):
        toks = [[T("a")], [T("b c")], [T(" ")], [T("  ")], [T("\t")], [("w", 0)], [("w", 3)], [("br",)],
                [("o", 0)], [("c", 0)], [("o", 1)], [("c", 1)],
                [("t", [(38, 1), (ord("l"), 0), (ord("t"), 0), (ord(";"), 0)])],        # &amp;lt;
                [("t", [(38, 2), (ord("l"), 0), (ord("t"), 0), (ord(";"), 0)])],        # &#38;lt;
                [("t", [(60, 2), (ord("b"), 0), (62, 2)])],                             # &#60;b&#62;
                [("t", [(65, 4)])], [("t", [(60, 1)])], [("t", [(62, 0)])], [("t", [(160, 1)])], [("t", [(39, 1)])],
                [("w", 100)], [("w", 203)], [("com", " c ")], [T("\u2028")], [T("a\u00a0b")]]
        if fmt == "DFXP":
            toks += [[("pi", "pi x")]]
        if fmt == "SAMI":
            toks += [[("e", n)] for n in ("Eacute", "eacute", "Prime", "apos", "amp")]
        # whole inline elements as single tokens: adjacent elements separated only by a white-space text node
        toks += [[("o", 0), T("Hello"), ("c", 0)], [("o", 1), T("world"), ("c", 1)]]
        # a no-break space at the start of a continuation line (known finding: stripped with the indentation)
        toks += [[T("a"), ("w", 3), ("t", [(160, 1)]), T("b")]]
        return toks
    if fmt == "SRT":
        return [[T("a")], [T(" ")], [T("<i>")], [T("&amp;")], [T("1")], [T("-->")], [("br",)], [T("|")], [T("{y:i}")],
                [T("\u2028")], [T("\x85")], [T("\x0c")], [T("\u00a0")]]
    return [[T("a")], [T(" ")], [T("<i>")], [T("&amp;")], [T("{1}{2}")], [("br",)], [T("/")], [T("{y:i}")],
            [T("\u2028")], [T("\x85")], [T("\x0c")], [T("\u00a0")]]


def inline_space_grid(fmt):
    """two inline elements (or an element and text) separated only by a white-space text node on the same source
    line, flat and nested: the separator is a word separator"""
    T = lambda s: ("t", [(ord(ch), 0) for ch in s])    # noqa: E731
    A = [("o", 0), T("Hello"), ("c", 0)]
    B = [("o", 1), T("world"), ("c", 1)]
    out = []
    for sp in (" ", "  ", "\t", " \t "):
        out.append(A + [T(sp)] + B)
        out.append([T("Hello")] + [T(sp)] + B)
        out.append(A + [T(sp)] + [T("world")])
        out.append([("o", 2)] + A + [T(sp)] + B + [("c", 2)])
        out.append([("o", 2)] + A + [("c", 2)] + [T(sp)] + [("o", 2)] + B + [("c", 2)])
        out.append(A + [T(sp)] + B + [T(sp)] + A)
    return out


def valid_sequence(fmt, items):
    """well-formed: tags properly nested (WebVTT: no line break inside a tag pair)"""
    stack = []
    for it in items:
        if it[0] == "o":
            stack.append(("k", it[1] % 10 if fmt == "WebVTT" else it[1]))
        elif it[0] == "c":
            if it[1] == 7 and fmt == "WebVTT" and stack and stack[-1] == ("v",):
                stack.pop()
                continue
            if not stack or stack[-1] != ("k", it[1]):
                return False
            stack.pop()
        elif it[0] == "unk":
            if not it[1]:
                stack.append(("u", it[2]))
            else:
                if not stack or stack[-1] != ("u", it[2]):
                    return False
                stack.pop()
        elif it[0] == "v":
            stack.append(("v",))
        elif it[0] == "br":
            if stack:
                if fmt == "WebVTT":
                    return False
    if any(s[0] != "v" for s in stack):
        return False
    return True



# ---- stream S (wave 7, round 2): DFXP end to end on STRINGS ------------------------------------------------------------
S_ATOMS = ["&", "<", ">", "&amp;", "&lt;", "&amp;lt;", "&#60;", "&#x26;", "]]>", "<br/>", "</p>", "<span>", "</span>", "<!--", "-->",
           '"', "'", "a", "b", "Tom", "x  y", "R&D", "1 < 2", "\u00e9", "a\u00a0b", "\u4e2d", ";", "#", "=", "/", "\\"]


def rand_piece(rng):
    n = rng.randint(1, 4)
    w = rng.choice([" ", "", "", " ", "  "]).join(rng.choice(S_ATOMS) for _ in range(n))
    if rng.random() < 0.15:
        w += rng.choice([" ", "  ", "\t"])                  # trailing blanks before a wrap / a <br/> are inside the domain
    return w


def rand_wlines(rng):
    """a cue as a list of lines (first piece, [(indentation, piece), ...]); pieces never begin with white space"""
    nl = rng.randint(1, 3)
    ls = []
    for _ in range(nl):
        if ls and rng.random() < 0.12:
            ls.append(["", []])
            continue
        tail = [[rng.choice(["", " ", "  ", "    ", "\t", " \t ", "      "]), rand_piece(rng)] for _ in range(rng.choice([0, 0, 1, 1, 2, 3]))]
        ls.append([rand_piece(rng), tail])
    if not any(l[0] for l in ls):
        ls[0] = ["x", []]
    return ls


def judge_strings(cues):
    """cues: list of wlines lists -> list of (violation or None, info)"""
    resp = oracle_batch([(412, c) for c in cues])
    docs = []
    for k in range(0, len(cues), 12):
        docs.append((k, doc_of("DFXP", [r[0] for r in resp[k:k + 12]])))
    out = [None] * len(cues)
    for k, doc in docs:
        got = read_doc("DFXP", doc)
        chunk = list(range(k, min(k + 12, len(cues))))
        if not isinstance(got, Ok) or len(got.v) != len(chunk):
            for i in chunk:
                out[i] = ({"kind": "cue-count" if isinstance(got, Ok) else "reader-raises",
                           "what": "DFXP reader: %s on a document rendered by the Coq spec (render_p)" %
                                   ("%d captions for %d cues" % (len(got.v), len(chunk)) if isinstance(got, Ok) else "raises")}, None)
            continue
        lines = [G.py_lines(text_break(n)) for n in got.v]
        oks = oracle_batch([(413, [resp[i][1], l]) for i, l in zip(chunk, lines)])
        for i, l, ok in zip(chunk, lines, oks):
            info = {"lines": l, "shown": resp[i][1], "exact": l == resp[i][1], "model_is_shown": resp[i][2] != [] and resp[i][2][0] == resp[i][1], "indomain": resp[i][3] == 1}
            v = None
            if ok != 1:
                v = {"kind": "text-differs", "what": "DFXP (strings): reader lines %r, a consumer shows %r" % (l, resp[i][1]),
                     "observed": l, "expected": resp[i][1], "content": resp[i][0]}
            out[i] = (v, info)
    return out


def run_strings_dfxp(ctx, res, n):
    rng = ctx.rng
    cues = [rand_wlines(rng) for _ in range(n)]
    d = res["distribution"]
    for c, (v, info) in zip(cues, judge_strings(cues)):
        res["evaluations"] += 1
        d["S_dfxp_string_cues"] = d.get("S_dfxp_string_cues", 0) + 1
        d["S_wraps"] = d.get("S_wraps", 0) + sum(len(l[1]) for l in c)
        res["nontrivial"].add(("DFXP-str", repr(c)))
        if info is not None:
            d["S_reader_lines_exactly_shown" if info["exact"] else "S_reader_lines_differ_in_white_space_only"] = \
                d.get("S_reader_lines_exactly_shown" if info["exact"] else "S_reader_lines_differ_in_white_space_only", 0) + 1
            if not info["indomain"]:
                d["S_outside_line_ok"] = d.get("S_outside_line_ok", 0) + 1
            elif not info["exact"] and len(res["disagreements"]) < 50:
                # audit w7 item 1: the theorem's EXACT equality is tied to the real reader at alarm level
                res["disagreements"].append({"fmt": "DFXP", "what": "real DFXPReader lines differ (in white space) from the model's lines = the "
                                             "shown lines on an in-domain cue (C04_dfxp_str_end_to_end_partial is exact)", "input": c,
                                             "impl": info.get("lines"), "model": info.get("shown")})
            elif not info["model_is_shown"] and len(res["disagreements"]) < 50:
                res["disagreements"].append({"fmt": "DFXP", "what": "read_p (render_p ls) differs from the shown lines on an in-domain cue "
                                             "(instance of C04_dfxp_str_end_to_end_partial)", "input": c})
        if v is not None:
            res["violations"].append(dict(v, fmt="DFXP", shape="dfxp-strings", replay="dfxp-str", input=c))


# ---- stream T (round 3): SRT / WebVTT / MicroDVD documents with CR, CRLF and mixed line ends ----------------------------
def _line_ends(doc, mode, rng):
    if mode == "CR":
        return doc.replace("\n", "\r")
    if mode == "CRLF":
        return doc.replace("\n", "\r\n")
    out = []
    for ch in doc:
        if ch == "\n":
            e = rng.choice(["\r", "\n", "\r\n", "\r"])
            if e == "\n" and out and out[-1].endswith("\r"):
                e = "\r\n"                    # CR followed by LF would be ONE line end (CRLF): keep two line ends two
            out.append(e)
        else:
            out.append(ch)
    return "".join(out)


def judge_line_end_doc(fmt, doc, expected):
    """-> None or (kind, what, observed): the document must read as its LF twin: one caption per cue, lines = display"""
    got = impl.call(lambda: READERS[fmt]().read(doc))
    if not isinstance(got, Ok):
        return ("reader-raises", f"{fmt} reader raised {impl.ERR_NAMES.get(got.code, got.code)}", None)
    caps = _caps_of(got.v)
    lines = [G.py_lines(text_break(n)) for n in caps.v]
    if len(lines) != len(expected):
        return ("cue-count", f"{fmt}: {len(expected)} cues, {len(lines)} captions", lines)
    oks = oracle_batch([(413, [e, l]) for e, l in zip(expected, lines)])
    for e, l, ok in zip(expected, lines, oks):
        if ok != 1:
            return ("text-differs", f"{fmt}: caption text {l!r}, the cue displays {e!r}", lines)
    return None


def run_line_ends(ctx, res, nbatch):
    rng = ctx.rng
    d = res["distribution"]
    for fmt in ("SRT", "WebVTT", "MicroDVD"):
        for _ in range(nbatch):
            cues = [rand_cue(rng, fmt, rng.choice([0.2, 0.5])) for _ in range(8)]
            wires = [wire_items(c) for c in cues]
            contents = oracle_batch([(400, [FMT[fmt], w]) for w in wires])
            shown = oracle_batch([(401, w) for w in wires])
            keep = [(s, sh) for s, sh in zip(contents, shown)
                    if not in_domain(fmt, s) and any(l.strip() for l in sh) and "\r" not in s]
            if not keep:
                continue
            # keep the cues whose LF twin reads correctly (the others - known findings of the WebVTT reader - belong to A / B)
            got = impl.call(lambda: READERS[fmt]().read(doc_of(fmt, [s for s, _ in keep])))
            caps = _caps_of(got.v).v if isinstance(got, Ok) else []
            if len(caps) != len(keep):
                d["T_lf_twin_already_fails"] = d.get("T_lf_twin_already_fails", 0) + 1
                continue
            oks = oracle_batch([(413, [sh, G.py_lines(text_break(n))]) for (_, sh), n in zip(keep, caps)])
            d["T_cues_dropped_lf_twin_fails"] = d.get("T_cues_dropped_lf_twin_fails", 0) + sum(1 for o in oks if o != 1)
            keep = [k for k, o in zip(keep, oks) if o == 1]
            if not keep:
                continue
            lf = doc_of(fmt, [s for s, _ in keep])
            expected = [sh for _, sh in keep]
            if judge_line_end_doc(fmt, lf, expected) is not None:
                d["T_lf_twin_already_fails"] = d.get("T_lf_twin_already_fails", 0) + 1      # reported by streams A / B, not here
                continue
            for mode in ("CR", "mixed", "CRLF"):
                doc = _line_ends(lf, mode, rng)
                res["evaluations"] += len(keep)
                d["T_%s_%s_cues" % (fmt, mode)] = d.get("T_%s_%s_cues" % (fmt, mode), 0) + len(keep)
                res["nontrivial"].add((fmt + "-" + mode, doc))
                v = judge_line_end_doc(fmt, doc, expected)
                if v is not None:
                    res["violations"].append({"kind": v[0], "fmt": fmt, "shape": "line-ends-" + mode, "replay": "doc-lines",
                                              "what": "%s (line ends %s; the LF twin reads correctly)" % (v[1], mode),
                                              "document": doc, "expected": expected, "observed": v[2], "input": []})


def run(ctx):
    res = {"evaluations": 0, "nontrivial": set(), "violations": [], "disagreements": [], "distribution": {},
           "streams": 5, "notes": []}
    rng = ctx.rng
    READER_HISTORY[0] = rng
    HIST_COUNT.clear()
    # B: exhaustive short token sequences
    maxlen = ctx.n(3, 4)
    for fmt in FMT:
        toks = tokens_for(fmt)
        seqs = []
        for L in range(1, maxlen + 1):
            if len(toks) ** L > ctx.n(4000, 200000):
                # alphabet too large for this length: SAMPLED (quick: every format at length 3; thorough: at length 4,
                # WebVTT also at 3)
                for _ in range(ctx.n(5000, 120000)):
                    seqs.append(sum((rng.choice(toks) for _ in range(L)), []))
                continue
            for combo in itertools.product(toks, repeat=L):
                seqs.append(sum(combo, []))
        seqs = [s for s in seqs if valid_sequence(fmt, s)]
        if fmt in ("DFXP", "SAMI"):
            seqs = inline_space_grid(fmt) + seqs
        res["distribution"]["B_sequences_" + fmt] = len(seqs)
        # visible?
        disp = oracle_batch([(401, wire_items(s)) for s in seqs])
        seqs = [s for s, d in zip(seqs, disp) if any(l.strip() for l in d)]
        for k in range(0, len(seqs), 40):
            run_batch(ctx, res, fmt, seqs[k:k + 40], "B")
    # A: random structured content
    nbatch = ctx.n(30, 900)
    for fmt in FMT:
        for _ in range(nbatch):
            adv = rng.choice([0.2, 0.5, 0.8])
            cues = [rand_cue(rng, fmt, adv) for _ in range(12)]
            run_batch(ctx, res, fmt, cues, "A")
    run_vtt_documents(ctx, res, ctx.n(250, 8000))
    run_regex_fuzz(ctx, res, ctx.n(2500, 60000))
    READER_HISTORY[0] = None              # shrinking and replays use a fresh reader AND, see check_one, a used one
    for f, c in HIST_COUNT.items():
        res["distribution"]["read_after_rejected_document_" + f] = c
    for f in FMT:
        res["distribution"]["rejected_documents_" + f] = len(_REJECTED.get(f, []))
    classify_known(res["violations"])
    # shrink the first violation of every kind
    seen = set()
    for i, v in enumerate(res["violations"]):
        key = (v["kind"], v["fmt"], v["shape"])
        if key in seen or len(seen) >= 6:
            continue
        seen.add(key)
        res["violations"][i] = shrink(v)
    classify_known([v for v in res["violations"] if v["kind"] == "text-differs"])      # a shrunk input may show a known failure
    run_line_ends(ctx, res, ctx.n(6, 300))
    run_strings_dfxp(ctx, res, ctx.n(720, 40000))
    res["rule"] = ("A: 12-cue documents of random structured inline content per format (1-3 lines, nested inline tags in every "
                   "start-tag shape, per-character spellings raw/named/decimal/hex, source line wraps also next to inline "
                   "elements, comments/PIs, U+2028/U+0085/FF/U+00A0 in text, WebVTT voice/timestamp/unknown tags); B: token "
                   "sequences of <= %d tokens over a per-format alphabet - exhaustive up to length 2, SAMPLED above when the "
                   "alphabet is too large (quick: length 3 sampled for every format); C: WebVTT documents with identifiers and "
                   "NOTE/STYLE/REGION blocks; D: random tag-like WebVTT payloads, reader text == model vtt_decode literally. "
                   "Non-trivial = distinct (format, serialised cue content)." % maxlen)
    nt = sorted(res["nontrivial"], key=lambda x: -len(x[1]))
    res["samples"] = [{"format": f, "content": s} for f, s in nt[:2]] + [{"format": f, "content": s} for f, s in nt[len(nt) // 2:len(nt) // 2 + 3]]
    res["clauses"] = {
        "theorem": ["END TO END on the models (oracle ok_lines_a as conclusion): SRT and MicroDVD for every item list without the "
                    "separator in text; WebVTT for everything the serialiser emits except the references the reader leaves literal "
                    "(raw / WebVTT-named spellings, all known tags in all six shapes, timestamps, voice and unknown tags, any "
                    "white space at line ends), also at document level (C04_*_end_to_end*); DFXP tree level up to white space",
                    "WebVTT components: replace chain decodes the six references once; the tag matcher deletes known tags by "
                    "name; line loop = per-cue decode on well-formed documents",
                    "SAMI stage 1 keeps & < > escaped whatever their spelling (second parse gives the text once)",
                    "text-node matcher keeps all words of text wrapped over several source lines",
                    "wave 7: DFXP END TO END ON STRINGS - read_p (render_p lines) = the shown lines EXACTLY for every list of lines "
                    "(strict XML parser + reader model on the rendered string; every character, LF wraps with any indentation, pieces "
                    "that do not begin with white space; C04_dfxp_str_end_to_end_partial, C04_dfxp_text_node_wrapped)",
                    "DFXP/SAMI tree walk keeps all non-white-space characters (cannot see glued words)",
                    "the two WebVTT regular expressions are pinned: an edit breaks props/C04.v"],
        "correspondence_only": ["the statement for DFXP and SAMI, and for all five formats on the REAL readers: oracle on "
                                "executed reads",
                                "html.parser tokenisation, BeautifulSoup tree building (counted against the spec, SAMI events / "
                                "DFXP trees only)", "document skeletons (head, timing attributes) around the inline content",
                                "SRT / MicroDVD line splitting (model vs reader), no theorem"]}
    res["trusted_extra"] = ["html.parser and BeautifulSoup(html.parser / lxml) as library layers, bracketed by spec "
                            "events_of / tree_of on every generated cue"]
    return res


def check_one(fmt, items):
    w = wire_items(items)
    s = oracle_batch([(400, [FMT[fmt], w])])[0]
    import random
    for hist in (None, random.Random(1), random.Random(2)):
        READER_HISTORY[0] = None
        if hist is None:
            got = read_doc(fmt, doc_of(fmt, [s]))
        else:
            reader, _ = used_reader(fmt, hist)
            got = impl.call(lambda: reader.read(doc_of(fmt, [s])))
            if isinstance(got, Ok):
                got = _caps_of(got.v)
        if not isinstance(got, Ok):
            return False, ("raise", got.code)
        if len(got.v) != 1:
            return False, ("cue-count", len(got.v))
        lo = G.py_lines(got.v[0])
        ok = oracle_batch([(408, [w, lo])])[0]
        if ok != 1:
            return False, {"content": s, "observed": lo, "reader": "fresh" if hist is None else "after a rejected document"}
    return True, {"content": s, "observed": lo}


def shrink(v):
    if v.get("replay") != "read":
        return v
    fmt, items = v["fmt"], [tuple(x) if not isinstance(x, tuple) else x for x in v["input"]]
    budget = [120]

    def bad(its):
        if budget[0] <= 0 or not its:
            return False
        budget[0] -= 1
        if not valid_sequence(fmt, its):
            return False
        try:
            w = wire_items(its)
            d = oracle_batch([(401, w)])[0]
            if not any(l.strip() for l in d):
                return False
            s = oracle_batch([(400, [FMT[fmt], w])])[0]
            if in_domain(fmt, s):
                return False
            return not check_one(fmt, its)[0]
        except Exception:
            return False
    changed = True
    while changed and budget[0] > 0:
        changed = False
        for i in range(len(items)):
            cand = items[:i] + items[i + 1:]
            if bad(cand):
                items, changed = cand, True
                break
            if items[i][0] == "t" and len(items[i][1]) > 1:
                cs = items[i][1]
                for part in (cs[:len(cs) // 2], cs[len(cs) // 2:]):
                    cand = items[:i] + [("t", part)] + items[i + 1:]
                    if bad(cand):
                        items, changed = cand, True
                        break
                if changed:
                    break
    ok, detail = check_one(fmt, items)
    if not ok:
        v = dict(v)
        v["input"] = items
        if isinstance(detail, dict):
            v.update(detail)
        v["what"] = f"{fmt}: cue {v.get('content')!r} is read as {v.get('observed')!r} (shrunk)"
        v["shape"] = shape_of(fmt, items, v.get("content", ""))
    return v


def replay(ctx, rec):
    if rec.get("replay") == "read":
        items = []
        for it in rec["input"]:
            it = list(it)
            if it[0] == "t":
                items.append(("t", [tuple(x) for x in it[1]]))
            elif it[0] == "v":
                items.append(("v", list(it[1]), [tuple(x) for x in it[2]]))
            else:
                items.append(tuple(it))
        ok, detail = check_one(rec["fmt"], items)
        return (not ok), detail
    if rec.get("replay") == "doc-lines":
        v = judge_line_end_doc(rec["fmt"], rec["document"], rec["expected"])
        return (v is not None), (v[1] if v else None)
    if rec.get("replay") == "dfxp-str":
        v, _ = judge_strings([rec["input"]])[0]
        return (v is not None), (v or {}).get("what")
    if rec.get("replay") == "vttdoc":
        got = read_doc("WebVTT", rec["document"])
        if not isinstance(got, Ok):
            return True, "reader raises"
        if len(got.v) != len(rec["input"]):
            return True, [G.py_lines(n) for n in got.v]
        oks = oracle_batch([(408, [c, G.py_lines(n)]) for c, n in zip(rec["input"], got.v)])
        return any(o != 1 for o in oks), [G.py_lines(n) for n in got.v]
    return False, "unknown replay kind"
