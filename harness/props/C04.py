"""C04 - read text equals authored text.

Abstract inline content of a cue (text with a spelling per character, source line wraps, breaks, inline tags,
WebVTT voice / timestamp / unknown tags) is generated here, serialised by the Coq SPEC serialisers
(coq/spec/SpecTextRead.v, request 400) into DFXP / SAMI / WebVTT / SRT / MicroDVD documents, and read by the real
readers through the public API.
  property oracle  : Coq ok_lines (display items) (lines of the caption the reader returned)      [request 408]
  correspondence   : the reader models (coq/model/TextRead.v composed with the library stand-ins, request 402)
                     give the same TEXT/BREAK lines (exact node equality is measured, alarm at line level)
  library layers   : html.parser's events for the SAMI serialisation == spec events_of (403);
                     BeautifulSoup's tree for the DFXP serialisation == spec tree_of (404)
Streams: A random structured content x 5 formats; B exhaustive short sequences over a token alphabet per format
(tags with every boundary variant, entity spellings, white-space shapes).
"""
import itertools
from html.parser import HTMLParser

import impl
import gens_text as G  # noqa: F401
from wire import Ok, Err, Some, oracle_batch  # noqa: F401
from pycaption import DFXPReader, SAMIReader, WebVTTReader, SRTReader, MicroDVDReader

TABLES = ("Generated.v", "GenText.v")     # the SAMI entity table is generated from the working tree

FMT = {"DFXP": 0, "SAMI": 1, "WebVTT": 2, "SRT": 3, "MicroDVD": 4}
READERS = {"DFXP": DFXPReader, "SAMI": SAMIReader, "WebVTT": WebVTTReader, "SRT": SRTReader,
           "MicroDVD": MicroDVDReader}

# ---- abstract content -------------------------------------------------------------------------------------
PLAIN = list("abcdefghijklmnopqrstuvwxyzABCDEFXYZ0123456789.,!?'\"-;#=/()[]{}%")
SPECIAL = ["&", "<", ">", "&", "<", ">", " ", "é", "©", "€", "‎", "中", "\U0001F600", "x", ";", "#"]
LOOKALIKE = ["&amp;", "&lt;", "&gt;", "&#60;", "&#x3c;", "&nbsp;", "&bogus;", "<b>", "</i>", "<br/>", "<v Bob>",
             "a<b", "R&D", "]]>", "<!--", "&lt", "&#38;lt;", "&amp;lt;", "<00:01.000>", "</p>", "<span>"]
HTML_NAMED = {38, 60, 62, 34, 39, 160, 233, 169, 8364}
XML_NAMED = {38, 60, 62, 34, 39}
VTT_NAMED = {38, 60, 62, 160, 8206, 8207}


def spellings(fmt, c):
    o = ord(c)
    if fmt in ("SRT", "MicroDVD"):
        return [0]
    if fmt == "WebVTT":
        r = [1] if o in VTT_NAMED else []
        if c not in "&<":
            r.append(0)
        return r
    named = XML_NAMED if fmt == "DFXP" else HTML_NAMED
    r = [2, 3, 4]
    if o in named:
        r.append(1)
    if c not in "&<":
        r += [0, 0, 0]
    return r


def rand_word(rng, fmt, adversarial):
    r = rng.random()
    if r < adversarial * 0.5:
        w = rng.choice(LOOKALIKE)
    elif r < adversarial:
        w = "".join(rng.choice(SPECIAL + PLAIN[:10]) for _ in range(rng.randint(1, 4)))
    else:
        w = "".join(rng.choice(PLAIN) for _ in range(rng.randint(1, 6)))
    if fmt == "MicroDVD":
        w = w.replace("|", "/")
    if not w.strip():
        return rand_word(rng, fmt, adversarial)      # a word has a visible character
    return w


def txt_item(rng, fmt, s):
    cs = []
    for ch in s:
        sp = rng.choice(spellings(fmt, ch))
        if fmt == "WebVTT" and ch == ">" and sp == 0 and cs and cs[-1][0] == ord("-"):
            sp = 1                       # never a raw "-->" in cue text
        cs.append((ord(ch), sp))
    return ("t", cs)


def _entity_names():
    from html.entities import name2codepoint
    names = sorted(set(name2codepoint) | {"apos"})
    # names that exist in two spellings differing only by case decode to different characters
    lower = {}
    for n in names:
        lower.setdefault(n.lower(), []).append(n)
    cased = sorted(n for group in lower.values() if len(group) > 1 for n in group)
    cp = dict(name2codepoint)
    cp["apos"] = 0x27                      # HTML5 / XML; the table of html.entities (HTML 4) lacks it
    return names, cased, cp


ENT_NAMES, ENT_CASED, ENT_CP = _entity_names()


ENT_SPECIAL = ["apos", "quot", "amp", "lt", "gt", "nbsp"]      # apos is the entry pycaption adds to the table itself


def rand_entity(rng):
    r = rng.random()
    return ("e", rng.choice(ENT_CASED) if r < 0.5 else rng.choice(ENT_SPECIAL) if r < 0.7 else rng.choice(ENT_NAMES))


def rand_wrap(rng):
    return ("w", rng.choice([0, 0, 0, 100, 100, 200]) + rng.randint(0, 6))


VTT_UNKNOWN = ["bar", "verbatim", "i2", "cite", "vv", "rtl", "language", "blink", "x", "under", "br"]
STAMPS = ["00:01.000", "12:34.567", "1:00:01.000", "100:59:59.999"]


def rand_line(rng, fmt, adversarial, depth=0, wraps=True):
    """one display line: words separated by single spaces (or a source wrap), some wrapped in inline tags"""
    items = []
    nwords = rng.randint(1, 5)
    k = 0
    if fmt == "WebVTT" and depth == 0 and rng.random() < 0.2:
        cls = [rng.choice(["loud", "x1", "a_b"]) for _ in range(rng.randint(0, 2))]
        items.append(("v", cls, txt_item(rng, fmt, rng.choice(["Bob", "Ann B", "Tom & Jerry", "Q<A"]))[1]))
    while k < nwords:
        r = rng.random()
        can_tag = fmt in ("DFXP", "SAMI", "WebVTT") and depth < 2
        if can_tag and r < 0.25:
            kmax = {"DFXP": 3, "SAMI": 4, "WebVTT": 6}[fmt]
            kind = rng.randint(0, kmax)
            inner = rand_line(rng, fmt, adversarial, depth + 1, wraps=False)
            items += [("o", kind)] + inner + [("c", kind)]
        elif fmt == "WebVTT" and depth < 2 and r < 0.33:
            name = rng.choice(VTT_UNKNOWN)
            inner = rand_line(rng, fmt, adversarial, depth + 1, wraps=False)
            items += [("unk", False, name)] + inner + [("unk", True, name)]
        elif fmt == "WebVTT" and r < 0.38:
            items.append(("ts", rng.choice(STAMPS)))
        elif fmt == "SAMI" and r > 0.8:
            if rng.random() < 0.5:
                items.append(txt_item(rng, fmt, rand_word(rng, fmt, 0.0)))
            items.append(rand_entity(rng))
            if rng.random() < 0.3:
                items.append(txt_item(rng, fmt, rand_word(rng, fmt, 0.0)))
        else:
            items.append(txt_item(rng, fmt, rand_word(rng, fmt, adversarial)))
        k += 1
        if k < nwords:
            prev_is_text = items[-1][0] in ("t", "e")
            if wraps and fmt in ("DFXP", "SAMI") and prev_is_text and rng.random() < 0.3:
                items.append(rand_wrap(rng))
                items.append(txt_item(rng, fmt, rand_word(rng, fmt, adversarial)))   # a wrap is always inside text
                k += 1
                if k < nwords:
                    items.append(txt_item(rng, fmt, " "))
            else:
                items.append(txt_item(rng, fmt, rng.choice([" ", " ", "  "])))
    return items


def rand_cue(rng, fmt, adversarial):
    nlines = rng.randint(1, 3)
    items = []
    for i in range(nlines):
        if i:
            items.append(("br",))
        if fmt in ("DFXP", "SAMI") and rng.random() < 0.3:
            items.append(rand_wrap(rng))                    # a source line end + indentation before the text
        items += rand_line(rng, fmt, adversarial)
        if fmt in ("DFXP", "SAMI") and rng.random() < 0.2:
            items.append(rand_wrap(rng))                    # ... and before the end
    return items


def wire_items(items):
    out = []
    for it in items:
        k = it[0]
        if k == "t":
            out.append([0, [[c, sp] for c, sp in it[1]]])
        elif k == "w":
            out.append([1, it[1]])
        elif k == "br":
            out.append([2])
        elif k == "o":
            out.append([3, it[1]])
        elif k == "c":
            out.append([4, it[1]])
        elif k == "v":
            out.append([5, list(it[1]), [[c, sp] for c, sp in it[2]]])
        elif k == "ts":
            out.append([6, it[1]])
        elif k == "e":
            out.append([8, it[1], ENT_CP[it[1]]])
        else:
            out.append([7, bool(it[1]), it[2]])
    return out


# ---- documents ------------------------------------------------------------------------------------------------
def doc_of(fmt, contents):
    if fmt == "DFXP":
        ps = "\n".join('   <p begin="%s" end="%s">%s</p>' % (G.srt_timing(*G.times(i))[:12].replace(",", "."),
                                                            G.srt_timing(*G.times(i))[17:].replace(",", "."), c)
                       for i, c in enumerate(contents))
        return ('<?xml version="1.0" encoding="utf-8"?>\n<tt xml:lang="en" xmlns="http://www.w3.org/ns/ttml" '
                'xmlns:tts="http://www.w3.org/ns/ttml#styling">\n <body>\n  <div xml:lang="en">\n%s\n  </div>\n </body>\n</tt>\n' % ps)
    if fmt == "SAMI":
        body = ""
        for i, c in enumerate(contents):
            s, e = G.times(i)
            body += '<SYNC Start=%d><P Class=ENCC>%s</P></SYNC>\n<SYNC Start=%d><P Class=ENCC>&nbsp;</P></SYNC>\n' % (
                s // 1000, c, e // 1000)
        return ('<SAMI>\n<HEAD>\n<STYLE TYPE="text/css">\n<!--\nP { font-family: Arial; }\n.ENCC { Name: English; lang: en-US; }\n'
                '.hl { color: yellow; }\n-->\n</STYLE>\n</HEAD>\n<BODY>\n' + body + '</BODY>\n</SAMI>\n')
    if fmt == "WebVTT":
        return "WEBVTT\n\n" + "\n".join("%s\n%s\n" % (G.vtt_timing(*G.times(i)), c) for i, c in enumerate(contents))
    if fmt == "SRT":
        return "\n".join("%d\n%s\n%s\n" % (i + 1, G.srt_timing(*G.times(i)), c) for i, c in enumerate(contents))
    return "".join("%s%s\n" % (G.mdvd_prefix(*G.times(i)), c) for i, c in enumerate(contents))


def read_doc(fmt, doc):
    r = impl.call(lambda: READERS[fmt]().read(doc))
    if not isinstance(r, Ok):
        return r
    cs = r.v
    caps = []
    for lang in cs.get_languages():
        for c in cs.get_captions(lang):
            nodes = []
            for n in (getattr(c, "nodes", None) or []):     # a reader may leave None / node-less captions behind
                if n.type_ == 1:
                    nodes.append(("t", n.content))
                elif n.type_ == 3:
                    nodes.append(("b",))
                else:
                    d = n.content if isinstance(n.content, dict) else {}
                    nodes.append(("s", bool(n.start), bool(d.get("italics")), bool(d.get("bold")),
                                  bool(d.get("underline")), d.get("color")))
            caps.append(nodes)
    return Ok(caps)


def model_nodes(resp):
    """wire option (list node) -> python canonical nodes"""
    if resp == []:
        return None
    out = []
    for n in resp[0]:
        if n[0] == 1:
            out.append(("t", n[1]))
        elif n[0] == 3:
            out.append(("b",))
        else:
            out.append(("s", bool(n[1]), bool(n[2]), bool(n[3]), bool(n[4]), None if n[5] == [] else n[5][0]))
    return out


def text_break(nodes):
    return [n for n in nodes if n[0] != "s"]


def in_domain(fmt, content):
    """excluded shapes, counted"""
    if fmt == "WebVTT":
        for line in content.split("\n"):
            if "-->" in line:
                return "vtt_arrow_in_payload"
            if line == "":
                return "vtt_empty_payload_line"
    if fmt == "SRT":
        for line in content.split("\n"):
            if not line.strip():
                return "srt_blank_payload_line"
    return None


# ---- library layers ---------------------------------------------------------------------------------------------
class _Events(HTMLParser):
    def __init__(self):
        super().__init__(convert_charrefs=False)
        self.ev = []

    def handle_starttag(self, tag, attrs):
        self.ev.append([0, tag, [[k, v if v is not None else ""] for k, v in attrs]])

    def handle_endtag(self, tag):
        self.ev.append([1, tag])

    def handle_entityref(self, name):
        self.ev.append([2, name])

    def handle_charref(self, name):
        self.ev.append([3, name])

    def handle_data(self, data):
        if self.ev and self.ev[-1][0] == 4:
            self.ev[-1][1] += data
        else:
            self.ev.append([4, data])


def html_events(content):
    p = _Events()
    p.feed(content)
    p.close()
    return p.ev


def bs4_tree(content):
    from bs4 import BeautifulSoup, NavigableString
    soup = BeautifulSoup("<p>" + content.replace("&apos;", "'") + "</p>", "html.parser")

    def kids(e):
        out = []
        for ch in e.contents:
            if isinstance(ch, NavigableString):
                out.append([0, str(ch)])
            else:
                out.append([1, ch.name, [[k, v if isinstance(v, str) else " ".join(v)] for k, v in ch.attrs.items()],
                            kids(ch)])
        return out
    return kids(soup.find("p"))


# ---- one batch of cues for one format -------------------------------------------------------------------------------
def run_batch(ctx, res, fmt, cues, stream):
    """cues: list of item lists"""
    code = FMT[fmt]
    wires = [wire_items(c) for c in cues]
    contents = oracle_batch([(400, [code, w]) for w in wires])
    shown = oracle_batch([(401, w) for w in wires])
    keep = []
    for c, w, s, d in zip(cues, wires, contents, shown):
        why = in_domain(fmt, s)
        if not why and not any(l.strip() for l in d):
            why = "no_visible_character"
        if why:
            res["distribution"][why] = res["distribution"].get(why, 0) + 1
        else:
            keep.append((c, w, s))
    if not keep:
        return
    doc = doc_of(fmt, [s for _, _, s in keep])
    got = read_doc(fmt, doc)
    models = oracle_batch([(402, [code, True, w]) for _, w, _ in keep])
    n = len(keep)
    res["distribution"]["cues_" + fmt] = res["distribution"].get("cues_" + fmt, 0) + n
    if not isinstance(got, Ok) or len(got.v) != n:
        # attribute the failure to single cues
        if n == 1:
            c, w, s = keep[0]
            what = (f"{fmt} reader raised {impl.ERR_NAMES.get(got.code, got.code)}" if not isinstance(got, Ok)
                    else f"{fmt} reader returned {len(got.v)} captions for 1 cue")
            res["evaluations"] += 1
            res["violations"].append({"kind": "reader-raises" if not isinstance(got, Ok) else "cue-count", "fmt": fmt,
                                      "what": what, "input": c, "content": s, "document": doc, "replay": "read",
                                      "shape": shape_of(fmt, c, s)})
            return
        half = n // 2
        run_batch(ctx, res, fmt, [c for c, _, _ in keep[:half]], stream)
        run_batch(ctx, res, fmt, [c for c, _, _ in keep[half:]], stream)
        return
    lines_obs = [G.py_lines(nd) for nd in got.v]
    oks = oracle_batch([(408, [w, lo]) for (_, w, _), lo in zip(keep, lines_obs)])
    mlines_req, mslots = [], []
    for (c, w, s), nd, m, ok, lo in zip(keep, got.v, models, oks, lines_obs):
        res["evaluations"] += 1
        res["nontrivial"].add((fmt, s))
        if ok != 1:
            res["violations"].append({"kind": "text-differs", "fmt": fmt,
                                      "what": f"{fmt}: caption text {lo!r} is not what the cue {s!r} displays",
                                      "input": c, "content": s, "observed": lo, "replay": "read",
                                      "shape": shape_of(fmt, c, s)})
            continue
        mn = model_nodes(m)
        if mn is not None and mn == nd:
            res["distribution"]["model_exact_equal"] = res["distribution"].get("model_exact_equal", 0) + 1
            continue
        res["distribution"]["model_exact_differs"] = res["distribution"].get("model_exact_differs", 0) + 1
        if mn is None:
            res["disagreements"].append({"fmt": fmt, "what": "the model pipeline rejects the cue", "content": s, "input": c})
            continue
        mslots.append((c, s, mn, nd))
        mlines_req.append((408, [w, G.py_lines(mn)]))
    for (c, s, mn, nd), ok in zip(mslots, oracle_batch(mlines_req) if mlines_req else []):
        if ok != 1:
            res["disagreements"].append({"fmt": fmt, "what": "model and reader give different lines", "content": s,
                                         "model": mn, "impl": nd})
        elif len(res["notes"]) < 5:
            res["notes"].append(f"exact difference (same lines) {fmt} {s!r}: model {mn!r} impl {nd!r}")
    # library layers
    if fmt == "SAMI":
        exp = oracle_batch([(403, w) for _, w, _ in keep])
        for (c, w, s), e in zip(keep, exp):
            if html_events(s) != e:
                res["disagreements"].append({"fmt": fmt, "what": "library layer: html.parser events differ from spec events_of",
                                             "content": s, "html.parser": html_events(s), "spec": e})
    if fmt == "DFXP":
        exp = oracle_batch([(404, [0, w]) for _, w, _ in keep])
        for (c, w, s), e in zip(keep, exp):
            t = bs4_tree(s)
            if e == [] or norm_tree(e[0]) != norm_tree(t):
                res["disagreements"].append({"fmt": fmt, "what": "library layer: BeautifulSoup tree differs from spec tree_of",
                                             "content": s, "bs4": t, "spec": e})


IDENTS = [None, None, "1", "3", "cue-2", "intro", "a b c", "Chapter 1 - start", "NOTEBOOK"]
OTHER_BLOCKS = [["NOTE"], ["NOTE this is a comment"], ["NOTE", "a multi-line", "comment block"],
                ["NOTE check <i>this</i> &amp; that", "second line"],
                ["STYLE", "::cue {", "  color: papayawhip;", "}"], ["STYLE", "::cue(b) { color: peachpuff; }"],
                ["REGION", "id:fred width:40% lines:3"], ["NOTE TODO", "1", "2"], ["just some stray text"]]
HEADERS = [["WEBVTT"], ["WEBVTT - a title"], ["WEBVTT", "Kind: captions", "Language: en"]]


def run_vtt_documents(ctx, res, ndocs):
    rng = ctx.rng
    specs = []
    for _ in range(ndocs):
        blocks = []
        cues = []
        for _ in range(rng.randint(1, 6)):
            if rng.random() < 0.45:
                blocks.append([1, list(rng.choice(OTHER_BLOCKS)), rng.randint(1, 2)])
            else:
                items = rand_cue(rng, "WebVTT", rng.choice([0.2, 0.5]))
                s, e = G.times(len(cues))
                ident = rng.choice(IDENTS)
                blocks.append([0, None if ident is None else Some(ident), G.vtt_timing(s, e) + rng.choice(["", " align:left", " position:10%"]),
                               wire_items(items), rng.randint(1, 3)])
                cues.append(items)
        if not cues:
            continue
        if rng.random() < 0.4:
            blocks[-1][-1] = 0                     # the document ends right after the last block
        specs.append((list(rng.choice(HEADERS)), blocks, cues))
    lines_all = oracle_batch([(410, [h, b]) for h, b, _ in specs])
    payloads = oracle_batch([(400, [2, wire_items(c)]) for _, _, cs in specs for c in cs])
    pos = 0
    jobs = []
    for (h, b, cues), lines in zip(specs, lines_all):
        pl = payloads[pos:pos + len(cues)]
        pos += len(cues)
        why = next((w for w in (in_domain("WebVTT", s) for s in pl) if w), None)
        if why:
            res["distribution"][why] = res["distribution"].get(why, 0) + 1
            continue
        doc = "\n".join(lines) + rng.choice(["", "\n"])
        jobs.append((doc, cues, b))
    models = oracle_batch([(409, [True, doc.splitlines()]) for doc, _, _ in jobs])
    for (doc, cues, blocks), m in zip(jobs, models):
        res["evaluations"] += len(cues)
        res["distribution"]["vtt_documents"] = res["distribution"].get("vtt_documents", 0) + 1
        res["nontrivial"].add(("WebVTT-doc", doc))
        got = read_doc("WebVTT", doc)
        base = {"fmt": "WebVTT", "replay": "vttdoc", "document": doc, "input": [wire_items(c) for c in cues],
                "shape": "vtt-document-blocks"}
        if not isinstance(got, Ok):
            res["violations"].append(dict(base, kind="reader-raises", what="WebVTT reader raised on a document with identifiers / NOTE blocks"))
            continue
        if len(got.v) != len(cues):
            res["violations"].append(dict(base, kind="cue-count", observed=[G.py_lines(n) for n in got.v],
                                          what=f"WebVTT: {len(cues)} cues in the document, {len(got.v)} captions read "
                                               "(identifier / NOTE / STYLE lines must never become captions)"))
            continue
        oks = oracle_batch([(408, [wire_items(c), G.py_lines(n)]) for c, n in zip(cues, got.v)])
        if any(o != 1 for o in oks):
            k = next(i for i, o in enumerate(oks) if o != 1)
            res["violations"].append(dict(base, kind="text-differs", observed=G.py_lines(got.v[k]),
                                          what=f"WebVTT: cue {k} reads {G.py_lines(got.v[k])!r}: not the displayed cue text"))
            continue
        mn = [[n for n in (model_nodes([x]) or [])] for x in m]
        if mn != got.v:
            ml = oracle_batch([(408, [wire_items(c), G.py_lines(n)]) for c, n in zip(cues, mn)]) if len(mn) == len(cues) else [0]
            if any(o != 1 for o in ml):
                res["disagreements"].append({"fmt": "WebVTT", "what": "line-loop model and reader differ on a document",
                                             "document": doc, "model": mn, "impl": got.v})
            else:
                res["distribution"]["model_exact_differs"] = res["distribution"].get("model_exact_differs", 0) + 1
        else:
            res["distribution"]["model_exact_equal"] = res["distribution"].get("model_exact_equal", 0) + 1


def norm_tree(t):
    out = []
    for x in t:
        if x[0] == 0:
            out.append([0, x[1]])
        else:
            out.append([1, x[1], sorted([a, v] for a, v in x[2]), norm_tree(x[3])])
    return out


def shape_of(fmt, items, content):
    kinds = [it[0] for it in items]
    if fmt in ("DFXP", "SAMI") and "w" in kinds:
        return "wrapped-text"
    for a, b, c in zip(items, items[1:], items[2:]):
        if a[0] == "c" and c[0] == "o" and b[0] == "t" and all(chr(x[0]).isspace() for x in b[1]):
            return "space-between-inline-elements"
    if fmt == "SAMI" and "e" in kinds:
        return "sami-named-entity"
    if fmt == "SAMI" and any(it[0] == "t" and any(sp != 0 or c in (38, 60, 62) for c, sp in it[1]) for it in items):
        return "sami-entity"
    if fmt == "WebVTT" and "unk" in kinds:
        return "vtt-unknown-tag"
    return "other"


# ---- stream B: exhaustive short token sequences --------------------------------------------------------------------
def tokens_for(fmt):
    T = lambda s, sp=None: ("t", [(ord(ch), sp if sp is not None else 0) for ch in s])   # noqa: E731
    named = lambda s: ("t", [(ord(ch), 1) for ch in s])    # noqa: E731
    if fmt == "WebVTT":
        toks = [[T("a")], [T(" ")], [T("x>y")], [named("&")], [named("<")], [named(">")], [named(" ")],
                [("t", [(38, 1), (ord("l"), 0), (ord("t"), 0), (ord(";"), 0)])],        # &amp;lt;
                [("o", 0)], [("c", 0)], [("o", 3)], [("c", 3)], [("o", 4)], [("o", 5)], [("c", 5)], [("c", 4)],
                [("o", 6)], [("c", 6)], [("v", [], [(66, 0), (111, 0), (98, 0)])], [("v", ["loud"], [(65, 0), (32, 0), (66, 0)])],
                [("c", 7)], [("ts", "00:01.000")], [("ts", "1:00:01.000")]]
        for n in ["bar", "verbatim", "i2", "cite", "vv", "rtl", "language", "u1", "b-x", "c_"]:
            toks.append([("unk", False, n)])
            toks.append([("unk", True, n)])
        return toks
    if fmt in ("DFXP", "SAMI"):
        toks = [[T("a")], [T("b c")], [T(" ")], [T("  ")], [T("\t")], [("w", 0)], [("w", 3)], [("br",)],
                [("o", 0)], [("c", 0)], [("o", 1)], [("c", 1)],
                [("t", [(38, 1), (ord("l"), 0), (ord("t"), 0), (ord(";"), 0)])],        # &amp;lt;
                [("t", [(38, 2), (ord("l"), 0), (ord("t"), 0), (ord(";"), 0)])],        # &#38;lt;
                [("t", [(60, 2), (ord("b"), 0), (62, 2)])],                             # &#60;b&#62;
                [("t", [(65, 4)])], [("t", [(60, 1)])], [("t", [(62, 0)])], [("t", [(160, 1)])], [("t", [(39, 1)])],
                [("w", 100)], [("w", 203)]]
        if fmt == "SAMI":
            toks += [[("e", n)] for n in ("Eacute", "eacute", "Prime", "apos", "amp")]
        # whole inline elements as single tokens: adjacent elements separated only by a white-space text node
        toks += [[("o", 0), T("Hello"), ("c", 0)], [("o", 1), T("world"), ("c", 1)]]
        return toks
    if fmt == "SRT":
        return [[T("a")], [T(" ")], [T("<i>")], [T("&amp;")], [T("1")], [T("-->")], [("br",)], [T("|")], [T("{y:i}")]]
    return [[T("a")], [T(" ")], [T("<i>")], [T("&amp;")], [T("{1}{2}")], [("br",)], [T("/")], [T("{y:i}")]]


def inline_space_grid(fmt):
    """two inline elements (or an element and text) separated only by a white-space text node on the same source
    line, flat and nested: the separator is a word separator"""
    T = lambda s: ("t", [(ord(ch), 0) for ch in s])    # noqa: E731
    A = [("o", 0), T("Hello"), ("c", 0)]
    B = [("o", 1), T("world"), ("c", 1)]
    out = []
    for sp in (" ", "  ", "\t", " \t "):
        out.append(A + [T(sp)] + B)
        out.append([T("Hello")] + [T(sp)] + B)
        out.append(A + [T(sp)] + [T("world")])
        out.append([("o", 2)] + A + [T(sp)] + B + [("c", 2)])
        out.append([("o", 2)] + A + [("c", 2)] + [T(sp)] + [("o", 2)] + B + [("c", 2)])
        out.append(A + [T(sp)] + B + [T(sp)] + A)
    return out


def valid_sequence(fmt, items):
    """well-formed and inside the domain: tags properly nested, at least one visible character, wraps not next to
    an inline tag"""
    stack = []
    for it in items:
        if it[0] == "o":
            stack.append(("k", it[1]))
        elif it[0] == "c":
            if it[1] == 7 and fmt == "WebVTT":
                if not stack or stack[-1] != ("v",):
                    return False
                stack.pop()
                continue
            if not stack or stack[-1] != ("k", it[1]):
                return False
            stack.pop()
        elif it[0] == "unk":
            if not it[1]:
                stack.append(("u", it[2]))
            else:
                if not stack or stack[-1] != ("u", it[2]):
                    return False
                stack.pop()
        elif it[0] == "v":
            stack.append(("v",))
        elif it[0] == "br":
            if stack:
                if fmt == "WebVTT":
                    return False
    if any(s[0] != "v" for s in stack):
        return False
    # a source line wrap next to an inline tag (only white space between them) is outside the domain (design/C04.md)
    solid = [it for it in items if not (it[0] == "t" and all(chr(c).isspace() for c, _ in it[1]))]
    for a, b in zip(solid, solid[1:]):
        if a[0] == "w" and b[0] in ("o", "c"):
            return False
        if b[0] == "w" and a[0] in ("o", "c"):
            return False
    return True


def run(ctx):
    res = {"evaluations": 0, "nontrivial": set(), "violations": [], "disagreements": [], "distribution": {},
           "streams": 5, "notes": []}
    rng = ctx.rng
    # B: exhaustive short token sequences
    maxlen = ctx.n(3, 4)
    for fmt in FMT:
        toks = tokens_for(fmt)
        seqs = []
        for L in range(1, maxlen + 1):
            if len(toks) ** L > ctx.n(12000, 200000):
                # alphabet too large for this length: sampled (WebVTT at length >= 3/4, DFXP/SAMI at 4 in thorough)
                for _ in range(ctx.n(6000, 120000)):
                    seqs.append(sum((rng.choice(toks) for _ in range(L)), []))
                continue
            for combo in itertools.product(toks, repeat=L):
                seqs.append(sum(combo, []))
        seqs = [s for s in seqs if valid_sequence(fmt, s)]
        if fmt in ("DFXP", "SAMI"):
            seqs = inline_space_grid(fmt) + seqs
        res["distribution"]["B_sequences_" + fmt] = len(seqs)
        # visible?
        disp = oracle_batch([(401, wire_items(s)) for s in seqs])
        seqs = [s for s, d in zip(seqs, disp) if any(l.strip() for l in d)]
        for k in range(0, len(seqs), 40):
            run_batch(ctx, res, fmt, seqs[k:k + 40], "B")
    # A: random structured content
    nbatch = ctx.n(30, 900)
    for fmt in FMT:
        for _ in range(nbatch):
            adv = rng.choice([0.2, 0.5, 0.8])
            cues = [rand_cue(rng, fmt, adv) for _ in range(12)]
            run_batch(ctx, res, fmt, cues, "A")
    run_vtt_documents(ctx, res, ctx.n(250, 8000))
    # shrink the first violation of every kind
    seen = set()
    for i, v in enumerate(res["violations"]):
        key = (v["kind"], v["fmt"], v["shape"])
        if key in seen or len(seen) >= 6:
            continue
        seen.add(key)
        res["violations"][i] = shrink(v)
    res["rule"] = ("A: 12-cue documents of random structured inline content per format (1-3 lines, nested inline tags, "
                   "per-character spellings raw/named/decimal/hex, source line wraps, WebVTT voice/timestamp/unknown tags); "
                   "B: every well-formed sequence of <= %d tokens over a per-format token alphabet (tags with every boundary "
                   "variant, entity spellings, white-space shapes). Non-trivial = distinct (format, serialised cue content)."
                   % maxlen)
    nt = sorted(res["nontrivial"], key=lambda x: -len(x[1]))
    res["samples"] = [{"format": f, "content": s} for f, s in nt[:2]] + [{"format": f, "content": s} for f, s in nt[len(nt) // 2:len(nt) // 2 + 3]]
    res["clauses"] = {
        "theorem": ["WebVTT: the replace chain decodes every reference exactly once (all token lists); voice tag -> 'Name: ', "
                    "known tags vanish, unknown tags stay literal (all segment lists)",
                    "SAMI stage 1 keeps & < > escaped whatever their spelling: the second parse gives the text exactly once",
                    "text-node matcher keeps all words of text wrapped over several source lines",
                    "DFXP/SAMI tree walk: br -> break, style tags contribute no characters"],
        "correspondence_only": ["html.parser tokenisation (checked against the spec events_of on every SAMI cue)",
                                "BeautifulSoup / lxml tree building (checked against the spec tree_of on every DFXP cue)",
                                "document skeletons (head, timing attributes) around the inline content",
                                "SRT / MicroDVD line splitting is executed (model vs reader), no theorem beyond the model"]}
    res["trusted_extra"] = ["html.parser and BeautifulSoup(html.parser / lxml) as library layers, bracketed by spec "
                            "events_of / tree_of on every generated cue"]
    return res


def check_one(fmt, items):
    w = wire_items(items)
    s = oracle_batch([(400, [FMT[fmt], w])])[0]
    got = read_doc(fmt, doc_of(fmt, [s]))
    if not isinstance(got, Ok):
        return False, ("raise", got.code)
    if len(got.v) != 1:
        return False, ("cue-count", len(got.v))
    lo = G.py_lines(got.v[0])
    ok = oracle_batch([(408, [w, lo])])[0]
    return ok == 1, {"content": s, "observed": lo}


def shrink(v):
    if v.get("replay") != "read":
        return v
    fmt, items = v["fmt"], [tuple(x) if not isinstance(x, tuple) else x for x in v["input"]]
    budget = [120]

    def bad(its):
        if budget[0] <= 0 or not its:
            return False
        budget[0] -= 1
        if not valid_sequence(fmt, its):
            return False
        try:
            w = wire_items(its)
            d = oracle_batch([(401, w)])[0]
            if not any(l.strip() for l in d):
                return False
            s = oracle_batch([(400, [FMT[fmt], w])])[0]
            if in_domain(fmt, s):
                return False
            return not check_one(fmt, its)[0]
        except Exception:
            return False
    changed = True
    while changed and budget[0] > 0:
        changed = False
        for i in range(len(items)):
            cand = items[:i] + items[i + 1:]
            if bad(cand):
                items, changed = cand, True
                break
            if items[i][0] == "t" and len(items[i][1]) > 1:
                cs = items[i][1]
                for part in (cs[:len(cs) // 2], cs[len(cs) // 2:]):
                    cand = items[:i] + [("t", part)] + items[i + 1:]
                    if bad(cand):
                        items, changed = cand, True
                        break
                if changed:
                    break
    ok, detail = check_one(fmt, items)
    if not ok:
        v = dict(v)
        v["input"] = items
        if isinstance(detail, dict):
            v.update(detail)
        v["what"] = f"{fmt}: cue {v.get('content')!r} is read as {v.get('observed')!r} (shrunk)"
        v["shape"] = shape_of(fmt, items, v.get("content", ""))
    return v


def replay(ctx, rec):
    if rec.get("replay") == "read":
        items = []
        for it in rec["input"]:
            it = list(it)
            if it[0] == "t":
                items.append(("t", [tuple(x) for x in it[1]]))
            elif it[0] == "v":
                items.append(("v", list(it[1]), [tuple(x) for x in it[2]]))
            else:
                items.append(tuple(it))
        ok, detail = check_one(rec["fmt"], items)
        return (not ok), detail
    if rec.get("replay") == "vttdoc":
        got = read_doc("WebVTT", rec["document"])
        if not isinstance(got, Ok):
            return True, "reader raises"
        if len(got.v) != len(rec["input"]):
            return True, [G.py_lines(n) for n in got.v]
        oks = oracle_batch([(408, [c, G.py_lines(n)]) for c, n in zip(rec["input"], got.v)])
        return any(o != 1 for o in oks), [G.py_lines(n) for n in got.v]
    return False, "unknown replay kind"
