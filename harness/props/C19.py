"""C19 - adjust_caption_timing and merge_concurrent_captions.

Input   = a heap of Caption objects + per language a list of references into it (so one object can be listed
          under several languages or several times in one list), built through the public API.
Observed = per input language the list of (start, end, node values) of the RESULT set: for adjust the set itself
          (the method returns nothing), for merge the returned set (both in-tree callers use only the return value;
          the argument is the result only when nothing usable is returned).
Node values: every BREAK node is -1 (a line break is a line break), every other node is the class of its field
          values (type, content, start flag, layout) among the input nodes, -2 if it matches no input node.  Whether
          the very same node OBJECTS are carried is counted as information, not demanded (design/C19.md, decision 3).
Property oracle: Coq ok_adjust / ok_merge (coq/spec/SpecBase.v) on what the implementation produced, plus
          "input nodes untouched" (field snapshot) and "same languages afterwards".
Correspondence: extracted object-level model BaseObj.adjust_objs / value model Base.merge_concurrent vs implementation.
"""
import math
from fractions import Fraction

import impl
from wire import Ok, Err, oracle_batch, oracle1, r_result, r_q
from pycaption import CaptionSet, CaptionList, Caption, CaptionNode
from pycaption.base import merge_concurrent_captions
from pycaption.geometry import Layout

TOL = Fraction(1, 1024)
LANGS = ["en-US", "fr", "de", "es", "it"]
STYLES = [{"italics": True}, {"bold": True}, {"underline": True, "color": "red"}]
LAYOUT = Layout()
BIG = 2 ** 37          # |t| <= 2^38 keeps the binary64 error of t*skew+offset (skew <= 4) below 2^-10 us


def exact(x):
    if isinstance(x, bool) or not isinstance(x, (int, float)):
        raise TypeError("not a number: %r" % (x,))
    if isinstance(x, int):
        return Fraction(x)
    return Fraction(*x.as_integer_ratio())


# ------------------------------------------------------------------------------------------------ generator
def twin(rng, x):
    """the same number in the other Python type when that is exact (1000 <-> 1000.0)"""
    if isinstance(x, int) and abs(x) < 2 ** 53:
        return float(x)
    if isinstance(x, float) and x == int(x):
        return int(x)
    return x


def variant(rng, span):
    s, e = span
    r = rng.random()
    if r < 0.12:
        return (twin(rng, s), e)
    if r < 0.24:
        return (s, twin(rng, e))
    if r < 0.36:
        return (twin(rng, s), twin(rng, e))
    return (s, e)


def gen_spans(rng, n, for_merge):
    """n spans; equal spans occur consecutively (runs of every length), NON-consecutively (A B A, A A B A),
    as int/float twins, next to near misses (only start or only end shared); times of both signs, unsorted now and
    then, end < start now and then"""
    seq, pool = [], []
    t = rng.choice([0, 0, 1, 1000, 123456, 10 ** 6, 3600 * 10 ** 6, -5 * 10 ** 6, BIG])
    p_same = rng.choice([0.2, 0.45, 0.7]) if for_merge else 0.15
    long_run = rng.randint(5, 12) if for_merge and rng.random() < 0.12 else 0
    while len(seq) < n:
        r = rng.random()
        if seq and (long_run or r < p_same):
            span = variant(rng, seq[-1])
            long_run = max(0, long_run - 1)
        elif pool and r < p_same + 0.15:
            span = variant(rng, rng.choice(pool))                      # revisit an earlier span
        elif seq and r < p_same + 0.27:
            s, e = seq[-1]
            k = rng.randrange(4)
            span = [(s, e + 1), (s + 1, e), (s, e + 0.5), (s - 1, e - 1)][k]
        else:
            d = rng.choice([1, 999, 1000, 40000, 10 ** 6, 2500000, rng.randrange(1, 10 ** 7)])
            k = rng.random()
            if k < 0.3:
                s, e = t * 1001 / 1000.0 + 1 / 3.0, (t + d) * 1001 / 1000.0 + 1 / 3.0     # SCC-like floats
            elif k < 0.35:
                s, e = t + d, t                                                           # end before start
            else:
                s, e = t, t + d
            span = (s, e)
            t = t + d + rng.choice([0, 0, 1, 1000, 5 * 10 ** 6, -2 * d if rng.random() < 0.2 else 7])
        seq.append(span)
        pool.append(span)
    return seq


def gen_nodes(rng, counter):
    nn = rng.choice([1, 1, 1, 2, 2, 3, 3, 4, 5, 8])
    shape = rng.random()
    nodes = []
    for j in range(nn):
        if shape < 0.35:                      # the classic T B T B pattern
            kind = "B" if j % 2 else "T"
        elif shape < 0.45:                    # starts with a break
            kind = "B" if j == 0 else rng.choice("TTBS")
        elif shape < 0.52:                    # only breaks
            kind = "B"
        else:
            kind = rng.choice("TTTTBBS")
        if kind == "T":
            r = rng.random()
            if r < 0.08:
                nodes.append(["T", "dup", 0])         # equal-valued text nodes exist
            elif r < 0.11:
                nodes.append(["T", "", 0])
            else:
                counter[0] += 1
                nodes.append(["T", "t%d" % counter[0], 1 if rng.random() < 0.1 else 0])
        elif kind == "B":
            nodes.append(["B", 1 if rng.random() < 0.15 else 0])       # 1: break carrying a layout
        else:
            nodes.append(["S", rng.random() < 0.5, rng.randrange(len(STYLES))])
    return nodes


def gen_case(rng, for_merge):
    objs, langs = [], []
    counter = [0]
    for _ in range(rng.choice([1, 1, 2, 2, 3])):
        n = rng.choice([0, 1, 2, 3, 4, 5, 6, 8, 12, 20])
        refs = []
        for (s, e) in gen_spans(rng, n, for_merge):
            refs.append(len(objs))
            objs.append([s, e, gen_nodes(rng, counter), False])
        langs.append(refs)
    r = rng.random()
    if r < 0.15 and len(langs) < 4:
        langs.append(list(langs[rng.randrange(len(langs))]))           # a language listing the same objects
    elif r < 0.30 and objs:
        k = rng.randrange(len(objs))                                   # one object listed once more somewhere
        li = rng.randrange(len(langs))
        langs[li].insert(rng.randint(0, len(langs[li])), k)
    elif r < 0.36 and objs:
        li = rng.randrange(len(langs))                                 # the same object twice in a row
        if langs[li]:
            p = rng.randrange(len(langs[li]))
            langs[li].insert(p, langs[li][p])
    if for_merge and objs and rng.random() < 0.04:
        # node list emptied after construction: outside the domain (Caption() forbids it), compared for information
        objs[rng.randrange(len(objs))][3] = True
    return {"objs": objs, "langs": langs}


SKEWS = [1.0, 0.5, 2.0, 4.0, 0.25, 1.5, 1.1, 0.999, 1.001, 3.75, 0.001]
OFFSETS = [0, 1, -1, 1000, -1000, 10 ** 6, -10 ** 6, -3600 * 10 ** 6, 5 * 10 ** 6, -123456, 0.5, -2500000.25]


def gen_skew(rng):
    r = rng.random()
    if r < 0.35:
        return rng.choice(SKEWS)
    if r < 0.6:
        j = rng.randint(0, 6)
        return rng.randint(1, 4 * 2 ** j) / float(2 ** j)             # dyadic in (0, 4]
    if r < 0.9:
        return rng.uniform(1e-3, 4.0)                                  # arbitrary binary64 in (0, 4]
    return rng.choice([1, 2, 3, 4])                                    # a Python int


def gen_offset(rng, case, skew):
    r = rng.random()
    if r < 0.3:
        return rng.choice(OFFSETS)
    if r < 0.5:
        return rng.randrange(-10 ** 7, 10 ** 7)
    if r < 0.62:
        return rng.uniform(-10 ** 7, 10 ** 7)
    if not case["objs"]:
        return 0
    t = rng.choice(case["objs"])[0]                                    # boundary for an arbitrary caption
    base = -(t * skew)
    return base + rng.choice([0, 0, 0, 1, -1, 0.0005, -0.0005, 2.0 ** -30, -2.0 ** -30, 1e-9, -1e-9, 0.5, -0.5])


# ------------------------------------------------------------------------------------------------ build / observe
def make_node(d):
    if d[0] == "T":
        return CaptionNode.create_text(d[1], layout_info=LAYOUT if d[2] else None)
    if d[0] == "B":
        return CaptionNode.create_break(layout_info=LAYOUT if d[1] else None)
    return CaptionNode.create_style(bool(d[1]), dict(STYLES[d[2]]))


def node_key(n):
    if n.type_ == CaptionNode.BREAK:
        return "B"
    c = n.content
    if isinstance(c, dict):
        c = tuple(sorted(c.items()))
    return (n.type_, c, n.start, n.layout_info is not None)


def snap(n):
    c = n.content
    return (n.type_, dict(c) if isinstance(c, dict) else c, n.start, n.layout_info, n.position)


class Built:
    def __init__(self, case):
        self.case = case
        self.classes = {"B": -1}
        self.node_ids = set()
        self.snaps = []
        self.caps = []
        self.vals = []         # wire heap: [start, end, [node values]]
        for (s, e, nds, emptied) in case["objs"]:
            nodes = [make_node(d) for d in nds]
            vals = []
            for n in nodes:
                k = node_key(n)
                if k not in self.classes:
                    self.classes[k] = len(self.classes) - 1
                vals.append(self.classes[k])
                self.node_ids.add(id(n))
                self.snaps.append((n, snap(n)))
            c = Caption(s, e, nodes)
            if emptied:
                c.nodes = []
                vals = []
            self.caps.append(c)
            self.vals.append([exact(s), exact(e), vals])
        self.nlangs = len(case["langs"])
        self.cs = CaptionSet({LANGS[li]: CaptionList([self.caps[k] for k in refs])
                              for li, refs in enumerate(case["langs"])})
        self.copied = 0

    def value_langs(self):
        return [[self.vals[k] for k in refs] for refs in self.case["langs"]]

    def observe(self, cs):
        out = []
        for li in range(self.nlangs):
            lang = []
            for c in cs.get_captions(LANGS[li]):
                vals = []
                for n in c.nodes:
                    vals.append(self.classes.get(node_key(n), -2))
                    if n.type_ != CaptionNode.BREAK and id(n) not in self.node_ids:
                        self.copied += 1
                lang.append([exact(c.start), exact(c.end), vals])
            out.append(lang)
        return out

    def untouched(self):
        return all(snap(n) == s for n, s in self.snaps)

    def same_languages(self, cs):
        return sorted(cs.get_languages()) == sorted(LANGS[:self.nlangs])


def aliased(case):
    seen = set()
    for refs in case["langs"]:
        for k in refs:
            if k in seen:
                return True
            seen.add(k)
    return False


def in_domain(case):
    return not any(o[3] for o in case["objs"])


def do_adjust(case, skew, off):
    b = Built(case)
    r = impl.call(lambda: b.cs.adjust_caption_timing(offset=off, rate_skew=skew))
    if isinstance(r, Err):
        return b, r
    o = impl.call(lambda: b.observe(b.cs))
    return b, o


def do_merge(case):
    b = Built(case)
    r = impl.call(lambda: merge_concurrent_captions(b.cs))
    info = {"returned_argument": False, "langs_ok": True}
    if isinstance(r, Err):
        return b, r, r, info
    res1 = r.v if isinstance(r.v, CaptionSet) else b.cs
    info["returned_argument"] = res1 is b.cs
    o1 = impl.call(lambda: b.observe(res1))
    info["langs_ok"] = b.same_languages(res1)
    r2 = impl.call(lambda: merge_concurrent_captions(res1))
    if isinstance(r2, Err):
        return b, o1, r2, info
    res2 = r2.v if isinstance(r2.v, CaptionSet) else res1
    o2 = impl.call(lambda: b.observe(res2))
    return b, o1, o2, info


def dec_langs(x):
    return [[[r_q(c[0]), r_q(c[1]), c[2]] for c in lang] for lang in x]


def close(a, b):
    if len(a) != len(b):
        return False
    for la, lb in zip(a, b):
        if len(la) != len(lb):
            return False
        for ca, cb in zip(la, lb):
            if abs(ca[0] - cb[0]) > TOL or abs(ca[1] - cb[1]) > TOL or ca[2] != cb[2]:
                return False
    return True


def adjust_requests(b, skew, off, o):
    sk, of = exact(skew), exact(off)
    heap = b.vals
    return [(1904, [sk, of, heap, b.case["langs"]]),
            (1901, [sk, of, b.value_langs(), o.v if isinstance(o, Ok) else []]),
            (1905, [sk, of, heap, b.case["langs"]])]


def judge_adjust(case, skew, off, b, o, model, ok, prefix):
    """-> (violation dict or None, disagreement dict or None, near)"""
    base = {"op": "adjust", "input": case, "skew": skew, "offset": off, "replay": "adjust",
            "shape": "shared-caption-objects" if aliased(case) else "distinct-objects"}
    if isinstance(o, Err):
        return dict(base, kind="adjust-raises", what=f"adjust_caption_timing(offset={off!r}, rate_skew={skew!r}) "
                    f"raised {impl.ERR_NAMES.get(o.code, o.code)}"), None, False
    base["impl_obs"] = o.v
    near = ok[1] == 1
    if ok[0] != 1:
        twice = aliased(case) and close(dec_langs(prefix), o.v)
        return dict(base, kind="adjust-applied-once-per-listing" if twice else "adjust-wrong",
                    what=f"adjust_caption_timing(offset={off!r}, rate_skew={skew!r}): result is not "
                         "'t -> t*skew+offset, order and nodes kept, exactly the negative new starts dropped'"
                         + (" - it is what applying the map once per LISTING of a shared Caption object gives"
                            if twice else "")), None, near
    if not b.same_languages(b.cs):
        return dict(base, kind="adjust-changes-languages",
                    what=f"languages after adjust: {b.cs.get_languages()!r}"), None, near
    if not b.untouched():
        return dict(base, kind="adjust-modifies-nodes", what="adjust_caption_timing modified a node"), None, near
    if not near and not close(dec_langs(model), o.v):
        return None, {"op": "adjust", "input": case, "skew": skew, "offset": off, "impl": o.v,
                      "model": dec_langs(model)}, near
    return None, None, near


def judge_merge(case, b, o1, o2, info, model, ok, ok_first):
    base = {"op": "merge", "input": case, "replay": "merge",
            "shape": "shared-caption-objects" if aliased(case) else "distinct-objects",
            "impl_obs": [o1.v if isinstance(o1, Ok) else repr(o1), o2.v if isinstance(o2, Ok) else repr(o2)]}
    if isinstance(o1, Err) or isinstance(o2, Err):
        which = "first" if isinstance(o1, Err) else "second"
        e = o1 if isinstance(o1, Err) else o2
        return dict(base, kind="merge-raises", what=f"merge_concurrent_captions raised "
                    f"{impl.ERR_NAMES.get(e.code, e.code)} on the {which} call"), None
    if ok != 1:
        if ok_first == 1:
            return dict(base, kind="merge-not-idempotent", what="merging the merged set again changed it"), None
        return dict(base, kind="merge-wrong", what="merge_concurrent_captions: the returned set is not 'every "
                    "maximal run of consecutive equal spans joined (nodes in order, separated by line breaks), "
                    "every other caption as it was'"), None
    if not info["langs_ok"]:
        return dict(base, kind="merge-changes-languages", what="languages differ after merge"), None
    if not b.untouched():
        return dict(base, kind="merge-modifies-nodes", what="merge_concurrent_captions modified an input node"), None
    mm = r_result(model, dec_langs)
    if not (isinstance(mm, Ok) and mm.v == o1.v):
        return None, {"op": "merge", "input": case, "impl": o1.v, "model": repr(mm)}
    return None, None


# ------------------------------------------------------------------------------------------------ shrinking
def shrinks(case):
    objs, langs = case["objs"], case["langs"]
    for li in range(len(langs)):
        if len(langs) > 1:
            yield {"objs": objs, "langs": langs[:li] + langs[li + 1:]}
    for li in range(len(langs)):
        for p in range(len(langs[li])):
            yield {"objs": objs, "langs": langs[:li] + [langs[li][:p] + langs[li][p + 1:]] + langs[li + 1:]}
    for k, o in enumerate(objs):
        if len(o[2]) > 1:
            for j in range(len(o[2])):
                o2 = [o[0], o[1], o[2][:j] + o[2][j + 1:], o[3]]
                yield {"objs": objs[:k] + [o2] + objs[k + 1:], "langs": langs}


def shrink(case, fails, budget=150):
    cur = case
    progress = True
    while progress and budget > 0:
        progress = False
        for cand in shrinks(cur):
            budget -= 1
            if budget <= 0:
                break
            try:
                if fails(cand):
                    cur = cand
                    progress = True
                    break
            except Exception:  # noqa
                pass
    return cur


def compact(case):
    """drop unreferenced objects"""
    used = sorted({k for refs in case["langs"] for k in refs})
    ren = {k: i for i, k in enumerate(used)}
    return {"objs": [case["objs"][k] for k in used], "langs": [[ren[k] for k in refs] for refs in case["langs"]]}


def eval_adjust(case, skew, off):
    b, o = do_adjust(case, skew, off)
    reqs = adjust_requests(b, skew, off, o)
    m, ok, pre = oracle_batch(reqs)
    return judge_adjust(case, skew, off, b, o, m, ok, pre)


def merge_requests(b, o1, o2):
    vl = b.value_langs()
    return [(1902, vl), (1903, [vl, o1, o2]), (1903, [vl, o1, o1])]


def eval_merge(case):
    b, o1, o2, info = do_merge(case)
    m, ok, okf = oracle_batch(merge_requests(b, o1, o2))
    return judge_merge(case, b, o1, o2, info, m, ok, okf)


# ------------------------------------------------------------------------------------------------ run
def bump(d, k, n=1):
    d[k] = d.get(k, 0) + n


def run(ctx):
    rng = ctx.rng
    res = {"evaluations": 0, "nontrivial": set(), "violations": [], "disagreements": [], "distribution": {},
           "streams": 2, "notes": []}
    dist = res["distribution"]
    shrunk_kinds = set()

    def report(v, evaluate):
        """evaluate(case) -> violation dict or None; the first violation of every kind is shrunk"""
        if v["kind"] not in shrunk_kinds and len(shrunk_kinds) < 6:
            shrunk_kinds.add(v["kind"])
            kind = v["kind"]
            small = compact(shrink(v["input"], lambda c: (evaluate(c) or {}).get("kind") == kind))
            v2 = evaluate(small)
            if v2 and v2.get("kind") == kind:
                v = dict(v2, original_input=v["input"])
        res["violations"].append(v)

    # ---------------- adjust --------------------------------------------------------------
    cases = []
    for i in range(ctx.n(1300, 30000)):
        case = gen_case(rng, False)
        skew = gen_skew(rng)
        cases.append((case, skew, gen_offset(rng, case, skew)))
    ran = [do_adjust(*c) for c in cases]
    reqs = []
    for (case, skew, off), (b, o) in zip(cases, ran):
        reqs.extend(adjust_requests(b, skew, off, o))
    resp = oracle_batch(reqs)
    for i, ((case, skew, off), (b, o)) in enumerate(zip(cases, ran)):
        m, ok, pre = resp[3 * i:3 * i + 3]
        res["evaluations"] += 1
        v, d, near = judge_adjust(case, skew, off, b, o, m, ok, pre)
        bump(dist, "adjust_cases")
        bump(dist, "adjust_sets_with_shared_caption_objects", int(aliased(case)))
        bump(dist, "adjust_cases_with_an_optional_caption(|x|<=slack, still judged)", int(near))
        bump(dist, "adjust_int_skew", int(isinstance(skew, int)))
        if isinstance(o, Ok):
            n_in = sum(len(l) for l in case["langs"])
            n_out = sum(len(l) for l in o.v)
            if skew != 1 or 0 < n_out < n_in:
                res["nontrivial"].add(("adjust", repr(case), skew, off))
            bump(dist, "adjust_some_but_not_all_dropped", int(0 < n_out < n_in))
            bump(dist, "adjust_all_dropped", int(n_in > 0 and n_out == 0))
            zero = any(exact(case["objs"][k][0]) * exact(skew) + exact(off) == 0 for refs in case["langs"] for k in refs)
            bump(dist, "adjust_new_start_exactly_zero", int(zero))
        if v:
            report(v, lambda c, skew=skew, off=off: eval_adjust(c, skew, off)[0])
        elif d:
            res["disagreements"].append(d)
    sample_adjust = {"op": "adjust", "input": cases[0][0], "skew": cases[0][1], "offset": cases[0][2]}

    # ---------------- merge ---------------------------------------------------------------
    cases = [gen_case(rng, True) for _ in range(ctx.n(1300, 30000))]
    ran = [do_merge(c) for c in cases]
    reqs = []
    for case, (b, o1, o2, info) in zip(cases, ran):
        reqs.extend(merge_requests(b, o1, o2))
    resp = oracle_batch(reqs)
    runlens = {}
    for i, (case, (b, o1, o2, info)) in enumerate(zip(cases, ran)):
        m, ok, okf = resp[3 * i:3 * i + 3]
        res["evaluations"] += 1
        bump(dist, "merge_cases")
        bump(dist, "merge_sets_with_shared_caption_objects", int(aliased(case)))
        bump(dist, "merge_returned_the_argument_set", int(info["returned_argument"]))
        bump(dist, "merge_nodes_copied_not_identical(info)", b.copied)
        maxrun, revisit, twins, lead_break, styled = 0, False, False, False, False
        for refs in case["langs"]:
            r = 1
            spans = [(case["objs"][k][0], case["objs"][k][1]) for k in refs]
            for j, (a, c) in enumerate(zip(spans, spans[1:])):
                if a == c:
                    r += 1
                    maxrun = max(maxrun, r)
                    twins = twins or (type(a[0]), type(a[1])) != (type(c[0]), type(c[1]))
                else:
                    r = 1
                    revisit = revisit or c in spans[:j + 1]
            for k in refs:
                nds = case["objs"][k][2]
                lead_break = lead_break or (nds and nds[0][0] == "B")
                styled = styled or any(d[0] == "S" for d in nds)
        key = min(maxrun, 13)
        runlens[key] = runlens.get(key, 0) + 1
        bump(dist, "merge_equal_span_revisited_non_adjacently", int(revisit))
        bump(dist, "merge_run_with_int_float_twins", int(twins))
        bump(dist, "merge_caption_starting_with_break", int(bool(lead_break)))
        bump(dist, "merge_caption_with_style_nodes", int(styled))
        if maxrun >= 2:
            res["nontrivial"].add(("merge", repr(case)))
        if not in_domain(case):
            # node lists emptied after construction: outside the STATEMENT's domain (Caption() forbids it), so no
            # violation is possible here; but the theorems C19_merge_never_raises_on_accepted / _error_branch /
            # _raises_iff speak about exactly these inputs: the model's Ok value / Err outcome must be the code's
            # (disagreement = the model no longer mirrors the code; audit w7 item 2)
            bump(dist, "merge_out_of_domain_emptied_node_list(property not judged; model compared at alarm level)")
            mm = r_result(m, dec_langs)
            same = (isinstance(mm, Err) and isinstance(o1, Err)) or (isinstance(mm, Ok) and isinstance(o1, Ok) and mm.v == o1.v)
            if not same:
                res["disagreements"].append({"what": "merge on emptied node lists: model outcome differs from the code",
                                             "input": case, "impl": repr(o1)[:400], "model": repr(mm)[:400]})
            bump(dist, "merge_out_of_domain_raises", int(isinstance(o1, Err)))
            continue
        v, d = judge_merge(case, b, o1, o2, info, m, ok, okf)
        if v:
            report(v, lambda c: eval_merge(c)[0] if in_domain(c) else None)
        elif d:
            res["disagreements"].append(d)
    dist["merge_max_run_length_histogram(13 = 13 or more)"] = runlens
    # ---------------- composition law (stream 3, wave 7) -------------------------------------
    import c19_compose
    c19_compose.run_compose(ctx, res)
    res["streams"] = 4
    res["rule"] = ("random caption sets built through the API: 1-4 languages, 0-20 captions each (plus shared objects), "
                   "int and float times of both signs, runs of equal spans of length 1-13+ at every position, equal spans "
                   "revisited non-adjacently (A B A), int/float twins (1000 vs 1000.0), near misses sharing only start or "
                   "only end, end < start; 1-8 nodes per caption: text, breaks (leading, trailing, only breaks, with layout), "
                   "style on/off nodes; Caption objects shared between languages or listed twice. Skews: fixed list, "
                   "random dyadic and arbitrary binary64 in (0,4], ints; offsets of both signs, random, and the exact / "
                   "nudged negative of a random caption's start*skew. Non-trivial: adjust with skew != 1 or with some but "
                   "not all captions dropped; merge with a run of length >= 2. Distinct inputs counted.")
    res["samples"] = [sample_adjust, {"op": "merge", "input": cases[0]}, {"op": "merge", "input": cases[1]}]
    res["clauses"] = {
        "theorem": [
            "model meets the oracle: ok_adjust sk off ls (adjust sk off ls) = true, all rational skews/offsets, several languages",
            "object level: the repaired loop on a heap with shared Caption objects = the value model, every alias structure",
            "merge_concurrent meets ok_merge (runs joined, idempotent) for several languages, under nodes_nonempty "
            "(every caption has >= 1 node - what Caption() enforces); without it the only exception is Caption()'s refusal",
            "adjust = filter(start' >= 0) o map(affine) with order and nodes kept; merge = map join (maximal runs); "
            "a list without adjacent equal spans is returned unchanged",
            "composition: adjust(s1,o1) then adjust(s2,o2) = adjust(s1*s2, o1*s2+o2) on the survivors of the first step; "
            "offsets add; the inverse map undoes an adjust that drops nothing; adjust(1,0) = filter(start >= 0)",
            "merge without nodes_nonempty: raises iff some maximal run has only captions without nodes (merge_accepts); under "
            "exactly that guard returns the joined runs; idempotent, keeps the text of every language in order, one caption "
            "per run in order; commutes with adjust for a non-zero skew when nothing is dropped"],
        "correspondence_only": [
            "binary64 rounding of t*skew+offset (model exact in Q; values within 2^-10 us; membership free only for "
            "0 < |x| <= (|t*skew|+|off|)*2^-50)",
            "the returned set is the one judged for merge; in-place update of the argument is counted, not demanded",
            "node values instead of node object identity (copies counted as information); input node fields unchanged",
            "set of languages unchanged by both operations",
            "aliasing for merge (merge never writes to a Caption object, so the value model is run on the dereferenced lists)"]}
    return res


def replay(ctx, rec):
    if rec.get("op") in ("compose", "laws"):
        import c19_compose
        return c19_compose.replay(rec)
    case = rec["input"]
    if rec.get("op") == "adjust":
        v, d, near = eval_adjust(case, rec["skew"], rec["offset"])
    else:
        v, d = eval_merge(case)
    return v is not None, (v or {}).get("what", "no violation")
