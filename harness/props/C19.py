"""C19 - adjust_caption_timing and merge_concurrent_captions.

Observation = per language the list of (start, end, node identities); node identity is the index of the
node object in the input (so "nodes untouched, in order" is checked by identity and by a field snapshot),
a node created by the code is -1 (a BREAK) or -2 (anything else).
Correspondence: extracted model (coq/model/Base.v) vs implementation.
Property oracle: Coq ok_adjust / ok_merge (coq/spec/SpecBase.v) on the implementation's observation.
"""
from fractions import Fraction

import impl
from wire import Ok, Err, oracle_batch, r_result, r_q
from pycaption import CaptionSet, CaptionList, Caption, CaptionNode
from pycaption.base import merge_concurrent_captions

TOL = Fraction(1, 1024)
LANGS = ["en-US", "fr", "de"]


def exact(x):
    if isinstance(x, bool):
        raise TypeError
    if isinstance(x, int):
        return Fraction(x)
    return Fraction(*x.as_integer_ratio())


def gen_langs(rng, for_merge):
    """abstract input: list of languages, each a list of (start, end, n_nodes)"""
    langs = []
    for _ in range(rng.randint(1, 3)):
        n = rng.choice([0, 1, 2, 3, 4, 5, 6, 8])
        caps = []
        t = rng.choice([0, 0, 1, 1000, 123456, 10**6, 3600 * 10**6])
        while len(caps) < n:
            d = rng.choice([1, 999, 1000, 40000, 10**6, 2500000, rng.randrange(1, 10**7)])
            if rng.random() < 0.3:
                # SCC-like float times
                s, e = t * 1001 / 1000.0 + 1 / 3.0, (t + d) * 1001 / 1000.0 + 1 / 3.0
            else:
                s, e = t, t + d
            run = rng.choice([1, 1, 1, 2, 2, 3, 4]) if for_merge else rng.choice([1, 1, 2])
            for _ in range(run):
                caps.append((s, e, rng.randint(1, 4)))
            # sometimes the next caption shares only the start, or only the end
            r = rng.random()
            if r < 0.15:
                caps.append((s, e + 1, rng.randint(1, 3)))
            elif r < 0.3:
                caps.append((s + 1 if isinstance(s, int) else s + 0.5, e, rng.randint(1, 3)))
            t = t + d + rng.choice([0, 0, 1, 1000, 5 * 10**6])
        langs.append(caps[:max(n, 0)] if n else [])
    # API-built sets may list the SAME Caption objects under two languages: an aliased language is the same
    # Python list object as an earlier one (build() then reuses the Caption objects)
    if len(langs) < 3 and rng.random() < 0.2:
        langs.append(langs[rng.randrange(len(langs))])
    return langs


def alias_of(langs):
    """alias_of(langs)[i] = index of the first language that is the same list object (i itself if none)"""
    return [next(j for j in range(i + 1) if langs[j] is langs[i]) for i in range(len(langs))]


def with_alias(langs, alias):
    out = []
    for i, l in enumerate(langs):
        out.append(out[alias[i]] if alias and alias[i] < i else l)
    return out


def build(langs):
    ids = {}
    snaps = []
    d = {}
    k = 0
    al = alias_of(langs)
    built = []
    for li, caps in enumerate(langs):
        if al[li] < li:
            built.append(built[al[li]])
            d[LANGS[li]] = CaptionList(list(built[al[li]]))
            continue
        cl = []
        for (s, e, nn) in caps:
            nodes = []
            for j in range(nn):
                if j % 2 == 1:
                    node = CaptionNode.create_break()
                else:
                    node = CaptionNode.create_text("t%d" % k)
                ids[id(node)] = k
                snaps.append((node, (node.type_, node.content, node.start, node.layout_info, node.position)))
                nodes.append(node)
                k += 1
            cl.append(Caption(s, e, nodes))
        built.append(cl)
        d[LANGS[li]] = CaptionList(cl)
    return CaptionSet(d), ids, snaps


def observe(cs, ids, nlangs):
    out = []
    for li in range(nlangs):
        caps = cs.get_captions(LANGS[li])
        lang = []
        for c in caps:
            nodes = []
            for n in c.nodes:
                if id(n) in ids:
                    nodes.append(ids[id(n)])
                else:
                    nodes.append(-1 if (n.type_ == CaptionNode.BREAK and n.content is None) else -2)
            lang.append([exact(c.start), exact(c.end), nodes])
        out.append(lang)
    return out


def nodes_untouched(snaps):
    return all((n.type_, n.content, n.start, n.layout_info, n.position) == s for n, s in snaps)


def wire_langs(langs):
    """abstract input -> wire value with identities assigned exactly as build() does"""
    out = []
    k = 0
    al = alias_of(langs)
    for li, caps in enumerate(langs):
        if al[li] < li:
            out.append(out[al[li]])
            continue
        l = []
        for (s, e, nn) in caps:
            l.append([exact(s), exact(e), list(range(k, k + nn))])
            k += nn
        out.append(l)
    return out


def dec_langs(x):
    return [[[r_q(c[0]), r_q(c[1]), c[2]] for c in lang] for lang in x]


def close(a, b):
    if len(a) != len(b):
        return False
    for la, lb in zip(a, b):
        if len(la) != len(lb):
            return False
        for ca, cb in zip(la, lb):
            if abs(ca[0] - cb[0]) > TOL or abs(ca[1] - cb[1]) > TOL or ca[2] != cb[2]:
                return False
    return True


SKEWS = [1.0, 0.5, 2.0, 4.0, 0.25, 1.5, 1.1, 0.999, 1.001, 3.75, 0.001]
OFFSETS = [0, 1, -1, 1000, -1000, 10**6, -10**6, -3600 * 10**6, 5 * 10**6, -123456, 0.5, -2500000.25]


def do_adjust(langs, skew, off):
    cs, ids, snaps = build(langs)
    r = impl.call(lambda: cs.adjust_caption_timing(offset=off, rate_skew=skew))
    if isinstance(r, Err):
        return r, True
    return Ok(observe(cs, ids, len(langs))), nodes_untouched(snaps)


def do_merge(langs):
    cs, ids, snaps = build(langs)
    r = impl.call(lambda: merge_concurrent_captions(cs))
    if isinstance(r, Err):
        return r, r, True
    o1 = observe(cs, ids, len(langs))
    r2 = impl.call(lambda: merge_concurrent_captions(cs))
    if isinstance(r2, Err):
        return Ok(o1), r2, True
    o2 = observe(cs, ids, len(langs))
    return Ok(o1), Ok(o2), nodes_untouched(snaps)


def run(ctx):
    rng = ctx.rng
    res = {"evaluations": 0, "nontrivial": set(), "violations": [], "disagreements": [], "distribution": {},
           "streams": 2, "notes": []}
    dist = res["distribution"]
    # ---------------- adjust --------------------------------------------------------------
    cases = []
    for i in range(ctx.n(1500, 40000)):
        langs = gen_langs(rng, False)
        skew = SKEWS[i % len(SKEWS)] if i % 3 else rng.choice(SKEWS)
        off = rng.choice(OFFSETS) if i % 5 else -int(exact(langs[0][0][0] if langs[0] else 0) * Fraction(skew))
        cases.append((langs, skew, off))
    obs = [do_adjust(*c) for c in cases]
    reqs_m = [(1900, [exact(sk), exact(off), wire_langs(l)]) for (l, sk, off) in cases]
    reqs_ok = [(1901, [exact(sk), exact(off), wire_langs(l), o.v if isinstance(o, Ok) else []])
               for (l, sk, off), (o, _) in zip(cases, obs)]
    models = oracle_batch(reqs_m)
    oks = oracle_batch(reqs_ok)
    near = 0
    for (langs, skew, off), (o, untouched), m, ok in zip(cases, obs, models, oks):
        res["evaluations"] += 1
        key = ("adjust", repr(langs), skew, off)
        if isinstance(o, Err):
            res["violations"].append({"kind": "adjust-raises", "what": f"adjust_caption_timing raised {o}",
                                      "alias": alias_of(langs), "op": "adjust", "input": langs, "skew": skew, "offset": off})
            continue
        if ok[1] == 1:
            near += 1
            continue
        n_in = sum(len(l) for l in langs)
        n_out = sum(len(l) for l in o.v)
        if skew != 1.0 or 0 < n_out < n_in:
            res["nontrivial"].add(key)
        shared = alias_of(langs) != list(range(len(langs)))
        dist["adjust_sets_with_shared_caption_objects"] = dist.get("adjust_sets_with_shared_caption_objects", 0) + shared
        if ok[0] != 1 or not untouched:
            res["violations"].append({
                "alias": alias_of(langs), "shape": "languages-share-caption-objects" if shared else "distinct-objects",
                "kind": ("adjust-wrong:languages-share-caption-objects" if shared else "adjust-wrong")
                if ok[0] != 1 else "adjust-modifies-nodes",
                "what": f"adjust_caption_timing(offset={off}, rate_skew={skew}) result differs from t*skew+offset / "
                        f"drop-negative-starts" if ok[0] != 1 else "adjust modified a node",
                "op": "adjust", "input": langs, "skew": skew, "offset": off, "impl_obs": o.v})
        elif not close(dec_langs(m), o.v):
            res["disagreements"].append({"op": "adjust", "input": langs, "skew": skew, "offset": off,
                                         "impl": o.v, "model": dec_langs(m)})
    dist["adjust_cases"] = len(cases)
    dist["adjust_near_threshold_excluded"] = near
    # ---------------- merge ---------------------------------------------------------------
    cases = [gen_langs(rng, True) for _ in range(ctx.n(1500, 40000))]
    obs = [do_merge(l) for l in cases]
    reqs_m = [(1902, wire_langs(l)) for l in cases]
    reqs_ok = [(1903, [wire_langs(l), o1, o2]) for l, (o1, o2, _) in zip(cases, obs)]
    models = oracle_batch(reqs_m)
    oks = oracle_batch(reqs_ok)
    runlens = {}
    for langs, (o1, o2, untouched), m, ok in zip(cases, obs, models, oks):
        res["evaluations"] += 1
        maxrun = 0
        for caps in langs:
            r = 1
            for a, b in zip(caps, caps[1:]):
                if (a[0], a[1]) == (b[0], b[1]):
                    r += 1
                    maxrun = max(maxrun, r)
                else:
                    r = 1
        runlens[maxrun] = runlens.get(maxrun, 0) + 1
        if maxrun >= 2:
            res["nontrivial"].add(("merge", repr(langs)))
        shared = alias_of(langs) != list(range(len(langs)))
        dist["merge_sets_with_shared_caption_objects"] = dist.get("merge_sets_with_shared_caption_objects", 0) + shared
        if ok != 1 or not untouched:
            res["violations"].append({
                "alias": alias_of(langs), "shape": "languages-share-caption-objects" if shared else "distinct-objects",
                "kind": "merge-wrong" if ok != 1 else "merge-modifies-nodes",
                "what": "merge_concurrent_captions result is not 'join every maximal run' / not idempotent / raised",
                "op": "merge", "input": langs,
                "impl_obs": [o1.v if isinstance(o1, Ok) else repr(o1), o2.v if isinstance(o2, Ok) else repr(o2)]})
            continue
        mm = r_result(m, dec_langs)
        if not (isinstance(mm, Ok) and isinstance(o1, Ok) and mm.v == o1.v):
            res["disagreements"].append({"op": "merge", "input": langs, "impl": repr(o1), "model": repr(mm)})
    dist["merge_cases"] = len(cases)
    dist["merge_max_run_length_histogram"] = runlens
    res["rule"] = ("random multi-language caption lists (0-8 captions, int and SCC-like float times, runs of 1-4 equal "
                   "spans at every position, near-miss spans sharing only start or only end); skews %r; offsets of both "
                   "signs incl. the exact negative of the first start. Non-trivial: adjust with skew != 1 or with some "
                   "but not all captions dropped; merge with a run of length >= 2. Distinct inputs counted." % (SKEWS,))
    res["samples"] = [{"op": "adjust", "input": cases[0], "skew": 1.1, "offset": -1000},
                      {"op": "merge", "input": cases[1]}]
    res["clauses"] = {"theorem": ["adjust = filter(start' >= 0) o map(affine), order and nodes kept",
                                  "merge = map join (maximal runs); idempotent; singletons unchanged; never raises"],
                      "correspondence_only": ["binary64 rounding of t*skew+offset (model is exact, tolerance 2^-10 us)"]}
    return res


def replay(ctx, rec):
    from wire import oracle1
    langs = with_alias([[tuple(c) for c in l] for l in rec["input"]], rec.get("alias"))
    if rec.get("op") == "adjust":
        o, untouched = do_adjust(langs, rec["skew"], rec["offset"])
        if isinstance(o, Err):
            return True, repr(o)
        ok = oracle1(1901, [exact(rec["skew"]), exact(rec["offset"]), wire_langs(langs), o.v])
        return (ok[0] != 1 and ok[1] != 1) or not untouched, o.v
    o1, o2, untouched = do_merge(langs)
    ok = oracle1(1903, [wire_langs(langs), o1, o2])
    return ok != 1 or not untouched, repr(o1)
