"""C17 - SCC writer output is structurally valid and re-reads to the same words.

Streams
  A  textwrap model: coq model.SccWrap.wrap(width, text) vs textwrap.wrap(text, width, break_on_hyphens=False)
     (the call SCCWriter._layout_line makes) on texts over the basic character set: word lengths 1..40,
     runs of spaces, leading/trailing spaces, hyphens, lengths around the width; widths 32 and others.
  B  caption sets built through the API (1-4 lines of 1-80 basic characters, cue spacings from just
     feasible to sparse, clear-screen thresholds, frame-boundary starts) -> SCCWriter().write():
       correspondence : document == extracted model's document (model.SccWrite.write), except when a float
                        decision sits on an exact boundary (counted as near_threshold);
       property oracle: Coq spec.SpecSccw.ok_output on the implementation's document (header, four-hex-digit
                        words, parity of every byte, PAC rows 1..15, rows <= 32 columns, text kept up to
                        breaking at spaces, timecodes non-decreasing, displayed within 3 frames of start);
       re-read        : SCCReader().read(document) -> Coq ok_reread (one caption per cue, same words, start).
"""
import textwrap
from fractions import Fraction

import impl
from wire import Ok, Err, oracle_batch
from pycaption import SCCWriter, SCCReader, CaptionSet, CaptionList, Caption, CaptionNode
from pycaption.scc import constants as K

TABLES = ("GenSccw.v",)

MPC = Fraction(1001000, 30)
# cues shorter than the reader's documented minimum duration (0.05 s) are outside the domain (design/C17.md)
MIN_DURATION = 50000
BASIC = [c for c in K.CHARACTER_TO_CODE if len(c) == 1]          # whatever the tree says the basic set is
LETTERS = [c for c in BASIC if c.isalnum()]
PUNCT = [c for c in BASIC if not c.isalnum() and c != " "]

VERDICT = {1: "not-scenarist-hex-words", 2: "parity", 3: "loads-vs-captions", 4: "row-addressing",
           5: "row-longer-than-32", 6: "words-not-preserved", 7: "timecodes-decrease", 8: "not-visible-within-3-frames"}


# ---------------------------------------------------------------------------------------------------
def rand_word(rng, maxlen=40):
    r = rng.random()
    if r < 0.55:
        n = rng.randint(1, 9)
    elif r < 0.85:
        n = rng.randint(10, 31)
    elif r < 0.93:
        n = rng.choice([31, 32, 33])
    else:
        n = rng.randint(33, max(33, maxlen))
    n = min(n, maxlen)
    w = []
    for _ in range(n):
        q = rng.random()
        w.append(rng.choice(LETTERS) if q < 0.8 else ("-" if q < 0.9 else rng.choice(PUNCT)))
    return "".join(w)


def rand_line(rng, maxlen=80, spaces=True):
    target = rng.choice([rng.randint(1, 20), rng.randint(20, 40), rng.choice([30, 31, 32, 33, 34, 63, 64, 65, 66]),
                         rng.randint(min(40, maxlen), maxlen), maxlen])
    target = min(target, maxlen)
    s = ""
    if spaces and rng.random() < 0.08:
        s = " " * rng.randint(1, 3)
    while len(s) < target:
        w = rand_word(rng, min(40, max(1, target - len(s))))
        s += w
        if len(s) < target:
            s += " " if (not spaces or rng.random() < 0.9) else " " * rng.randint(2, 4)
    s = s[:maxlen]
    if not spaces or rng.random() < 0.9:
        s = s.strip(" ")
    if not s.strip(" "):
        s = rng.choice(LETTERS)
    return s


def wrap_texts(ctx):
    rng = ctx.rng
    out = []
    # boundary grid: two/three words whose lengths straddle the width
    for a in (1, 15, 16, 17, 30, 31, 32, 33, 40):
        for b in (1, 15, 16, 17, 31, 32, 33, 40):
            out.append((32, "a" * a + " " + "b" * b))
            out.append((32, "a" * a + "  " + "b" * b + " c"))
    out += [(32, ""), (32, " "), (32, "   "), (32, " " * 40 + "abc"), (32, "a" * 31 + " " + "b" * 40),
            (32, "   ab  cd   "), (32, "x" * 100), (32, "aaaaaaaaaa bbbbbbbbbb cccccccc-dddddddddd eee"),
            (32, "a-b-c-d-e-f-g-h-i-j-k-l-m-n-o-p-q-r-s-t-u-v-w-x-y-z"), (32, "- -- --- " * 9)]
    for _ in range(ctx.n(1500, 40000)):
        w = 32 if rng.random() < 0.7 else rng.randint(1, 45)
        out.append((w, rand_line(rng, rng.choice([20, 80, 80, 130]))))
    for _ in range(ctx.n(300, 8000)):
        # dense in spaces and hyphens
        n = rng.randint(0, 70)
        out.append((rng.choice([32, 32, 5, 10]), "".join(rng.choice("ab- -  x") for _ in range(n))))
    return out


def run_wrap(ctx, res):
    cases = wrap_texts(ctx)
    models = oracle_batch([(1700, [w, t]) for w, t in cases])
    for (w, t), m in zip(cases, models):
        res["evaluations"] += 1
        real = textwrap.wrap(t, w, break_on_hyphens=False)
        if len(real) > 1:
            res["nontrivial"].add(("wrap", w, t))
        if m != real:
            res["disagreements"].append({"stream": "A", "input": [w, t], "impl": real, "model": m,
                                         "what": "textwrap.wrap differs from the Coq model"})
    # the writer's own layout call on width 32 (ties break_on_hyphens / width in _layout_line)
    texts = [t for w, t in cases if w == 32 and t.strip(" ")][:ctx.n(400, 4000)]
    models = oracle_batch([(1700, [32, t]) for t in texts])
    for t, m in zip(texts, models):
        res["evaluations"] += 1
        cap = Caption(0, 1, [CaptionNode.create_text(t)])
        real = impl.call(lambda: SCCWriter._layout_line(cap))
        want = "\n".join(m)
        if not (isinstance(real, Ok) and real.v == want):
            rows = real.v.split("\n") if isinstance(real, Ok) else None
            bad = rows is None or any(len(r) > 32 for r in rows) or \
                "".join(real.v.split()) != "".join(t.split()) or \
                (all(len(x) <= 32 for x in t.split()) and real.v.split() != t.split())
            rec = {"stream": "A", "input": t, "impl": repr(real), "model": want,
                   "what": "SCCWriter._layout_line differs from the model of textwrap.fill(x, 32, break_on_hyphens=False)"}
            if bad:
                rec.update({"kind": "layout-breaks-inside-word", "replay": "layout"})
                res["violations"].append(rec)
            else:
                res["disagreements"].append(rec)
    res["distribution"]["A_wrap_cases"] = len(cases)
    res["distribution"]["A_layout_line_cases"] = len(texts)


# ---------------------------------------------------------------------------------------------------
def mk_caption(start, end, lines):
    nodes = []
    for i, l in enumerate(lines):
        if i:
            nodes.append(CaptionNode.create_break())
        nodes.append(CaptionNode.create_text(l))
    return Caption(start, end, nodes)


def num(x):
    """times handed to the API: int when integral, else float (exactly representable values only)"""
    return int(x) if x.denominator == 1 else float(x)


def gen_caps(ctx, sizes_of):
    """-> list of (lines, start, end) with Fractions; spacing built from the model's word counts"""
    rng = ctx.rng
    n = rng.choice([1, 1, 2, 3, 3, 4, 6])
    texts = []
    for _ in range(n):
        k = rng.choice([1, 1, 2, 2, 3, 4])
        maxlen = 80 if rng.random() < 0.5 else 32
        texts.append([rand_line(rng, maxlen) for _ in range(k)])
    return texts


def ceil_frac(x, unit):
    q = -((-x) // unit)
    return q * unit


def schedule(rng, texts, sizes):
    """sizes[i] = code words of caption i (incl. the 8 fixed ones). Returns list of (start, end) Fractions."""
    unit = rng.choice([1, 1, 1000, 100100, Fraction(1, 3)])
    mode = rng.choice(["just", "just", "tight", "sparse", "mixed"])
    spans = []
    prev_start = None
    for i, w in enumerate(sizes):
        need = w * MPC
        if mode == "just" or (mode == "mixed" and rng.random() < 0.5):
            slack = 0
        elif mode == "tight":
            slack = rng.choice([0, 1, 1000, 33367, 100100])
        else:
            slack = rng.randrange(0, 5 * 10**6)
        base = need if prev_start is None else prev_start + need
        start = ceil_frac(base + slack, unit)
        if prev_start is None and rng.random() < 0.3:
            start += rng.randrange(0, 3600 * 10**6 * rng.choice([1, 30])) // 100100 * 100100
        spans.append([start, None])
        if prev_start is not None:
            lo, hi = prev_start, start
            code_start = start - need
            r = rng.random()
            if r < 0.35:
                # around the clear-screen threshold: end + 3 frames >= code_start
                e = code_start - 3 * MPC + rng.choice([-1, 0, 0, 1, Fraction(1, 3), -100100])
                e = ceil_frac(e, unit) if rng.random() < 0.5 else e
            elif r < 0.55:
                e = hi
            elif r < 0.65:
                e = lo
            else:
                e = lo + (hi - lo) * Fraction(rng.randint(0, 16), 16)
                e = ceil_frac(e, unit)
            spans[i - 1][1] = min(max(e, lo + MIN_DURATION), hi)
        prev_start = start
    spans[-1][1] = spans[-1][0] + rng.choice([MIN_DURATION, MIN_DURATION + 1, 10**6, 4 * 10**6])
    return [(Fraction(s), Fraction(e)) for s, e in spans]


def exact_float(x):
    return Fraction(float(x)) == x


def near_threshold(caps, sizes):
    """some float decision of the writer sits on an exact boundary (frame floor or the >= of PASS 2)"""
    prev_end = None
    for (lines, s, e), w in zip(caps, sizes):
        cs = max(s - w * MPC, 0)
        for t in (cs, e):
            f = t * 30 / 1001000
            d = abs(f - round(f))
            if d < Fraction(1, 10**7):
                return True
        if prev_end is not None and abs(prev_end + 3 * MPC - cs) < Fraction(1, 10**4):
            return True
        prev_end = e
    return False


def observe(caps):
    """caps: list of (lines, start, end). -> (document or Err, reread obs or Err)"""
    cs = CaptionSet({"en-US": CaptionList([mk_caption(num(s), num(e), lines) for lines, s, e in caps])})
    doc = impl.call(lambda: SCCWriter().write(cs))
    if not isinstance(doc, Ok):
        return doc, None
    rd = impl.call(lambda: SCCReader().read(doc.v))
    if isinstance(rd, Ok):
        lang = rd.v.get_languages()[0]
        rd = Ok([[Fraction(c.start), c.get_text()] for c in rd.v.get_captions(lang)])
    return doc, rd


def wire_caps(caps):
    return [["\n".join(lines), s, e] for lines, s, e in caps]


def judge(caps, sizes, rows, doc, rd, model_doc, v_out, v_rd):
    """-> (violation dict or None, disagreement dict or None)"""
    inp = [{"lines": lines, "start": str(s), "end": str(e)} for lines, s, e in caps]
    many_rows = any(r > 15 for r in rows)
    base = {"input": inp, "replay": "write", "stream": "B"}
    if many_rows:
        base["shape"] = "more-than-15-rows"
    viol = None
    if not isinstance(doc, Ok):
        viol = dict(base, kind="more-than-15-rows" if many_rows else "write-raises",
                    what=f"SCCWriter.write raised {impl.ERR_NAMES.get(doc.code, doc.code)}")
    elif v_out != 0:
        viol = dict(base, kind="more-than-15-rows" if many_rows else VERDICT.get(v_out, str(v_out)),
                    what=f"SCC output fails the property oracle: {VERDICT.get(v_out, v_out)}", document=doc.v)
    elif not isinstance(rd, Ok):
        viol = dict(base, kind="more-than-15-rows" if many_rows else "reread-raises",
                    what=f"SCCReader.read of the writer's output raised {impl.ERR_NAMES.get(rd.code, rd.code)}",
                    document=doc.v)
    elif v_rd != 0:
        viol = dict(base, kind="more-than-15-rows" if many_rows else "reread-" + VERDICT.get(v_rd, str(v_rd)),
                    what=f"re-read captions fail the property oracle: {VERDICT.get(v_rd, v_rd)}",
                    document=doc.v, reread=[[str(a), b] for a, b in rd.v])
    if viol and many_rows:
        viol["what"] = ("a caption laid out on more than 15 rows is written with an invalid / wrapped-around row "
                        "address: " + viol["what"])
    dis = None
    if viol is None and isinstance(model_doc, Ok) != isinstance(doc, Ok):
        dis = {"stream": "B", "input": inp, "impl": repr(doc)[:300], "model": repr(model_doc)[:300]}
    elif viol is None and isinstance(doc, Ok) and model_doc.v != doc.v and not near_threshold(caps, sizes):
        dis = {"stream": "B", "input": inp, "impl": doc.v, "model": model_doc.v,
               "what": "SCCWriter.write output differs from the model"}
    return viol, dis


def judge_composition(caps, sizes, rd, rt):
    """writer model o reader model (request 1705): must satisfy the property on its own, and must equal what the real
    reader returned for the real writer's output (texts exactly, starts within 2^-10 us)"""
    inp = [{"lines": lines, "start": str(s), "end": str(e)} for lines, s, e in caps]
    status, obs, ok = rt
    if status != 0 or ok != 1:
        return {"stream": "B-composition", "input": inp, "model": [status, obs, ok],
                "what": "the writer model composed with the SCC reader model does not re-read to the same words "
                        "(status %d: 0 read, 1 writer error, 2 not a document, 3 reader refused)" % status}
    if isinstance(rd, Ok) and not near_threshold(caps, sizes):
        real = rd.v
        same = len(real) == len(obs) and all(
            r[1] == o[1] and abs(r[0] - Fraction(o[0][0], o[0][1])) <= Fraction(1, 1024) for r, o in zip(real, obs))
        if not same:
            return {"stream": "B-composition", "input": inp, "impl": [[str(a), b] for a, b in real],
                    "model": [[str(Fraction(o[0][0], o[0][1])), o[1]] for o in obs],
                    "what": "reader model o writer model differs from SCCReader o SCCWriter"}
    return None


def evaluate(cases):
    """cases: list of caps. Returns list of (caps, sizes, rows, viol, dis, near)"""
    flat = [(1704, "\n".join(lines)) for caps in cases for lines, s, e in caps]
    info = oracle_batch(flat)
    out = []
    k = 0
    obs = []
    reqs = []
    for caps in cases:
        rows = [info[k + i][0] for i in range(len(caps))]
        sizes = [info[k + i][1] for i in range(len(caps))]
        k += len(caps)
        doc, rd = observe(caps)
        obs.append((caps, sizes, rows, doc, rd))
        wc = wire_caps(caps)
        reqs.append((1701, wc))
        reqs.append((1702, [wc, doc.v if isinstance(doc, Ok) else ""]))
        reqs.append((1703, [wc, rd.v if isinstance(rd, Ok) else []]))
        reqs.append((1705, wc))
    resp = oracle_batch(reqs)
    for i, (caps, sizes, rows, doc, rd) in enumerate(obs):
        m, v_out, v_rd, rt = resp[4 * i:4 * i + 4]
        model_doc = Ok(m[1]) if m[0] == 0 else Err(m[1])
        viol, dis = judge(caps, sizes, rows, doc, rd, model_doc, v_out, v_rd)
        if viol is None and dis is None and all(r <= 15 for r in rows):
            dis = judge_composition(caps, sizes, rd, rt)
        out.append((caps, sizes, rows, viol, dis, near_threshold(caps, sizes)))
    return out


def shrink(caps):
    """try single captions (re-scheduled alone) and prefixes while a violation of the same kind persists"""
    base = evaluate([caps])[0][3]
    if base is None:
        return caps, base
    best, bestv = caps, base
    cands = [caps[:k] for k in range(1, len(caps))] + [[c] for c in caps]
    for cand in cands:
        v = evaluate([cand])[0][3]
        if v is not None and v["kind"] == base["kind"] and len(cand) < len(best):
            best, bestv = cand, v
    return best, bestv


def build_cases(ctx):
    rng = ctx.rng
    n = ctx.n(700, 20000)
    texts_list = [gen_caps(ctx, None) for _ in range(n)]
    # fixed grid: one-letter cue, the design-time witnesses, boundary starts
    grid = [[["a"]], [["hello world number 0"]], [["aaaaaaaaaa bbbbbbbbbb cccccccc-dddddddddd eee"]],
            [["x" * 32], ["y" * 33]], [["a" * 80, "b" * 80, "c" * 80, "d" * 80]],
            [["ab"], ["cd"], ["ef"]], [["Ñandú ÷ çé", "íóú á"]]]
    # the known shape: more than 15 laid-out rows (4 lines x 4 rows)
    w17 = " ".join(["a" * 17] * 4)
    grid += [[[w17, w17, w17, w17]], [[w17 + " bbbbbbbb", w17, w17, w17 + " cc"], ["after"]]]
    texts_list = grid + texts_list
    flat = [(1704, "\n".join(lines)) for texts in texts_list for lines in texts]
    info = oracle_batch(flat)
    cases = []
    k = 0
    for texts in texts_list:
        sizes = [max(info[k + i][1], 8) for i in range(len(texts))]
        k += len(texts)
        spans = schedule(rng, texts, sizes)
        cases.append([(lines, s, e) for lines, (s, e) in zip(texts, spans)])
    return cases


RAISING_DOCS = [
    # a 34-column row: CaptionLineLengthError
    "Scenarist_SCC V1.0\n\n00:00:01:00\t94ae 94ae 9420 9420 9470 9470 " + " ".join(["6161"] * 17)
    + " 942c 942c 942f 942f\n\n00:00:05:00\t942c 942c\n\n",
    # a malformed timecode: CaptionReadTimingError
    "Scenarist_SCC V1.0\n\n0:0:1\t94ae 94ae 9420 9420 9470 9470 6162 942c 942c 942f 942f\n\n",
    # nothing to read: CaptionReadNoCaptions
    "Scenarist_SCC V1.0\n\n",
]
VALID_DOC = ("Scenarist_SCC V1.0\n\n00:00:01:00\t94ae 94ae 9420 9420 9470 9470 6162 e364 942c 942c 942f 942f\n\n"
             "00:00:03:00\t942c 942c\n\n")


def run_reused_reader(ctx, res, cases):
    """re-read with ONE long-lived SCCReader that has seen raising and non-raising documents before (and sees more of
    them between the re-reads): the result must be that of a fresh reader and satisfy the re-read oracle"""
    rng = ctx.rng
    reader = SCCReader()
    seen = []
    for d in RAISING_DOCS + [VALID_DOC]:
        seen.append(type(impl.call(lambda: reader.read(d))).__name__)
    reqs, rows = [], []
    for caps in cases:
        if rng.random() < 0.5:
            d = rng.choice(RAISING_DOCS + [VALID_DOC])
            impl.call(lambda: reader.read(d))
        cs = CaptionSet({"en-US": CaptionList([mk_caption(num(s), num(e), lines) for lines, s, e in caps])})
        doc = impl.call(lambda: SCCWriter().write(cs))
        if not isinstance(doc, Ok):
            continue

        def obs(r):
            out = impl.call(lambda: r.read(doc.v))
            if isinstance(out, Ok):
                lang = out.v.get_languages()[0]
                return Ok([[Fraction(c.start), c.get_text()] for c in out.v.get_captions(lang)])
            return out
        used, fresh = obs(reader), obs(SCCReader())
        rows.append((caps, doc.v, used, fresh))
        reqs.append((1703, [wire_caps(caps), used.v if isinstance(used, Ok) else []]))
    verdicts = oracle_batch(reqs)
    res["distribution"]["C_reread_with_a_used_reader"] = len(rows)
    res["distribution"]["C_reader_history_before"] = seen
    for (caps, doc, used, fresh), v in zip(rows, verdicts):
        res["evaluations"] += 1
        inp = [{"lines": lines, "start": str(s), "end": str(e)} for lines, s, e in caps]
        if isinstance(fresh, Ok) and (not isinstance(used, Ok) or v != 0):
            res["violations"].append({"kind": "reread-with-used-reader", "input": inp, "document": doc, "replay": "used-reader",
                                      "what": "an SCCReader that has read (and refused) other documents before re-reads the writer's "
                                              "output as %r instead of one caption per cue with the same words"
                                              % (used.v if isinstance(used, Ok) else impl.ERR_NAMES.get(used.code),),
                                      "fresh": [[str(a), b] for a, b in fresh.v]})
        elif isinstance(fresh, Ok) and used.v != fresh.v:
            res["disagreements"].append({"stream": "C", "input": inp, "impl": [[str(a), b] for a, b in used.v],
                                         "model": [[str(a), b] for a, b in fresh.v],
                                         "what": "a used SCCReader and a fresh one re-read the same document differently"})
        else:
            res["nontrivial"].add(("used-reader", doc))


def run(ctx):
    res = {"evaluations": 0, "nontrivial": set(), "violations": [], "disagreements": [], "distribution": {},
           "streams": 5, "notes": []}
    run_wrap(ctx, res)
    cases = build_cases(ctx)
    dist = res["distribution"]
    for key in ("B_cases", "B_near_threshold_excluded_from_equality", "B_rows_gt_15", "B_clear_removed",
                "B_wrapped", "B_long_word_split", "B_captions"):
        dist[key] = 0
    seen_kinds = set()
    for caps, sizes, rows, viol, dis, near in evaluate(cases):
        res["evaluations"] += 1
        dist["B_cases"] += 1
        dist["B_captions"] += len(caps)
        dist["B_near_threshold_excluded_from_equality"] += int(near)
        dist["B_rows_gt_15"] += int(any(r > 15 for r in rows))
        dist["B_wrapped"] += int(any(r > len(lines) for r, (lines, s, e) in zip(rows, caps)))
        dist["B_long_word_split"] += int(any(len(w) > 32 for lines, s, e in caps for l in lines for w in l.split()))
        key = tuple((tuple(lines), s, e) for lines, s, e in caps)
        if len(caps) > 1 or any(r > 1 for r in rows):
            res["nontrivial"].add(key)
        if viol is not None:
            if viol["kind"] not in seen_kinds and viol["kind"] != "more-than-15-rows":
                seen_kinds.add(viol["kind"])
                small, v2 = shrink(caps)
                if v2 is not None:
                    viol = v2
            res["violations"].append(viol)
        if dis is not None:
            res["disagreements"].append(dis)
    in_domain = [c for c in cases if all(len(l) <= 80 for lines, s, e in c for l in lines)][11:]
    run_reused_reader(ctx, res, in_domain[:ctx.n(200, 4000)])
    res["samples"] = [[{"lines": l, "start": str(s), "end": str(e)} for l, s, e in c] for c in cases[9:12]]
    res["rule"] = ("A: texts over the tree's basic character set (word lengths 1..40, space runs, hyphens, lengths "
                   "around the width), non-trivial = wraps to more than one row. B: API-built caption sets of 1-6 "
                   "cues x 1-4 lines x 1-80 characters with spacings from exactly the transmission time "
                   "(code words x 1001000/30 us) to seconds, clear-screen times around the 3-frame threshold, "
                   "starts on exact frame boundaries; non-trivial = more than one cue or a wrapped line "
                   "(distinct inputs counted).")
    res["clauses"] = {
        "theorem": ["every byte the writer can emit has odd parity (complete tables + induction over any text)",
                    "PAC rows addressed are exactly 16-n..15, within 1..15, for 1 <= n <= 15 laid-out rows",
                    "laid-out rows have at most 32 columns (all texts)",
                    "wrapping removes only whitespace (all texts); words of the rows refine the words of the text, "
                    "a word split only when longer than 32 (all texts over the basic set)",
                    "code string = four-hex-digit words each followed by a space; half words padded with 80",
                    "timecode frames non-negative and non-decreasing under the spacing hypothesis",
                    "load displayed within (start - 3 frames, start - 2 frames] (model of PASS 2/3)",
                    "spec decoder of the emitted body returns the laid-out rows (basic-set texts)"],
        "correspondence_only": ["textwrap.wrap itself (stream A validates the Coq model of it)",
                                "binary64 arithmetic of PASS 2 and _format_timestamp (exact model; exact-boundary "
                                "inputs counted as near_threshold)",
                                "re-reading through the real SCCReader: one caption per cue, same words, start time; the same "
                                "statement for the writer model composed with builder sccr's full reader model is evaluated "
                                "on every case (request 1705) and compared with the real pair; complete-table theorems for "
                                "every basic character through both models",
                                "document assembly of write() (header, line layout)"]}
    res["trusted_extra"] = ["Python's textwrap (modelled by coq/model/SccWrap.v for break_on_hyphens=False, no TABs; "
                            "validated by stream A on every run)",
                            "gen/gen_sccw.py (writer tables -> coq/model/GenSccw.v)"]
    return res


def replay(ctx, rec):
    if rec.get("replay") == "layout":
        t = rec["input"]
        cap = Caption(0, 1, [CaptionNode.create_text(t)])
        real = impl.call(lambda: SCCWriter._layout_line(cap))
        if not isinstance(real, Ok):
            return True, repr(real)
        rows = real.v.split("\n")
        bad = any(len(r) > 32 for r in rows) or "".join(real.v.split()) != "".join(t.split()) or \
            (all(len(x) <= 32 for x in t.split()) and real.v.split() != t.split())
        return bad, real.v
    if rec.get("replay") == "used-reader":
        reader = SCCReader()
        for d in RAISING_DOCS + [VALID_DOC]:
            impl.call(lambda: reader.read(d))
        caps = [(c["lines"], Fraction(c["start"]), Fraction(c["end"])) for c in rec["input"]]
        out = impl.call(lambda: reader.read(rec["document"]))
        if not isinstance(out, Ok):
            return True, repr(out)
        lang = out.v.get_languages()[0]
        got = [[Fraction(c.start), c.get_text()] for c in out.v.get_captions(lang)]
        v = oracle_batch([(1703, [wire_caps(caps), got])])[0]
        return v != 0, "verdict %s: %r" % (v, got[:3])
    if rec.get("replay") == "write":
        caps = [(c["lines"], Fraction(c["start"]), Fraction(c["end"])) for c in rec["input"]]
        caps_, sizes, rows, viol, dis, near = evaluate([caps])[0]
        return viol is not None, (viol or {}).get("what", "property oracle accepts the output")
    return False, "unknown replay kind"
