"""C17 - SCC writer output is structurally valid and re-reads to the same words.

Streams
  A  textwrap model: coq model.SccWrap.wrap(width, text) vs textwrap.wrap(text, width, break_on_hyphens=False)
     (the call SCCWriter._layout_line makes) on texts over the basic character set: word lengths 1..40,
     runs of spaces, leading/trailing spaces, hyphens, lengths around the width; widths 32 and others.
  B  caption sets built through the API: 1-40 cues (identical consecutive cues included) x 1-4 lines x 1-80 basic
     characters (whitespace-only lines and cues included), several TEXT nodes per line, STYLE nodes, layout_info, a second
     language, cue spacings from just feasible to sparse, ends after the next start, clear-screen thresholds,
     frame-boundary starts -> SCCWriter().write():
       property oracle: Coq spec.SpecSccw.ok_output on the implementation's document (Scenarist header, four-hex-digit
                        words - CRLF / trailing blanks tolerated -, parity of every byte, one pop-on load per cue in ANY
                        framing that selects pop-on mode and ends in one End-Of-Caption, distinct PAC rows within 1..15,
                        rows <= 32 columns, text kept up to breaking at spaces, timecodes non-decreasing, displayed
                        within 3 frames of start);
       re-read        : SCCReader().read(document) -> Coq ok_reread (one caption per cue, same words, start);
       correspondence : document == extracted model's document (model.SccWrite.write) - pycaption's exact framing is
                        checked HERE only; when a float decision sits on an exact boundary (near_threshold) the
                        timecodes and clear lines are exempt and the word payload of every load line is still compared.
     Outside the domain, compared with the model only: characters outside the basic set (special / extended / unknown).
     Outside the hypothesis (first cue earlier than its own transmission time, clamp at 0): structural clauses and
     model equality; 'visible within 3 frames' and the re-read are not judged.
     Known findings are keyed on the FAILURE: a case with a caption on more than 15 rows or a whitespace-only cue that
     fails is judged a second time with those cues (and their load lines) left out; only when everything else passes
     and the failure is the documented one ('xx' row address / blank cue dropped by the reader) it gets `failure=...`.
  C  one long-lived SCCReader that has read raising and valid documents re-reads the writer's output.
"""
import textwrap
from fractions import Fraction

import impl
from wire import Ok, Err, oracle_batch
from pycaption import SCCWriter, SCCReader, CaptionSet, CaptionList, Caption, CaptionNode
from pycaption.geometry import Layout, Alignment, HorizontalAlignmentEnum, VerticalAlignmentEnum
from pycaption.scc import constants as K

TABLES = ("GenSccw.v",)

MPC = Fraction(1001000, 30)
# cues shorter than the reader's documented minimum duration (0.05 s) are outside the domain (design/C17.md)
MIN_DURATION = 50000
BASIC = [c for c in K.CHARACTER_TO_CODE if len(c) == 1]          # whatever the tree says the basic set is
LETTERS = [c for c in BASIC if c.isalnum()]
PUNCT = [c for c in BASIC if not c.isalnum() and c != " "]

VERDICT = {1: "not-scenarist-hex-words", 2: "parity", 3: "loads-vs-captions", 4: "row-addressing",
           5: "row-longer-than-32", 6: "words-not-preserved", 7: "timecodes-decrease", 8: "not-visible-within-3-frames"}


# ---------------------------------------------------------------------------------------------------
def rand_word(rng, maxlen=40):
    r = rng.random()
    if r < 0.55:
        n = rng.randint(1, 9)
    elif r < 0.85:
        n = rng.randint(10, 31)
    elif r < 0.93:
        n = rng.choice([31, 32, 33])
    else:
        n = rng.randint(33, max(33, maxlen))
    n = min(n, maxlen)
    w = []
    for _ in range(n):
        q = rng.random()
        w.append(rng.choice(LETTERS) if q < 0.8 else ("-" if q < 0.9 else rng.choice(PUNCT)))
    return "".join(w)


def rand_line(rng, maxlen=80, spaces=True):
    target = rng.choice([rng.randint(1, 20), rng.randint(20, 40), rng.choice([30, 31, 32, 33, 34, 63, 64, 65, 66]),
                         rng.randint(min(40, maxlen), maxlen), maxlen])
    target = min(target, maxlen)
    s = ""
    if spaces and rng.random() < 0.08:
        s = " " * rng.randint(1, 3)
    while len(s) < target:
        w = rand_word(rng, min(40, max(1, target - len(s))))
        s += w
        if len(s) < target:
            s += " " if (not spaces or rng.random() < 0.9) else " " * rng.randint(2, 4)
    s = s[:maxlen]
    if not spaces or rng.random() < 0.9:
        s = s.strip(" ")
    return s            # may be whitespace only (leading blanks reaching the target): in the domain since wave 3


def wrap_texts(ctx):
    rng = ctx.rng
    out = []
    # boundary grid: two/three words whose lengths straddle the width
    for a in (1, 15, 16, 17, 30, 31, 32, 33, 40):
        for b in (1, 15, 16, 17, 31, 32, 33, 40):
            out.append((32, "a" * a + " " + "b" * b))
            out.append((32, "a" * a + "  " + "b" * b + " c"))
    out += [(32, ""), (32, " "), (32, "   "), (32, " " * 40 + "abc"), (32, "a" * 31 + " " + "b" * 40),
            (32, "   ab  cd   "), (32, "x" * 100), (32, "aaaaaaaaaa bbbbbbbbbb cccccccc-dddddddddd eee"),
            (32, "a-b-c-d-e-f-g-h-i-j-k-l-m-n-o-p-q-r-s-t-u-v-w-x-y-z"), (32, "- -- --- " * 9)]
    for _ in range(ctx.n(1500, 15000)):
        w = 32 if rng.random() < 0.7 else rng.randint(1, 45)
        out.append((w, rand_line(rng, rng.choice([20, 80, 80, 130]))))
    for _ in range(ctx.n(300, 3000)):
        # dense in spaces and hyphens
        n = rng.randint(0, 70)
        out.append((rng.choice([32, 32, 5, 10]), "".join(rng.choice("ab- -  x") for _ in range(n))))
    return out


def run_wrap(ctx, res):
    cases = wrap_texts(ctx)
    models = oracle_batch([(1700, [w, t]) for w, t in cases])
    for (w, t), m in zip(cases, models):
        res["evaluations"] += 1
        real = textwrap.wrap(t, w, break_on_hyphens=False)
        if len(real) > 1:
            res["nontrivial"].add(("wrap", w, t))
        if m != real:
            res["disagreements"].append({"stream": "A", "input": [w, t], "impl": real, "model": m,
                                         "what": "textwrap.wrap differs from the Coq model"})
    # the writer's own layout call on width 32 (ties break_on_hyphens / width in _layout_line)
    texts = [t for w, t in cases if w == 32 and t.strip(" ")][:ctx.n(400, 4000)]
    models = oracle_batch([(1700, [32, t]) for t in texts])
    for t, m in zip(texts, models):
        res["evaluations"] += 1
        cap = Caption(0, 1, [CaptionNode.create_text(t)])
        real = impl.call(lambda: SCCWriter._layout_line(cap))
        want = "\n".join(m)
        if not (isinstance(real, Ok) and real.v == want):
            rows = real.v.split("\n") if isinstance(real, Ok) else None
            bad = rows is None or any(len(r) > 32 for r in rows) or \
                "".join(real.v.split()) != "".join(t.split()) or \
                (all(len(x) <= 32 for x in t.split()) and real.v.split() != t.split())
            rec = {"stream": "A", "input": t, "impl": repr(real), "model": want,
                   "what": "SCCWriter._layout_line differs from the model of textwrap.fill(x, 32, break_on_hyphens=False)"}
            if bad:
                rec.update({"kind": "layout-breaks-inside-word", "replay": "layout"})
                res["violations"].append(rec)
            else:
                res["disagreements"].append(rec)
    res["distribution"]["A_wrap_cases"] = len(cases)
    res["distribution"]["A_layout_line_cases"] = len(texts)


# ---------------------------------------------------------------------------------------------------
# A case is {"caps": [{"lines": [...], "start": Fraction, "end": Fraction, "shape": {...}}], "flags": {...}}.
# shape: how the caption is built through the API (outside the model, which sees "\n".join(lines)):
#   cuts   {"<line index>": [positions]}  several TEXT nodes per line (also empty ones)
#   italic True                          STYLE nodes around the text
#   layout True                          a layout_info on the caption
# flags: second_language (a second language in the set; the writer takes the first), early_first (the first cue
# starts before its own transmission time: outside the hypothesis), extended (characters outside the basic set:
# outside the domain)
def mk_caption(start, end, lines, shape=None):
    shape = shape or {}
    nodes = []
    if shape.get("italic"):
        nodes.append(CaptionNode.create_style(True, {"italics": True}))
    for i, l in enumerate(lines):
        if i:
            nodes.append(CaptionNode.create_break())
        prev = 0
        for c in sorted((shape.get("cuts") or {}).get(str(i), [])) + [len(l)]:
            nodes.append(CaptionNode.create_text(l[prev:c]))
            prev = c
    if shape.get("italic"):
        nodes.append(CaptionNode.create_style(False, {"italics": True}))
    lay = None
    if shape.get("layout"):
        lay = Layout(alignment=Alignment(HorizontalAlignmentEnum.LEFT, VerticalAlignmentEnum.TOP))
    return Caption(start, end, nodes, layout_info=lay)


def num(x):
    """times handed to the API: int when integral, else the nearest float (the oracle and the model get the exact
    Fraction; the difference is below 2^-20 us and inputs on an exact boundary are counted as near_threshold)"""
    return int(x) if x.denominator == 1 else float(x)


def is_blank_text(lines):
    return not "".join(lines).strip(" ")


EXTENDED = sorted(K.SPECIAL_OR_EXTENDED_CHAR_TO_CODE) + ["\u20ac", "\u0416"]      # the last two: unknown -> 91b6


def gen_texts(rng, counts):
    """-> (list of (lines, shape), flags)"""
    r = rng.random()
    n = rng.choice([1, 1, 2, 3, 3, 4, 6]) if r < 0.8 else (rng.choice([7, 9, 12]) if r < 0.97 else rng.choice([25, 40]))
    flags = {}
    if rng.random() < 0.05:
        flags["second_language"] = True
    if rng.random() < 0.03:
        flags["extended"] = True
    out = []
    for ci in range(n):
        if out and rng.random() < 0.12:
            out.append((list(out[-1][0]), dict(out[-1][1])))         # identical consecutive cue
            counts["B_cue_identical_to_previous"] += 1
            continue
        k = rng.choice([1, 1, 2, 2, 3, 4])
        maxlen = 80 if rng.random() < 0.5 else 32
        lines = []
        for _ in range(k):
            if rng.random() < 0.03:
                lines.append(" " * rng.randint(1, 3))                # whitespace-only line (space is a basic character)
            else:
                lines.append(rand_line(rng, maxlen))
        counts["B_whitespace_only_line"] += sum(1 for l in lines if not l.strip(" "))
        if flags.get("extended"):
            li = rng.randrange(len(lines))
            pos = rng.randint(0, len(lines[li]))
            lines[li] = (lines[li][:pos] + rng.choice(EXTENDED) + lines[li][pos:])[:80]
        shape = {}
        if rng.random() < 0.3:
            shape["cuts"] = {str(li): sorted(rng.sample(range(len(l) + 1), min(len(l) + 1, rng.randint(1, 3))))
                             for li, l in enumerate(lines) if rng.random() < 0.7}
        if rng.random() < 0.1:
            shape["italic"] = True
        if rng.random() < 0.1:
            shape["layout"] = True
        out.append((lines, shape))
    return out, flags


def ceil_frac(x, unit):
    q = -((-x) // unit)
    return q * unit


def schedule(rng, sizes, flags):
    """sizes[i] = code words of caption i (incl. the 8 fixed ones). Returns list of (start, end) Fractions."""
    unit = rng.choice([1, 1, 1000, 100100, Fraction(1, 3)])
    mode = rng.choice(["just", "just", "tight", "sparse", "mixed"])
    spans = []
    prev_start = None
    for i, w in enumerate(sizes):
        need = w * MPC
        if mode == "just" or (mode == "mixed" and rng.random() < 0.5):
            slack = 0
        elif mode == "tight":
            slack = rng.choice([0, 1, 1000, 33367, 100100])
        else:
            slack = rng.randrange(0, 5 * 10**6)
        base = need if prev_start is None else prev_start + need
        start = ceil_frac(base + slack, unit)
        if prev_start is None and rng.random() < 0.3:
            start += rng.randrange(0, 3600 * 10**6 * rng.choice([1, 30])) // 100100 * 100100
        if prev_start is None and flags.get("early_first"):
            start = ceil_frac(need * Fraction(rng.randint(0, 15), 16), unit)      # earlier than it can be transmitted
        spans.append([start, None])
        if prev_start is not None:
            lo, hi = prev_start, start
            code_start = start - need
            r = rng.random()
            if r < 0.35:
                # around the clear-screen threshold: end + 3 frames >= code_start
                e = code_start - 3 * MPC + rng.choice([-1, 0, 0, 1, Fraction(1, 3), -100100])
                e = ceil_frac(e, unit) if rng.random() < 0.5 else e
            elif r < 0.55:
                e = hi
            elif r < 0.65:
                e = lo
            else:
                e = lo + (hi - lo) * Fraction(rng.randint(0, 16), 16)
                e = ceil_frac(e, unit)
            e = min(max(e, lo + MIN_DURATION), hi)
            if rng.random() < 0.06:
                e = hi + rng.choice([1, 33367, 10**6])                            # the cue ends after the next one starts
                flags["overlapping_end"] = True
            spans[i - 1][1] = e
        prev_start = start
    spans[-1][1] = spans[-1][0] + rng.choice([MIN_DURATION, MIN_DURATION + 1, 10**6, 4 * 10**6])
    return [(Fraction(s), Fraction(e)) for s, e in spans]


def near_threshold(caps, sizes):
    """some float decision of the writer sits on an exact boundary (frame floor or the >= of PASS 2)"""
    prev_end = None
    for c, w in zip(caps, sizes):
        s, e = c["start"], c["end"]
        cs = max(s - w * MPC, 0)
        for t in (cs, e):
            f = t * 30 / 1001000
            d = abs(f - round(f))
            if d < Fraction(1, 10**7):
                return True
        if prev_end is not None and abs(prev_end + 3 * MPC - cs) < Fraction(1, 10**4):
            return True
        prev_end = e
    return False


def reread(doc):
    rd = impl.call(lambda: SCCReader().read(doc))
    if isinstance(rd, Ok):
        lang = rd.v.get_languages()[0]
        rd = Ok([[Fraction(c.start), c.get_text()] for c in rd.v.get_captions(lang)])
    return rd


def observe(case):
    """-> (document or Err, reread obs or Err)"""
    langs = {"en-US": CaptionList([mk_caption(num(c["start"]), num(c["end"]), c["lines"], c.get("shape")) for c in case["caps"]])}
    if case["flags"].get("second_language"):
        langs["fr"] = CaptionList([mk_caption(1000000, 2000000, ["autre langue"])])
    cs = CaptionSet(langs)
    doc = impl.call(lambda: SCCWriter().write(cs))
    if not isinstance(doc, Ok):
        return doc, None
    return doc, reread(doc.v)


def wire_caps(caps):
    return [["\n".join(c["lines"]), c["start"], c["end"]] for c in caps]


def plain(case):
    return {"caps": [{"lines": c["lines"], "start": str(c["start"]), "end": str(c["end"]), "shape": c.get("shape") or {}}
                     for c in case["caps"]], "flags": case["flags"]}


def unplain(inp):
    return {"caps": [{"lines": c["lines"], "start": Fraction(c["start"]), "end": Fraction(c["end"]), "shape": c.get("shape") or {}}
                     for c in inp["caps"]], "flags": dict(inp.get("flags") or {})}


CLEAR = "942c 942c"


def doc_lines(doc):
    """[(timecode, words string)] of the non-empty lines after the header, or None"""
    ls = [l for l in doc.split("\n")[1:] if l.strip()]
    out = []
    for l in ls:
        if "\t" not in l:
            return None
        tc, ws = l.split("\t", 1)
        out.append((tc, ws.strip()))
    return out


def payload(doc):
    """the words of the load lines, in order (timecodes and clear lines left out)"""
    ls = doc_lines(doc)
    return None if ls is None else [ws for tc, ws in ls if ws != CLEAR]


def without_cues(doc, drop):
    """the document without the load lines (and their own clear lines) of the cues in `drop`; -> (doc, dropped loads)"""
    ls = doc_lines(doc)
    if ls is None:
        return None, []
    keep, dropped, k, skip_clear = [], [], -1, False
    for tc, ws in ls:
        if ws != CLEAR:
            k += 1
            skip_clear = k in drop
            if skip_clear:
                dropped.append(ws)
                continue
        elif skip_clear:
            skip_clear = False
            continue
        keep.append(tc + "\t" + ws)
    return doc.split("\n")[0] + "\n\n" + "".join(l + "\n\n" for l in keep), dropped


def verdict_of(case, doc, rd, v_out, v_rd):
    """the property verdict of one observation: None or (kind, what, extra)"""
    if not isinstance(doc, Ok):
        return ("write-raises", f"SCCWriter.write raised {impl.ERR_NAMES.get(doc.code, doc.code)}", {})
    if v_out != 0:
        return (VERDICT.get(v_out, str(v_out)), f"SCC output fails the property oracle: {VERDICT.get(v_out, v_out)}", {"document": doc.v})
    if not isinstance(rd, Ok):
        return ("reread-raises", f"SCCReader.read of the writer's output raised {impl.ERR_NAMES.get(rd.code, rd.code)}",
                {"document": doc.v})
    if v_rd != 0:
        return ("reread-" + VERDICT.get(v_rd, str(v_rd)), f"re-read captions fail the property oracle: {VERDICT.get(v_rd, v_rd)}",
                {"document": doc.v, "reread": [[str(a), b] for a, b in rd.v]})
    return None


def judge_composition(case, sizes, rd, rt):
    """writer model o reader model (request 1705): must satisfy the property on its own, and must equal what the real
    reader returned for the real writer's output (texts exactly, starts within 2^-10 us)"""
    inp = plain(case)
    status, obs, ok = rt
    if status != 0 or ok != 1:
        return {"stream": "B-composition", "input": inp, "model": [status, obs, ok],
                "what": "the writer model composed with the SCC reader model does not re-read to the same words "
                        "(status %d: 0 read, 1 writer error, 2 not a document, 3 reader refused)" % status}
    if isinstance(rd, Ok):
        # audit w7: texts and caption count are compared on EVERY case; only the starts depend on the float boundary
        real = rd.v
        near = near_threshold(case["caps"], sizes)
        same = len(real) == len(obs) and all(
            r[1] == o[1] and (near or abs(r[0] - Fraction(o[0][0], o[0][1])) <= Fraction(1, 1024)) for r, o in zip(real, obs))
        if not same:
            return {"stream": "B-composition", "input": inp, "impl": [[str(a), b] for a, b in real],
                    "model": [[str(Fraction(o[0][0], o[0][1])), o[1]] for o in obs],
                    "what": "reader model o writer model differs from SCCReader o SCCWriter"}
    return None


def judge_theorem_domain(case, rec, rd, special):
    """wave 7 (request 1706): on the decidable domain of the re-read theorems (C17_domain_predicate_sound) the theorems
    predict (round 4, unconditional): the reader model returns captions for the writer model's document (class 0) and they
    satisfy ok_reread (C17_reread_store, C17_roundtrip_ok).  Executed here against BOTH sides: the class
    the extracted composition reports, and the real SCCReader on the real SCCWriter's output (which must return
    captions: a refusal of an in-domain set is reported, with the model's class, as a broken correspondence)."""
    if not rec["thm_domain"] or not case["caps"]:       # (the class theorem is about non-empty lists)
        return None
    inp = plain(case)
    if rec["model_class"] != 0:
        return {"stream": "B-theorem-domain", "input": inp, "model": rec["model_class"],
                "what": "extracted composition contradicts C17_reread_class_on_domain / C17_roundtrip_ok (class %r)" % rec["model_class"]}
    if special or case["flags"].get("extended") or case["flags"].get("early_first"):
        # a mismatch between the harness's own domain flags and the theorem domain says nothing about pycaption: counted
        # (B_theorem_domain_but_not_judged), never an alarm; build_cases turns the generator's intentions into facts, so
        # the count is expected to be 0
        rec["domain_flag_mismatch"] = True
        return None
    if not isinstance(rd, Ok):
        return {"stream": "B-theorem-domain", "input": inp, "impl": repr(rd)[:200], "model": rec["model_class"],
                "what": "SCCReader refuses the SCCWriter output of a set inside the domain of the re-read theorems"}
    return None


def evaluate(cases):
    """-> list of dicts: case, sizes, rows, viol, dis, near, info"""
    flat = [(1704, "\n".join(c["lines"])) for case in cases for c in case["caps"]]
    info = oracle_batch(flat)
    obs, reqs, k = [], [], 0
    for case in cases:
        n = len(case["caps"])
        rows = [info[k + i][0] for i in range(n)]
        sizes = [info[k + i][1] for i in range(n)]
        k += n
        doc, rd = observe(case)
        obs.append((case, sizes, rows, doc, rd))
        wc = wire_caps(case["caps"])
        reqs += [(1701, wc), (1702, [wc, doc.v if isinstance(doc, Ok) else ""]),
                 (1703, [wc, rd.v if isinstance(rd, Ok) else []]), (1705, wc), (1706, wc)]
    resp = oracle_batch(reqs)
    # the reader model's answer class (request 1707) is only needed where it did not return captions (1705 status != 0)
    need = [i for i in range(len(obs)) if resp[5 * i + 3][0] != 0 and resp[5 * i + 4][0]]
    classes = dict(zip(need, oracle_batch([(1707, wire_caps(obs[i][0]["caps"])) for i in need]))) if need else {}
    out, second = [], []
    for i, (case, sizes, rows, doc, rd) in enumerate(obs):
        m, v_out, v_rd, rt, dom = resp[5 * i:5 * i + 5]
        model_doc = Ok(m[1]) if m[0] == 0 else Err(m[1])
        caps = case["caps"]
        near = near_threshold(caps, sizes)
        rec = {"case": case, "sizes": sizes, "rows": rows, "viol": None, "dis": None, "near": near, "doc": doc,
               "clear_removed": False, "thm_domain": bool(dom[0]),
               "model_class": 0 if rt[0] == 0 else classes.get(i)}
        inp = plain(case)
        base = {"input": inp, "replay": "write", "stream": "B"}
        special = {i for i, r in enumerate(rows) if r > 15} | {i for i, c in enumerate(caps) if is_blank_text(c["lines"])}
        if isinstance(doc, Ok):
            ls = doc_lines(doc.v)
            if ls is not None:
                rec["clear_removed"] = sum(1 for tc, ws in ls if ws == CLEAR) < len(caps)
        if case["flags"].get("extended"):
            verdict = None                # outside the domain: the document is compared with the model only
        elif case["flags"].get("early_first") and isinstance(doc, Ok):
            # outside the hypothesis (the first cue cannot be sent in time): the structural clauses are still judged,
            # 'visible within three frames' and the re-read are not
            verdict = None if v_out in (0, 8) else (VERDICT.get(v_out, str(v_out)),
                                                    f"SCC output fails the property oracle: {VERDICT.get(v_out, v_out)}", {"document": doc.v})
        else:
            verdict = verdict_of(case, doc, rd, v_out, v_rd)
        if verdict is not None and special:
            second.append((len(out), special, verdict))      # decide below whether the failure is the known one
        elif verdict is not None:
            rec["viol"] = dict(base, kind=verdict[0], what=verdict[1], **verdict[2])
        # correspondence with the model: exact document; on an exact float boundary only the payload of the load lines
        if rec["viol"] is None and verdict is None:
            if isinstance(model_doc, Ok) != isinstance(doc, Ok):
                rec["dis"] = {"stream": "B", "input": inp, "impl": repr(doc)[:300], "model": repr(model_doc)[:300]}
            elif isinstance(doc, Ok) and model_doc.v != doc.v and (not near or payload(model_doc.v) != payload(doc.v)):
                rec["dis"] = {"stream": "B", "input": inp, "impl": doc.v, "model": model_doc.v,
                              "what": "SCCWriter.write output differs from the model"
                                      + (" (payload of the load lines; timecodes exempt on an exact float boundary)" if near else "")}
            elif isinstance(doc, Ok) and payload(doc.v) is not None and \
                    [len(w.split()) for w in payload(doc.v)] != [max(z, 8) for z in sizes]:
                rec["dis"] = {"stream": "B", "input": inp, "impl": [len(w.split()) for w in payload(doc.v)], "model": sizes,
                              "what": "code words per load in the implementation's document differ from the model's sizes"}
            elif not special and not case["flags"].get("extended") and not case["flags"].get("early_first"):
                rec["dis"] = judge_composition(case, sizes, rd, rt)
        # audit w7: the theorem-domain judgement runs for EVERY case inside the domain, whatever else was found
        rec["dis_domain"] = judge_theorem_domain(case, rec, rd, special)
        out.append(rec)
    # cases with a caption on more than 15 rows or a whitespace-only cue that failed: judge the OTHER cues on their own
    reqs2 = []
    for idx, special, verdict in second:
        case, doc = out[idx]["case"], out[idx]["doc"]
        rest = [c for i, c in enumerate(case["caps"]) if i not in special]
        wc = wire_caps(rest)
        red, dropped = without_cues(doc.v, special) if isinstance(doc, Ok) else (None, [])
        rd2 = reread(red) if red is not None and rest else Ok([])
        out[idx]["second"] = (rest, red, dropped, rd2)
        reqs2 += [(1702, [wc, red if red is not None else ""]), (1703, [wc, rd2.v if isinstance(rd2, Ok) else []])]
    resp2 = oracle_batch(reqs2) if reqs2 else []
    for n, (idx, special, verdict) in enumerate(second):
        rec = out[idx]
        case = rec["case"]
        rest, red, dropped, rd2 = rec.pop("second")
        v_out2, v_rd2 = resp2[2 * n:2 * n + 2]
        base = {"input": plain(case), "replay": "write", "stream": "B"}
        sub = {"caps": rest, "flags": case["flags"]}
        v2 = ("write-raises", verdict[1], {}) if red is None else (verdict_of(sub, Ok(red), rd2, v_out2, v_rd2) if rest else None)
        many = [i for i in special if rec["rows"][i] > 15]
        blank = [i for i in special if is_blank_text(case["caps"][i]["lines"])]
        if v2 is not None:
            # the cues that are neither over-long nor blank fail on their own: an ordinary violation
            rec["viol"] = dict(base, kind=v2[0], what="with the captions %r left out (more than 15 rows / whitespace-only): %s"
                               % (sorted(special), v2[1]), **v2[2])
            continue
        viol = dict(base, kind=verdict[0], what=verdict[1], **verdict[2])
        if many and verdict[0] == "not-scenarist-hex-words" and any("xx" in w for w in dropped):
            viol["failure"] = "row-0-address-xx"
            viol["what"] = ("a caption laid out on more than 15 rows is written with the row-0 placeholder 'xx' as its row "
                            "address (all other cues of the set pass every clause): " + verdict[1])
        elif blank and not many and verdict[0].startswith("reread-"):
            viol["failure"] = "blank-cue-dropped-by-reader"
            viol["what"] = ("a cue whose text is whitespace only is written as a load without text and SCCReader returns no "
                            "caption for it (all other cues of the set re-read correctly): " + verdict[1])
        rec["viol"] = viol
    return out


def shrink(case):
    """try single captions and prefixes (times kept) while a violation of the same kind persists"""
    base = evaluate([case])[0]["viol"]
    if base is None:
        return case, base
    best, bestv = case, base
    caps = case["caps"]
    cands = [caps[:k] for k in range(1, len(caps))] + [[c] for c in caps]
    for cand in cands:
        cc = {"caps": cand, "flags": case["flags"]}
        v = evaluate([cc])[0]["viol"]
        if v is not None and v["kind"] == base["kind"] and v.get("failure") == base.get("failure") and len(cand) < len(best["caps"]):
            best, bestv = cc, v
    return best, bestv


def build_cases(ctx, counts):
    rng = ctx.rng
    n = ctx.n(600, 6000)        # thorough cut (audit w7): 20000 sets took > 40 min
    texts_list = [gen_texts(rng, counts) for _ in range(n)]
    w17 = " ".join(["a" * 17] * 4)                 # one line -> 4 rows
    w17x = w17 + " bbbbbbbb"                       # 80 characters, still 4 rows: no line of <= 80 characters gives 5
    P = lambda *lines: (list(lines), {})           # noqa: E731
    grid = [
        # one-letter cue, the design-time witnesses, boundary starts
        [P("a")], [P("hello world number 0")], [P("aaaaaaaaaa bbbbbbbbbb cccccccc-dddddddddd eee")],
        [P("x" * 32), P("y" * 33)], [P("a" * 80, "b" * 80, "c" * 80, "d" * 80)],
        [P("ab"), P("cd"), P("ef")], [P("Ñandú ÷ çé", "íóú á")],
        # identical consecutive cues
        [P("ab"), P("ab"), P("ab")], [P("same words", "twice"), P("same words", "twice"), P("other"), P("other")],
        # several text nodes per line, style nodes, layout
        [(["ab cd", "xy"], {"cuts": {"0": [0, 3, 5], "1": [1]}, "italic": True, "layout": True})],
        [(["abcdefgh"], {"cuts": {"0": [1, 2, 3]}}) for _ in range(3)],
        [(["a b c d e f g h i"], {"cuts": {"0": [1, 2, 3, 4, 5, 6, 7, 8, 9]}})],
        # whitespace-only line / cue
        [P("ab", "  ", "cd")], [P(" ab", "cd ")],
        [P("ab"), P("  "), P("cd")], [P("  ")], [P(" ", " ")],
        # 14 / 15 rows (the last valid ones), then the known shape: 16, 17, 20 rows
        [P(w17, w17, w17, "a" * 17 + " " + "a" * 17)], [P(w17, w17, w17, " ".join(["a" * 17] * 3))], [P(w17x, w17x, w17x)],
        [P(w17, w17, w17, w17)], [P(w17x, w17, w17, w17 + " cc"), P("after")], [P(w17x, w17x, w17x, w17x)],
        [P("before"), P(w17, w17, w17, w17), P("after one"), P("after two")],
        # five lines (outside the quantifier's 1-4 lines): 17 and 20 rows, Python's negative row index wraps around
        [P(w17, w17, w17, w17, "z")], [P(w17, w17, w17, w17, w17), P("after")],
        # 12 cues
        [P("cue %d" % i) for i in range(12)],
        # characters outside the basic set (outside the domain: model equality only)
        [P("caf\u00e9 \u00ae \u00bd \u266a"), P("\u00c1\u00c9 \u201cq\u201d \u20ac x")],
    ]
    cases_t = [(g, {}) for g in grid]
    cases_t[-1][1]["extended"] = True
    # the first cue starts before it can be transmitted (clamp at 0; outside the hypothesis)
    cases_t += [([P("this first cue starts too early to be sent")], {"early_first": True}),
                ([P("early", "first"), P("second cue")], {"early_first": True})]
    for t, f in texts_list:
        if rng.random() < 0.03:
            f["early_first"] = True
        cases_t.append((t, f))
    flat = [(1704, "\n".join(lines)) for texts, f in cases_t for lines, shape in texts]
    info = oracle_batch(flat)
    cases = []
    k = 0
    for texts, flags in cases_t:
        sizes = [max(info[k + i][1], 8) for i in range(len(texts))]
        k += len(texts)
        spans = schedule(rng, sizes, flags)
        cases.append({"caps": [{"lines": lines, "start": s, "end": e, "shape": shape} for (lines, shape), (s, e) in zip(texts, spans)],
                      "flags": flags, "sizes0": sizes[0] if sizes else 8})
    # fixed corpus (integrator, thorough seed 0): the flag said 'extended' / 'early_first' but the set is in fact inside the
    # domain (every character is in the tree's basic table; the start, rounded up to a frame, equals the transmission time)
    cases.append({"caps": [{"lines": ["R w:--S- C9kz  FMU\u00e78 \u00e9nwP\u00ed  NO!j", "%-IBRrJ#j\u00e1IPNZ iYbw6q8I[P#KrP]D4",
                                      "o\u00e7V@>sh-UYCx-B#+.Sb\u00e9a--OwCwJ\u00e7 e3", "!G-- i x\u00f1 3Vb)g\u00ed"],
                            "start": Fraction(2402400), "end": Fraction(2452400),
                            "shape": {"cuts": {"0": [0, 14, 30], "2": [10, 17], "3": [2, 10]}}}],
                  "flags": {"extended": True}, "sizes0": 72})
    cases.append({"caps": [{"lines": ["HW3vZ \u00fa0k27- c0OsKS[t\u00edhUE\u00edC\u00e9f$ygKXH\u00e1l"], "start": Fraction(1001000),
                            "end": Fraction(1051000), "shape": {"layout": True}}],
                  "flags": {"early_first": True}, "sizes0": 30})
    # the flags are the generator's INTENTIONS; what the harness judges by must be FACTS (an 'extended' character can be cut
    # off at 80 columns or be absent from a copied cue; an 'early' start rounded up to a frame can be feasible after all)
    basic = set(BASIC)
    for case in cases:
        f = dict(case["flags"])
        has_ext = any(ch not in basic for c in case["caps"] for l in c["lines"] for ch in l)
        early = bool(case["caps"]) and case["caps"][0]["start"] < case.pop("sizes0") * MPC
        for name, fact in (("extended", has_ext), ("early_first", early)):
            if f.get(name) and not fact:
                del f[name]
                counts["B_flag_%s_not_realised(judged as in-domain)" % name] = counts.get("B_flag_%s_not_realised(judged as in-domain)" % name, 0) + 1
            elif fact and not f.get(name):
                f[name] = True
        case["flags"] = f
    return cases


RAISING_DOCS = [
    # a 34-column row: CaptionLineLengthError
    "Scenarist_SCC V1.0\n\n00:00:01:00\t94ae 94ae 9420 9420 9470 9470 " + " ".join(["6161"] * 17)
    + " 942c 942c 942f 942f\n\n00:00:05:00\t942c 942c\n\n",
    # a malformed timecode: CaptionReadTimingError
    "Scenarist_SCC V1.0\n\n0:0:1\t94ae 94ae 9420 9420 9470 9470 6162 942c 942c 942f 942f\n\n",
    # nothing to read: CaptionReadNoCaptions
    "Scenarist_SCC V1.0\n\n",
]
VALID_DOC = ("Scenarist_SCC V1.0\n\n00:00:01:00\t94ae 94ae 9420 9420 9470 9470 6162 e364 942c 942c 942f 942f\n\n"
             "00:00:03:00\t942c 942c\n\n")


def run_reused_reader(ctx, res, cases):
    """re-read with ONE long-lived SCCReader that has seen raising and non-raising documents before (and sees more of
    them between the re-reads): the result must be that of a fresh reader and satisfy the re-read oracle"""
    rng = ctx.rng
    reader = SCCReader()
    seen = []
    for d in RAISING_DOCS + [VALID_DOC]:
        seen.append(type(impl.call(lambda: reader.read(d))).__name__)
    reqs, rows = [], []
    for case in cases:
        if rng.random() < 0.5:
            d = rng.choice(RAISING_DOCS + [VALID_DOC])
            impl.call(lambda: reader.read(d))
        doc, _ = observe(case)
        if not isinstance(doc, Ok):
            continue

        def obs(r):
            out = impl.call(lambda: r.read(doc.v))
            if isinstance(out, Ok):
                lang = out.v.get_languages()[0]
                return Ok([[Fraction(c.start), c.get_text()] for c in out.v.get_captions(lang)])
            return out
        used, fresh = obs(reader), obs(SCCReader())
        rows.append((case, doc.v, used, fresh))
        reqs.append((1703, [wire_caps(case["caps"]), used.v if isinstance(used, Ok) else []]))
    verdicts = oracle_batch(reqs)
    res["distribution"]["C_reread_with_a_used_reader"] = len(rows)
    res["distribution"]["C_reader_history_before"] = seen
    for (case, doc, used, fresh), v in zip(rows, verdicts):
        res["evaluations"] += 1
        inp = plain(case)
        if isinstance(fresh, Ok) and (not isinstance(used, Ok) or v != 0):
            res["violations"].append({"kind": "reread-with-used-reader", "input": inp, "document": doc, "replay": "used-reader",
                                      "what": "an SCCReader that has read (and refused) other documents before re-reads the writer's "
                                              "output as %r instead of one caption per cue with the same words"
                                              % (used.v if isinstance(used, Ok) else impl.ERR_NAMES.get(used.code),),
                                      "fresh": [[str(a), b] for a, b in fresh.v]})
        elif isinstance(fresh, Ok) and used.v != fresh.v:
            res["disagreements"].append({"stream": "C", "input": inp, "impl": [[str(a), b] for a, b in used.v],
                                         "model": [[str(a), b] for a, b in fresh.v],
                                         "what": "a used SCCReader and a fresh one re-read the same document differently"})
        else:
            res["nontrivial"].add(("used-reader", doc))


def run(ctx):
    res = {"evaluations": 0, "nontrivial": set(), "violations": [], "disagreements": [], "distribution": {},
           "streams": 5, "notes": []}
    run_wrap(ctx, res)
    dist = res["distribution"]
    for key in ("B_cases", "B_near_threshold(timecodes exempt, payload compared)", "B_rows_gt_15", "B_clear_removed",
                "B_wrapped", "B_long_word_split", "B_captions", "B_cue_identical_to_previous", "B_whitespace_only_line",
                "B_whitespace_only_cue", "B_more_than_6_cues", "B_several_text_nodes_per_line", "B_style_nodes",
                "B_layout_info", "B_second_language", "B_cue_ends_after_next_start",
                "B_first_cue_before_its_transmission_time(outside the hypothesis; structural clauses and model equality only)",
                "B_characters_outside_basic_set(outside the domain; model equality only)",
                "B_inside_domain_of_reread_theorems(request 1706)", "B_judged_for_reread_but_outside_theorem_domain",
                "B_theorem_domain_model_returns_captions", "B_theorem_domain_model_refuses(contradicts C17_reread_store)"):
        dist[key] = 0
    cases = build_cases(ctx, dist)
    rows_hist = {}
    seen_kinds = set()
    for rec in evaluate(cases):
        case, rows, viol, dis = rec["case"], rec["rows"], rec["viol"], rec["dis"]
        caps, flags = case["caps"], case["flags"]
        res["evaluations"] += 1
        dist["B_cases"] += 1
        dist["B_captions"] += len(caps)
        dist["B_near_threshold(timecodes exempt, payload compared)"] += int(rec["near"])
        dist["B_rows_gt_15"] += int(any(r > 15 for r in rows))
        dist["B_clear_removed"] += int(rec["clear_removed"])
        dist["B_wrapped"] += int(any(r > len(c["lines"]) for r, c in zip(rows, caps)))
        dist["B_long_word_split"] += int(any(len(w) > 32 for c in caps for l in c["lines"] for w in l.split()))
        dist["B_whitespace_only_cue"] += int(any(is_blank_text(c["lines"]) for c in caps))
        dist["B_more_than_6_cues"] += int(len(caps) > 6)
        dist["B_several_text_nodes_per_line"] += int(any(c["shape"].get("cuts") for c in caps))
        dist["B_style_nodes"] += int(any(c["shape"].get("italic") for c in caps))
        dist["B_layout_info"] += int(any(c["shape"].get("layout") for c in caps))
        dist["B_second_language"] += int(bool(flags.get("second_language")))
        dist["B_cue_ends_after_next_start"] += int(bool(flags.get("overlapping_end")))
        dist["B_first_cue_before_its_transmission_time(outside the hypothesis; structural clauses and model equality only)"] += \
            int(bool(flags.get("early_first")))
        dist["B_characters_outside_basic_set(outside the domain; model equality only)"] += int(bool(flags.get("extended")))
        dist["B_inside_domain_of_reread_theorems(request 1706)"] += int(rec["thm_domain"])
        judged = not (flags.get("extended") or flags.get("early_first") or any(r > 15 for r in rows)
                      or any(is_blank_text(c["lines"]) for c in caps))
        dist["B_judged_for_reread_but_outside_theorem_domain"] += int(judged and not rec["thm_domain"])
        if judged and not rec["thm_domain"]:
            why = ("end_after_next_start" if flags.get("overlapping_end") else
                   "other(" + ",".join(sorted(k for k, v in flags.items() if v)) + ")")
            dist.setdefault("B_judged_outside_theorem_domain_why", {})
            dist["B_judged_outside_theorem_domain_why"][why] = dist["B_judged_outside_theorem_domain_why"].get(why, 0) + 1
        dist["B_theorem_domain_model_returns_captions"] += int(rec["thm_domain"] and rec["model_class"] == 0)
        dist["B_theorem_domain_model_refuses(contradicts C17_reread_store)"] += int(rec["thm_domain"] and rec["model_class"] in (1, 2))
        for r in rows:
            rows_hist[r] = rows_hist.get(r, 0) + 1
        key = tuple((tuple(c["lines"]), c["start"], c["end"]) for c in caps)
        if len(caps) > 1 or any(r > 1 for r in rows):
            res["nontrivial"].add(key)
        if viol is not None:
            k = (viol["kind"], viol.get("failure"))
            if k not in seen_kinds:
                seen_kinds.add(k)
                small, v2 = shrink(case)
                if v2 is not None:
                    viol = v2
            res["violations"].append(viol)
        if dis is not None:
            res["disagreements"].append(dis)
        if rec.get("dis_domain") is not None:
            res["disagreements"].append(rec["dis_domain"])
        dist["B_theorem_domain_but_not_judged(harness flag mismatch; expected 0)"] = \
            dist.get("B_theorem_domain_but_not_judged(harness flag mismatch; expected 0)", 0) + int(bool(rec.get("domain_flag_mismatch")))
        dist["B_theorem_domain_cases_judged(= inside domain)"] = dist.get("B_theorem_domain_cases_judged(= inside domain)", 0) + int(rec["thm_domain"])
    dist["B_rows_per_caption"] = {str(k): v for k, v in sorted(rows_hist.items())}
    in_domain = [c for c in cases[30:] if all(len(l) <= 80 for cp in c["caps"] for l in cp["lines"])
                 and not c["flags"].get("extended") and not c["flags"].get("early_first")
                 and not any(is_blank_text(cp["lines"]) for cp in c["caps"])]
    run_reused_reader(ctx, res, in_domain[:ctx.n(200, 1500)])
    res["samples"] = [plain(c) for c in cases[9:12]]
    res["rule"] = ("A: texts over the tree's basic character set (word lengths 1..40, space runs, hyphens, lengths "
                   "around the width), non-trivial = wraps to more than one row. B: API-built caption sets of 1-40 "
                   "cues (identical consecutive cues, several text nodes per line, style nodes, layout, second language) "
                   "x 1-4 lines x 1-80 characters (whitespace-only lines and cues included) with spacings from exactly the transmission time "
                   "(code words x 1001000/30 us) to seconds, clear-screen times around the 3-frame threshold, "
                   "starts on exact frame boundaries; non-trivial = more than one cue or a wrapped line "
                   "(distinct inputs counted).")
    res["clauses"] = {
        "theorem": ["COMPOSED: for sets over the basic set, <= 15 rows per caption, cues ordered / not overlapping / each "
                    "starting its own transmission time after the previous start, the model's document gets verdict 0 "
                    "from the property oracle ok_output (C17_write_meets_oracle)",
                    "every byte the writer can emit has odd parity (complete tables + induction over any text)",
                    "PAC rows addressed are exactly 16-n..15, within 1..15, for 1 <= n <= 15 laid-out rows",
                    "laid-out rows have at most 32 columns (all texts)",
                    "wrapping removes only whitespace (all texts); words of the rows refine the words of the text, "
                    "a word split only when longer than 32 (all texts over the basic set)",
                    "code string = four-hex-digit words each followed by a space; half words padded with 80",
                    "timecode frames non-negative and non-decreasing under the spacing hypothesis",
                    "load displayed within (start - 3 frames, start - 2 frames] (model of PASS 2/3)",
                    "spec decoder of the emitted body returns the laid-out rows (basic-set texts)",
                    "wave 7: builder sccr's reader model on the writer's own layout, all texts: one load line closes the "
                    "caption on display and queues a buffer with exactly the words of the rows (C17_reader_on_load_line); "
                    "on the whole document the decoder never raises and its caption store holds one caption per cue with the "
                    "same words and a start within three frames (C17_reader_store_on_written_document); whenever the reader model returns "
                    "captions they satisfy ok_reread; round 4: the line-length scan and the flash check never refuse such a store, "
                    "so the reader model returns one caption per cue with the same words, start within three frames, for every "
                    "list of the domain (C17_reread_store, C17_roundtrip_ok)"],
        "correspondence_only": ["textwrap.wrap itself (stream A validates the Coq model of it)",
                                "binary64 arithmetic of PASS 2 and _format_timestamp (exact model; exact-boundary "
                                "inputs counted as near_threshold)",
                                "join of a caption's text nodes, style nodes, layout, language choice, deepcopy (API shapes of "
                                "stream B; the model sees the joined text)",
                                "re-reading through the real SCCReader: one caption per cue, same words, start time; the same "
                                "statement for the writer model composed with builder sccr's full reader model is evaluated "
                                "on every case (request 1705) and compared with the real pair; complete-table theorems for "
                                "every basic character through both models; round 4: a THEOREM for the reader model on the "
                                "whole domain of C17_reread_store (cues that end after the next start are outside it and "
                                "judged by execution only; requests 1706 / 1707 evaluate domain and answer class on every case)",
                                "document assembly of write() (header, line layout)"]}
    res["trusted_extra"] = ["Python's textwrap (modelled by coq/model/SccWrap.v for break_on_hyphens=False, no TABs; "
                            "validated by stream A on every run)",
                            "gen/gen_sccw.py (writer tables -> coq/model/GenSccw.v)"]
    return res


def replay(ctx, rec):
    if rec.get("replay") == "layout":
        t = rec["input"]
        cap = Caption(0, 1, [CaptionNode.create_text(t)])
        real = impl.call(lambda: SCCWriter._layout_line(cap))
        if not isinstance(real, Ok):
            return True, repr(real)
        rows = real.v.split("\n")
        bad = any(len(r) > 32 for r in rows) or "".join(real.v.split()) != "".join(t.split()) or \
            (all(len(x) <= 32 for x in t.split()) and real.v.split() != t.split())
        return bad, real.v
    if rec.get("replay") == "used-reader":
        reader = SCCReader()
        for d in RAISING_DOCS + [VALID_DOC]:
            impl.call(lambda: reader.read(d))
        caps = unplain(rec["input"])["caps"]
        out = impl.call(lambda: reader.read(rec["document"]))
        if not isinstance(out, Ok):
            return True, repr(out)
        lang = out.v.get_languages()[0]
        got = [[Fraction(c.start), c.get_text()] for c in out.v.get_captions(lang)]
        v = oracle_batch([(1703, [wire_caps(caps), got])])[0]
        return v != 0, "verdict %s: %r" % (v, got[:3])
    if rec.get("replay") == "write":
        viol = evaluate([unplain(rec["input"])])[0]["viol"]
        return viol is not None, (viol or {}).get("what", "property oracle accepts the output")
    return False, "unknown replay kind"
