"""C12 - positioning survives DFXP round trips and maps faithfully to WebVTT settings.

Streams
  A  cue settings of one-caption sets through the PUBLIC WebVTTWriter.write (layouts x relativize x fit x video sizes):
     model vtt_convert_positioning (1305); oracle ok_vtt_arith (1310) on the layout the settings are computed from:
     align omitted iff center, position = x + left padding, line = y + top padding, size = width - horizontal paddings,
     all percentages.  Layouts without an origin / not resolvable to percentages and refusals: counted (C13).
  B  WebVTTWriter end to end: one distinct timing line per caption, equal to its times; one cue per maximal run of equal
     node-level layouts (own layout, else the enclosing style span's) with the run's words; every cue's settings judged by
     1310; model vtt_caption (1308).  Captions with a text node that has no node-level layout: counted, not tied.
     Cue settings read from a WebVTT document are written back verbatim (read -> write, every writer configuration,
     mixed-case and tab-separated settings).
  C  DFXP write -> read: every visible word keeps its effective layout (node > caption > language; absent parts ->
     start / after; values within 1/200 of the exact transformed ones).  Random sets (levels subsets, shared / near-equal
     layouts, spans with / without layout, text inside a span without own layout, BREAK nodes with layouts, unbalanced
     style nodes, set-level layouts, absolute units with relativize off, Padding with omitted parts) and exhaustive grids:
     language x caption x span layouts incl. the DFXP default and an empty Alignment at every level x nesting depth;
     all 6x4 alignment pairs at 3 levels; all 16 masks of omitted padding parts; 14 layouts in one set; set-level cases.
     Expected = Coq ok_effective (1201) over the layouts transformed by dfxp_transform (1306); the tree model
     (DfxpTree.v, request 1210) is compared word by word.  Known-finding kinds are assigned only when the observed
     layout is exactly the recorded failure (the layout of the element the writer puts the word in = the model's).
"""
import re
from fractions import Fraction

import impl
import geom
import posgen
import dfxpdoc7
from geom import exact, Some
from wire import Ok, Err, oracle_batch, r_result
from pycaption import DFXPWriter, DFXPReader, WebVTTWriter, WebVTTReader
try:
    from pycaption.dfxp.base import DFXP_DEFAULT_REGION_ID
except ImportError:                      # the constant moved: the default region is then recognised by its usual id
    DFXP_DEFAULT_REGION_ID = "bottom"

TABLES = ("GenGeom.v",)
HN = ["left", "center", "right", "start", "end"]
DIMS = [(640, 360), (1920, 1080), (None, None), (None, 360)]


def build_with_history(acs, history, cs=None):
    """the CaptionSet object of acs (or the given one) after the prior writes `history` = [(fmt, (rel, fit, w, h)), ...] on
    that same object; their documents are not judged here (each is judged, for its own options, by the plain streams)"""
    cs = posgen.build(acs) if cs is None else cs
    for fmt, (rel, fit, w, h) in history or ():
        W = DFXPWriter if fmt == "dfxp" else WebVTTWriter
        impl.call(lambda: W(relativize=rel, fit_to_screen=fit, video_width=w, video_height=h).write(cs))
    return cs


def oq(x):
    return None if x is None else Some(exact(x))


def parse_settings(s):
    """' align:left position:10% line:5% size:50%' -> dict; None if some token is not name:value"""
    d = {}
    for tok in s.split(" "):
        if not tok:
            continue
        if ":" not in tok:
            return None
        k, v = tok.split(":", 1)
        d[k] = v
    return d


def settings_wire(d):
    """parsed computed settings -> wire vtt_settings (None when a value is not a printed percentage/size)"""
    def sz(k):
        if k not in d:
            return None
        m = re.match(r"^(-?\d+(?:\.\d+)?)(px|em|%|c|pt)$", d[k])
        if not m:
            raise ValueError(k)
        return Some([Fraction(m.group(1)), geom.UNIT_NAMES.index(m.group(2))])
    al = None
    if "align" in d:
        if d["align"] not in HN:
            raise ValueError("align")
        al = Some(HN.index(d["align"]))
    return [al, sz("position"), sz("line"), sz("size")]


def same_out(model, s, printed):
    """model vtt_out (wire) vs the implementation's settings string"""
    if model[0] == 0:
        return s == ""
    if model[0] == 1:
        return s == " " + model[1]
    d = parse_settings(s)
    if d is None:
        return False
    al = geom.r_o(model[1], lambda x: x)
    if d.get("align") != (None if al is None else HN[al]):
        return False
    for k, x in zip(("position", "line", "size"), model[2:5]):
        size = geom.r_o(x, geom.r_size)
        if size is None:
            if k in d:
                return False
        elif k not in d or not printed.match([d[k]], [size]):
            return False
    return set(d) <= {"align", "position", "line", "size"}


# ------------------------------------------------------------------------------------------------ A
def settings_via_write(lay, rel, fit, w, h):
    """cue settings of a one-caption set whose caption carries `lay`, through the PUBLIC WebVTTWriter.write"""
    from pycaption import CaptionSet, CaptionList, Caption, CaptionNode
    cs = CaptionSet({"en-US": CaptionList([Caption(2000000, 3500000, [CaptionNode.create_text("word")], layout_info=lay)])})
    r = impl.call(lambda: WebVTTWriter(relativize=rel, fit_to_screen=fit, video_width=w, video_height=h).write(cs))
    if isinstance(r, Err):
        return r
    cues = vtt_cues(r.v)
    if len(cues) != 1:
        return Err(109)
    return Ok(cues[0][1])


def stream_settings(ctx, res, printed):
    rng = ctx.rng
    cases = []
    vals = [0, 5, 10, 12.5, 33.33, 50, 90, 95, 100]
    # grid: all alignment pairs x padding presence x extent presence, origins over the value grid
    for h in [None, 0, 1, 2, 3, 4]:
        for v in [None, 0, 1, 2]:
            for pad in (False, True):
                for ext in (False, True):
                    x, y = rng.choice(vals), rng.choice(vals)
                    l = (((x, 2), (y, 2)), ((rng.choice(vals), 2), (rng.choice(vals), 2)) if ext else None,
                         tuple((rng.choice([0, 1, 2.5, 5, 10]), 2) for _ in range(4)) if pad else None,
                         (h, v), None)
                    cases.append((l, rng.random() < 0.5, False, (None, None)))
    for _ in range(ctx.n(2300, 60000)):
        r = rng.random()
        if r < 0.6:
            l = posgen.gen_layout(rng, (2,), p_none=0.25)
        elif r < 0.85:
            l = posgen.gen_layout(rng, rng.choice([(0,), (0, 2), (0, 1, 2, 3, 4)]), p_none=0.25)
        else:
            l = posgen.gen_layout(rng, (2,), p_none=0.5)
            l = l[:4] + (rng.choice(["", "align:left", "position:10%,start line:5% size:50%", "line:-1"]),)
        cases.append((l, rng.random() < 0.6, rng.random() < 0.4, rng.choice(DIMS)))
    obs, reqs_m, reqs_t = [], [], []
    for l, rel, fit, (w, h) in cases:
        lay = geom.mk_layout(l)
        obs.append(settings_via_write(lay, rel, fit, w, h))
        wl = geom.w_layout(lay)
        reqs_m.append((1305, [[rel, fit, oq(w), oq(h)], Some(wl)]))
        reqs_t.append((1302, [rel, fit, oq(w), oq(h), wl]))
    models = oracle_batch(reqs_m)
    trans = oracle_batch(reqs_t)
    texts = oracle_batch([(1321, a) for _, a in reqs_m])     # wave 7: the settings TEXT of the model (model/VttText.v)
    text_same = text_tie = text_neg = 0
    ok_reqs, ok_idx = [], []
    outside = 0
    refused = 0
    for i, ((l, rel, fit, (w, h)), o, m, t) in enumerate(zip(cases, obs, models, trans)):
        res["evaluations"] += 1
        mm = r_result(m)
        mt = r_result(texts[i])
        if isinstance(o, Ok) and isinstance(mt, Ok):
            if o.v == mt.v:
                text_same += 1
            elif isinstance(mm, Ok) and mm.v[0] == 2 and any(x != [] and x[0][0][0] < 0 for x in mm.v[2:5]):
                text_neg += 1        # a negative length (paddings wider than the cue) is outside the size language: not compared as text
            elif [x.split(":")[0] for x in o.v.split()] == [x.split(":")[0] for x in mt.v.split()] and same_out(mm.v, o.v, printed):
                text_tie += 1        # same keys in the same order, a value printed on the other side of a binary64 rounding tie
            else:
                res["disagreements"].append({"replay": "settings", "input": [l, rel, fit, w, h], "stream": "settings-text",
                                             "impl": o.v, "model": mt.v})
        base = {"replay": "settings", "input": [l, rel, fit, w, h]}
        if isinstance(o, Err) or isinstance(mm, Err):
            refused += 1         # refusal / error class: C13's business - counted
            continue
        # property oracle (and the tie to the model): percentage layout with an origin, or raw settings (verbatim);
        # layouts without an origin / not resolvable to percentages are outside the statement: counted
        tl = r_result(t, geom.r_layout)
        in_domain = not (isinstance(tl, Err) or tl.v[0] is None or not all(s[1] == 2 for part in tl.v[:3] if part for s in part)) \
            and (rel or all(s[1] == 2 for part in l[:3] if part for s in part if s is not None))
        if l[4]:
            if o.v != " " + l[4]:
                res["violations"].append(dict(base, kind="vtt-verbatim", impl_obs=o.v,
                                              what=f"raw cue settings {l[4]!r} of the caption's layout were written as {o.v!r}"))
            continue
        if not in_domain:
            outside += 1
            continue
        if not same_out(mm.v, o.v, printed):
            res["disagreements"].append(dict(base, stream="settings", impl=o.v, model=repr(mm.v)))
        d = parse_settings(o.v)
        try:
            ws = settings_wire(d)
        except (ValueError, TypeError):
            res["violations"].append(dict(base, kind="vtt-settings-malformed", impl_obs=o.v,
                                          what=f"cue settings {o.v!r} for layout {l!r}: not align/position/line/size as percentages"))
            continue
        res["nontrivial"].add(("settings", repr(l), rel, fit, w, h))
        ok_reqs.append((1310, [geom.a_layout_w(tl.v), ws]))
        ok_idx.append(i)
    for i, ok in zip(ok_idx, oracle_batch(ok_reqs)):
        if ok != 1:
            l, rel, fit, (w, h) = cases[i]
            res["violations"].append({"replay": "settings", "input": [l, rel, fit, w, h], "kind": "vtt-settings-arithmetic",
                                      "impl_obs": obs[i].v,
                                      "what": f"cue settings {obs[i].v!r} for layout {l!r} (relativize={rel}, fit={fit}): not align "
                                              f"(omitted iff center) / position = x + left padding / line = y + top padding / "
                                              f"size = width - left - right padding"})
    res["distribution"]["settings_cases"] = len(cases)
    res["distribution"]["settings_text_identical_to_the_model's(request 1321) / differing by a rounding tie only / negative size (not compared)"] = \
        [text_same, text_tie, text_neg]
    res["distribution"]["settings_arithmetic_checked"] = len(ok_idx)
    res["distribution"]["settings_cases_outside_the_statement(no origin / not resolvable to percentages: counted)"] = outside
    res["distribution"]["settings_cases_refused_or_raising(C13: counted)"] = refused


# ------------------------------------------------------------------------------------------------ B
def vtt_cues(doc):
    """[(timing 'a --> b', settings string incl. leading space or '', text)]"""
    out = []
    for block in doc.split("\n\n")[1:]:
        lines = block.split("\n")
        for i, line in enumerate(lines):
            m = re.match(r"^(\S+ --> \S+)(.*)$", line)
            if m:
                # a caption split into several cues is written as consecutive timing/text pairs without a blank line
                j = i + 1
                text = []
                while j < len(lines) and "-->" not in lines[j]:
                    text.append(lines[j])
                    j += 1
                out.append((m.group(1), m.group(2), "\n".join(text)))
    return out


def geo(l):
    return None if l is None else geom.float_layout(posgen.tup(l))[:4]


def spec_runs(nodes, own_only=False):
    """statement: maximal runs of text nodes with equal node-level layouts -> [(layout, [words])].
    node level (DESIGN 7.0 ix, the same reading as on the DFXP side): the text node's own layout, else the layout of the
    nearest enclosing STYLE span; own_only: what WebVTTWriter looks at (the text node's own layout only)"""
    levels = posgen.node_levels(nodes)
    runs = []
    for i, n in enumerate(nodes):
        if n[0] != "text":
            continue
        lay = n[-1] if own_only else (None if levels[i] is None else nodes[levels[i]][-1])
        if runs and geo(runs[-1][0]) == geo(lay):
            runs[-1] = (lay, runs[-1][1] + [n[1]])
        else:
            runs.append((lay, [n[1]]))
    return runs


def span_conflict(nodes):
    """a STYLE START node with a layout, followed (before its end node) by a text node whose own layout is another one"""
    for i, n in enumerate(nodes):
        if n[0] in ("style", "ustyle") and n[1] and posgen.has_parts(n[-1]):
            for m in nodes[i + 1:]:
                if m[0] in ("style", "ustyle") and not m[1]:
                    break
                if m[0] == "text" and posgen.has_parts(m[-1]) and geo(m[-1]) != geo(n[-1]):
                    return True
    return False


def first_truthy_layout(*ls):
    for l in ls:
        if l is not None and (posgen.has_parts(l) or bool(posgen.tup(l)[4])):
            return l
    return None


def timing_of(k):
    """the timing line of the k-th caption built by posgen.build"""
    def ts(us):
        ms = us // 1000
        return f"{(ms // 60000) % 60:02}:{(ms // 1000) % 60:02}.{ms % 1000:03}"
    return f"{ts((k + 1) * 2000000)} --> {ts((k + 1) * 2000000 + 1500000)}"


def runs_match(runs, mine):
    if len(mine) != len(runs):
        return False
    for (lay, words), cu in zip(runs, mine):
        if not all(wd in cu[2] for wd in words):
            return False
        other = [wd for r2 in runs if r2[1] is not words for wd in r2[1]]
        if any(wd in cu[2] for wd in other):
            return False
    return True


def check_vtt_case(acs, cfg, res, printed, stats, history=None):
    rel, fit, w, h = cfg
    cs = build_with_history(acs, history)
    out = impl.call(lambda: WebVTTWriter(relativize=rel, fit_to_screen=fit, video_width=w, video_height=h).write(cs))
    res["evaluations"] += 1
    lg = acs["langs"][0]
    rs = oracle_batch([(1308, [posgen.w_cfg(cfg), posgen.w_optlayout(lg["layout"]), posgen.w_ncap(c)]) for c in lg["caps"]])
    ms = [r_result(r) for r in rs]
    base = {"replay": "vtt", "cfg": list(cfg), "input": acs}
    if history:
        base["history"] = [[f, list(c)] for f, c in history]
    if isinstance(out, Err) or any(isinstance(x, Err) for x in ms):
        stats["refused"] += 1          # refusal / error class is C13's business: counted
        return
    cues = vtt_cues(out.v)
    # ---- property first: cues of a caption = cues carrying its timing line
    want_t = [timing_of(k) for k in range(len(lg["caps"]))]
    timings = []
    for cu in cues:
        if cu[0] not in timings:
            timings.append(cu[0])
    if timings != want_t:
        res["violations"].append(dict(base, kind="vtt-cue-times", impl_obs=repr(timings),
                                      what=f"timing lines {timings!r}: not one distinct timing {want_t!r} per caption, in order"))
        return
    by_time = {t: [cu for cu in cues if cu[0] == t] for t in timings}
    settings_todo = []
    for ci, (c, t) in enumerate(zip(lg["caps"], timings)):
        mine = by_time[t]
        levels = posgen.node_levels(c["nodes"])
        texts = [i for i, n in enumerate(c["nodes"]) if n[0] == "text"]
        if any(levels[i] is None for i in texts) and not all(levels[i] is None for i in texts):
            stats["mixed"] += 1    # some (not all) text nodes have no node-level layout: the statement leaves open how they group
            continue
        # (no text node has a node-level layout: one cue, positioned by the caption's, else the language's layout)
        # a text node whose own layout_info disagrees with the layout of the STYLE span it sits in (own layout absent: node
        # level = the span's; or another layout: node level = its own): WebVTTWriter groups by the layout_info of TEXT nodes
        # and of STYLE START nodes separately, so the span's start node opens a cue of its own that holds only the opening
        # tag.  Known finding C12-vtt-span-layout-ignored - assigned only when the output is exactly what that behaviour
        # gives (= the model's cues for this caption)
        span_derived = any(levels[i] != i for i in texts) or span_conflict(c["nodes"])
        as_model = len(mine) == len(ms[ci].v) and all(same_out(mo, cu[1], printed) for mo, cu in zip(ms[ci].v, mine))
        runs = spec_runs(c["nodes"])
        if len(runs) > 1:
            stats["split"] += 1
            res["nontrivial"].add(("vtt-split", repr(c), rel, fit))
        if not runs_match(runs, mine):
            if span_derived and as_model:
                res["violations"].append(dict(base, kind="vtt-cue-splitting-span-layout", shape="span-layout", impl_obs=repr(mine),
                                              what=f"a text node inside a style span that carries another layout than the text node's own "
                                                   f"layout_info (absent, or different): {len(mine)} cue(s) "
                                                   f"{[(cu[1], cu[2]) for cu in mine]!r} for {len(runs)} run(s) of node-level layouts"))
                stats["span"] += 1
                continue
            res["violations"].append(dict(base, kind="vtt-cue-splitting", impl_obs=repr(mine),
                                          what=f"caption with text-node layouts in {len(runs)} runs was written as "
                                               f"{len(mine)} cue(s) {[(cu[0], cu[2]) for cu in mine]!r}: not one cue per run of "
                                               f"equal layouts with the same times"))
            return
        # per-cue settings against the property oracle (1310), for runs whose layout resolves to percentages with an origin
        for (lay, words), cu in zip(runs, mine):
            eff = first_truthy_layout(lay, c["layout"], lg["layout"])
            if eff is not None:
                settings_todo.append((posgen.tup(eff), cu, span_derived and as_model))
    oq_ = oq
    trans = oracle_batch([(1302, [rel, fit, oq_(w), oq_(h), geom.a_layout_w(geom.float_layout(l))]) for l, _, _ in settings_todo])
    ok_reqs, ok_cues = [], []
    for (l, cu, known), t in zip(settings_todo, trans):
        tl = r_result(t, geom.r_layout)
        if l[4] or isinstance(tl, Err) or tl.v[0] is None or not all(x[1] == 2 for part in tl.v[:3] if part for x in part):
            continue
        if not rel and not all(x[1] == 2 for part in l[:3] if part for x in part if x is not None):
            continue
        try:
            ws = settings_wire(parse_settings(cu[1]))
        except (ValueError, TypeError):
            res["violations"].append(dict(base, kind="vtt-settings-malformed", impl_obs=cu[1],
                                          what=f"cue settings {cu[1]!r}: not align/position/line/size as percentages"))
            return
        ok_reqs.append((1310, [geom.a_layout_w(tl.v), ws]))
        ok_cues.append((l, cu, known))
    for (l, cu, known), ok in zip(ok_cues, oracle_batch(ok_reqs)):
        stats["cue_settings"] += 1
        if ok != 1:
            if known:
                res["violations"].append(dict(base, kind="vtt-cue-splitting-span-layout", shape="span-layout", impl_obs=cu[1],
                                              what=f"the cue {cu[2]!r} of a text node whose layout comes from its enclosing style span "
                                                   f"carries the settings {cu[1]!r} of another level"))
                stats["span"] += 1
                continue
            res["violations"].append(dict(base, kind="vtt-settings-arithmetic", impl_obs=cu[1],
                                          what=f"cue {cu[2]!r} of a caption written with settings {cu[1]!r} for layout {l!r}: not align "
                                               f"(omitted iff center) / position = x + left padding / line = y + top padding / size = width "
                                               f"- left - right padding"))
            return
    # ---- correspondence with the model (captions whose grouping the statement leaves open are not tied)
    k = 0
    for c, m in zip(lg["caps"], ms):
        mine = cues[k:k + len(m.v)]
        k += len(m.v)
        levels = posgen.node_levels(c["nodes"])
        tl_ = [levels[i] is None for i, n in enumerate(c["nodes"]) if n[0] == "text"]
        if any(tl_) and not all(tl_):
            k = None
            break
        if len(mine) != len(m.v) or not all(same_out(mo, cu[1], printed) for mo, cu in zip(m.v, mine)):
            res["disagreements"].append(dict(base, stream="vtt", impl=repr(mine), model=repr(m.v)[:400]))
            return
    if k is not None and k != len(cues):
        res["disagreements"].append(dict(base, stream="vtt", impl=repr(cues)[:300], model="cue count %d" % k))


def check_verbatim(doc, chosen, cfg, res, history=None):
    """a WebVTT document read, (written by other writers first: history,) and written to WebVTT: cue settings verbatim"""
    rel, fit, w, h = cfg
    cs = impl.call(lambda: WebVTTReader().read(doc))
    base = {"replay": "verbatim", "input": doc, "cfg": [rel, fit, w, h]}
    if not history and isinstance(cs, Ok):
        # wave 7: the reader's side of the clause inside the model (model/VttSettings.v, request 1213): what the reader keeps of
        # every timing line = the model's group 3, and the model's re-reading of the line the writer prints for it
        tls = [l for l in doc.split("\n") if "-->" in l]
        kept = [None if c.layout_info is None else c.layout_info.webvtt_positioning
                for c in cs.v.get_captions(cs.v.get_languages()[0])]
        ms = oracle_batch([(1213, l) for l in tls])
        mk = [None if m[0] != 2 else m[1] for m in ms]
        READER[0] += len(tls)
        if any(m[0] == 0 for m in ms) or mk != kept:
            res["disagreements"].append(dict(base, stream="vtt-reader-settings", impl=repr(kept)[:300], model=repr(mk)[:300]))
        if any(m[0] == 2 and m[2] != m[1] for m in ms):
            res["disagreements"].append(dict(base, stream="vtt-reader-settings-reread", impl="-", model=repr(ms)[:300]))
    if history:
        base["history"] = [[f, list(c)] for f, c in history]
    res["evaluations"] += 1
    r = cs if isinstance(cs, Err) else impl.call(
        lambda: WebVTTWriter(relativize=rel, fit_to_screen=fit, video_width=w, video_height=h).write(
            build_with_history(None, history, cs=cs.v)))
    if isinstance(r, Err):
        res["violations"].append(dict(base, kind="vtt-verbatim-raises", impl_obs=repr(r),
                                      what=f"WebVTT read+write of a document with cue settings raised {r!r}"))
        return
    got = [cu[1] for cu in vtt_cues(r.v)]
    want = [(" " + st) if st else "" for st in chosen]
    if not history:
        # audit w7: the model of the READER (1213) on the timing lines the REAL writer printed: it must keep the settings read
        # from the input document
        wl = [l for l in r.v.split("\n") if "-->" in l]
        back = [None if m[0] != 2 else m[1] for m in oracle_batch([(1213, l) for l in wl])]
        if back != [st if st else None for st in chosen]:
            res["disagreements"].append(dict(base, stream="vtt-reader-model-on-written-lines", impl=repr(wl)[:300], model=repr(back)[:300]))
    if got != want:
        res["violations"].append(dict(base, kind="vtt-verbatim", impl_obs=repr(got),
                                      what=f"cue settings {chosen!r} read from a WebVTT file were written back as {got!r}"
                                           + (f" after the same CaptionSet object was written by {history!r}" if history else "")))


SETTINGS = ["align:left", "position:10%,start line:5% size:50%", "line:-1", "vertical:rl align:end", "line:0 position:0%",
            "size:35% align:right", "position:12.5%", "foo:bar", "align:center", "line:5%,end", "region:r1", "a:b  c:d",
            "Align:LEFT", "position:10%,START size:50%", "X-Custom:Value", "align:middle\tline:1"]


def verbatim_doc(rng):
    k = rng.randint(1, 4)
    chosen = [rng.choice(SETTINGS + [""]) for _ in range(k)]
    doc = "WEBVTT\n\n"
    for j, st in enumerate(chosen):
        sep = rng.choice([" ", " ", "  ", "\t"]) if st else ""
        tail = rng.choice(["", "", " "]) if st else ""
        doc += f"00:00:{2 * j:02d}.000 --> 00:00:{2 * j + 1:02d}.500{sep}{st}{tail}\nword{j} text\n\n"
    return doc, chosen


def stream_vtt(ctx, res, printed):
    rng = ctx.rng
    stats = {"split": 0, "mixed": 0, "refused": 0, "span": 0, "cue_settings": 0}
    # deterministic shapes of the known finding C12-vtt-span-layout-ignored: the text inside a span with layout S has no
    # layout of its own / has the caption's layout C; and the shape the statement holds on (the text carries S)
    S, C = posgen.PCT_LAYOUTS["S"], posgen.PCT_LAYOUTS["C"]
    for inner in (None, C, S):
        acs = {"global": None, "langs": [{"name": "en-US", "layout": None, "caps": [{"layout": C, "nodes": [
            ["text", "aa0", C], ["break", None], ["style", True, S], ["text", "bb1", inner], ["style", False, S]]}]}]}
        check_vtt_case(acs, (False, False, None, None), res, printed, stats)
    # exhaustive small grid around a span: layout of the text before x of the span x of the text inside x of the text after,
    # styled / unstyled span, with / without a break before it (captions with some, not all, node-level layouts stay open)
    for first in (None, C, S):
        for span in (None, C, S):
            for inner in (None, C, S):
                for after in (None, C, S, False):
                    for kind in ("style", "ustyle"):
                        for brk in (True, False):
                            nodes = [["text", "aa0", first]] + ([["break", None]] if brk else []) + \
                                [[kind, True, span], ["text", "bb1", inner], [kind, False, span]]
                            if after is not False:
                                nodes += [["break", None], ["text", "cc2", after]]
                            acs = {"global": None, "langs": [{"name": "en-US", "layout": posgen.PCT_LAYOUTS["L"],
                                                              "caps": [{"layout": None, "nodes": nodes}]}]}
                            check_vtt_case(acs, (False, False, None, None), res, printed, stats)
    for i in range(ctx.n(350, 10000)):
        rel = rng.random() < 0.6
        fit = rng.random() < 0.3
        w, h = rng.choice(DIMS)
        units = (2,) if rng.random() < 0.7 or not rel else (0, 2)
        pool = [posgen.gen_layout(rng, units, p_none=0.25) for _ in range(3)]
        acs = posgen.gen_capset(rng, units, nlangs=(1, 1), ncaps=(1, 3), levels=("lang", "cap", "node"), pool=pool,
                                bare_text_layouts=True, span_layouts=(i % 2 == 0), break_layouts=True,
                                span_text_none=(i % 4 == 0))
        check_vtt_case(acs, (rel, fit, w, h), res, printed, stats)
    n_split, excluded_mixed = stats["split"], stats["mixed"]
    res["distribution"]["vtt_captions_split_into_several_cues"] = n_split
    res["distribution"]["vtt_captions_with_some_text_node_without_layout(excluded from the splitting oracle and from the model tie)"] = excluded_mixed
    res["distribution"]["vtt_documents_refused_or_raising(C13: counted)"] = stats["refused"]
    res["distribution"]["vtt_end_to_end_cues_judged_by_the_settings_oracle"] = stats["cue_settings"]
    res["distribution"]["vtt_captions_with_a_span_layout_not_split(known finding)"] = stats["span"]
    # verbatim cue settings
    nver = 0
    for i in range(ctx.n(250, 5000)):
        doc, chosen = verbatim_doc(rng)
        rel, fit = rng.random() < 0.5, rng.random() < 0.5
        w, h = rng.choice(DIMS)
        if any(chosen):
            nver += 1
            res["nontrivial"].add(("verbatim", doc))
        check_verbatim(doc, chosen, (rel, fit, w, h), res)
    res["distribution"]["vtt_verbatim_documents"] = nver


# ------------------------------------------------------------------------------------------------ C
def word_layouts(cs):
    """after reading: word -> effective layout (node, else caption, else language), as a wire option"""
    out = {}
    for lang in cs.get_languages():
        ll = cs.get_layout_info(lang)
        for c in cs.get_captions(lang):
            for n in c.nodes:
                if n.type_ == 1:
                    eff = n.layout_info or c.layout_info or ll
                    out[n.content.strip()] = None if eff is None else Some(geom.w_layout(eff))
    return out


def near(rng, l):
    """a layout differing from l in one value by a little (region-table collisions)"""
    l = list(posgen.tup(l))
    parts = [i for i in range(3) if l[i] is not None]
    if not parts:
        return tuple(l)
    i = rng.choice(parts)
    sizes = list(l[i])
    j = rng.randrange(len(sizes))
    if sizes[j] is None:
        sizes[j] = (0.01, 2)
    else:
        sizes[j] = (sizes[j][0] + rng.choice([0.01, 0.004, 1, 0.5]), sizes[j][1])
    l[i] = tuple(sizes)
    return tuple(l)


def check_dfxp_case(acs, cfg, res, history=None):
    """returns an outcome tag"""
    rel, fit, w, h = cfg
    cs = build_with_history(acs, history)
    written = [None]

    def write_read():
        written[0] = DFXPWriter(relativize=rel, fit_to_screen=fit, video_width=w, video_height=h).write(cs)
        return DFXPReader().read(written[0])
    r = impl.call(write_read)
    res["evaluations"] += 1
    base = {"replay": "dfxp", "cfg": list(cfg), "input": acs}
    if history:
        base["history"] = [[f, list(c)] for f, c in history]
    m = r_result(oracle_batch([(1306, [posgen.w_cfg(cfg), posgen.w_nset(acs)])])[0])
    if isinstance(r, Err) or isinstance(m, Err):
        if isinstance(r, Err) and isinstance(m, Err) and r.code == m.code:
            return "refused"
        if isinstance(r, Err) and not isinstance(m, Err):
            res["violations"].append(dict(base, kind="dfxp-roundtrip-raises", impl_obs=repr(r),
                                          what=f"DFXP write+read raised {r!r} ({impl.last_exc!r})"))
            return "viol"
        res["disagreements"].append(dict(base, stream="dfxp", impl=repr(r)[:200], model=repr(m)[:200]))
        return "dis"
    observed = word_layouts(r.v)
    g, langs = m.v               # transformed layouts, wire form
    ids = posgen.word_ids(acs)
    words = {v: k for k, v in ids.items()}
    # the tree model: region table, region attributes on div/p/span, nearest-ancestor resolution on read (1210)
    dset = posgen.w_dset(acs, m.v, ids)
    tm, wm = oracle_batch([(1210, [g, dset]), (1211, [g, dset])])
    tm = r_result(tm)
    doc_dis = check_written_document(written[0], wm, words, base, res)
    model_words = {}
    if isinstance(tm, Ok):
        for rl in tm.v:
            for rc in rl[1]:
                for wid, lay in rc[1]:
                    model_words[words[wid]] = geom.r_layout(lay)
    reqs_ok, meta = [], []
    for lg, (ll, caps) in zip(acs["langs"], langs):
        for c, (cl, nodes) in zip(lg["caps"], caps):
            levels = posgen.node_levels(c["nodes"])
            wspan = posgen.written_span(c["nodes"])
            for i, (n, (kind, nl)) in enumerate(zip(c["nodes"], nodes)):
                if n[0] != "text":
                    continue
                # node level (statement): the text node's own layout, else the nearest enclosing span's
                src = levels[i]
                node_l = [] if src is None else nodes[src][1]
                shape = None
                ws = wspan[i]
                if src is not None:
                    # the element the writer puts the word in: the open <span> (if it carries a layout), else the <p>
                    carrier = c["nodes"][ws][-1] if ws is not None and posgen.has_parts(c["nodes"][ws][-1]) else c["layout"]
                    if geo(c["nodes"][src][-1]) != geo(carrier):
                        # DESIGN section 8 #19 (no <span> around the text) / nested or unclosed spans flattened by the writer
                        shape = "bare-text" if ws is None else "flattened-span"
                o = observed.get(n[1], "missing")
                if o == "missing":
                    res["violations"].append(dict(base, kind="dfxp-word-lost", impl_obs=sorted(observed),
                                                  what=f"the word {n[1]!r} is not a text node after DFXP write+read"))
                    return "viol"
                set_fallback = wire_truthy(g) and not any(wire_truthy(x) for x in (node_l, cl, ll))
                reqs_ok.append((1201, [ll, cl, node_l, o]))
                meta.append((n[1], shape, o, set_fallback))
    oks = oracle_batch(reqs_ok)
    bad = None
    for (word, shape, o, set_fallback), ok in zip(meta, oks):
        if set_fallback:
            # node, caption and language level are empty and a set-level layout exists: not one of the statement's levels
            # (get_positioning_info uses it only when an equal layout has a region) - model tie only
            SET_FALLBACK[0] += 1
            ok = 1
        mw = model_words.get(word)
        opl = None if o is None else geom.r_layout_plain(o.v)
        if shape is not None and not (mw is not None and opl is not None
                                      and close_layout(mw, opl, Fraction(1, 100) + Fraction(1, 10**9))):
            # the recorded failure is "the text's node-level layout is not written: the word takes the layout of the element
            # the writer puts it in" (= what the tree model computes); any other outcome on such a word is reported as itself
            shape = None
        if ok != 1:
            this = dict(base, kind="dfxp-effective-layout" + ("" if shape is None else "-" + shape), shape=shape, word=word,
                        impl_obs=repr(o.v if o is not None else None)[:400],
                        what=f"after DFXP write+read (relativize={rel}, fit={fit}) the word {word!r} does not have the "
                             f"effective layout of its node/caption/language level"
                             + ("" if shape is None else " (its node-level layout is not carried by the <span> the writer puts "
                                                         "it in: %s)" % shape))
            if shape is None:
                bad = this
                break
            bad = bad or this
        mm = model_words.get(word)
        op = None if o is None else geom.r_layout_plain(o.v)
        if ok == 1 and mm is not None and op is not None and not close_layout(mm, op) \
                and close_layout(mm, op, Fraction(1, 100) + Fraction(1, 10**9)):
            # binary64 result on the other side of a rounding tie: both prints are within 1/200 of the exact value
            NEAR_TIES[0] += 1
            continue
        if mm is None or op is None or not close_layout(mm, op):
            res["disagreements"].append(dict(base, stream="dfxp", word=word, impl=repr(op)[:300], model=repr(mm)[:300]))
            if bad is None or bad.get("shape"):
                return "dis"
    if bad:
        res["violations"].append(bad)
        return "known-shape" if bad.get("shape") else "viol"
    if doc_dis:
        res["disagreements"].append(doc_dis)
        return "dis"
    return "ok"


DOCS = {}


def check_written_document(doc, wm, words, base, res):
    """wave 7: the document as written against the model's document (request 1211 = write_doc_clean: region table, region
    attributes on div / p / span, cleanup_regions).  Returns a disagreement record (the region a WORD sits in, read off the
    document by lxml - own region attribute of the innermost element, else the nearest ancestor's - has other attributes
    than in the model's document, or names no region) or None; whole-document differences that leave every word in the same
    region (placement of redundant attributes, unreferenced regions, ids) are counted only."""
    def count(k):
        DOCS[k] = DOCS.get(k, 0) + 1
    if doc is None or wm == [-1]:
        count("not_compared(no document / model request malformed)")
        return None
    real = dfxpdoc7.parse_written(doc, list(words.values()))
    if real is None:
        count("not_compared(document is not well-formed XML: unbalanced style nodes)")
        return None
    mr, md, created = dfxpdoc7.model_doc(wm, words)
    count("documents_compared")
    if created > len(mr):
        count("documents_in_which_cleanup_regions_removed_a_region(model)")
    DOCS["regions_in_compared_documents"] = DOCS.get("regions_in_compared_documents", 0) + len(mr)
    rw, mw = dfxpdoc7.word_regions(*real), dfxpdoc7.word_regions(mr, md)
    for wd in mw:
        s = dfxpdoc7.same_attrs(rw.get(wd), mw[wd])
        if s == "tie":
            count("word_regions_printed_on_the_other_side_of_a_rounding_tie")
        elif s == "diff":
            return dict(base, stream="dfxp-document", word=wd, impl=repr(rw.get(wd, "word not found"))[:300], model=repr(mw[wd])[:300])
    count("words_whose_region_in_the_document_is_the_model's")
    DOCS["words_whose_region_in_the_document_is_the_model's"] += len(mw) - 1
    whole = dfxpdoc7.same_document(real, (mr, md), DFXP_DEFAULT_REGION_ID)
    count("whole_document_identical_up_to_region_renaming" if whole in ("same", "tie")
          else "whole_document_differs(information: %s)" % whole)
    return None


def stream_dfxp(ctx, res):
    rng = ctx.rng
    outcomes = {}
    level_sets = [("lang",), ("cap",), ("node",), ("lang", "cap"), ("lang", "node"), ("cap", "node"), ("lang", "cap", "node"), ()]
    for i in range(ctx.n(400, 12000)):
        levels = level_sets[i % len(level_sets)]
        rel = rng.random() < 0.7
        fit = rng.random() < 0.35
        w, h = rng.choice(DIMS[:2])
        absolute = rng.random() < 0.2          # with relativize off the absolute units are written as they are
        units = (0, 2) if absolute else (2,)
        pool = [posgen.gen_layout(rng, units, p_none=0.3) for _ in range(2)]
        pool.append(near(rng, pool[0]))
        bare = (i % 5 == 0)
        acs = posgen.gen_capset(rng, units, nlangs=(1, 2), ncaps=(1, 3), levels=levels, pool=pool, p_level=0.7,
                                bare_text_layouts=bare, break_layouts=(i % 3 == 0), span_text_none=(i % 4 == 1),
                                unbalanced=(i % 7 == 3), with_global=(i % 6 == 2))
        key = check_dfxp_case(acs, (rel, fit, w, h), res)
        if key == "ok" and levels:
            res["nontrivial"].add(("dfxp", repr(acs), rel, fit))
        outcomes[key] = outcomes.get(key, 0) + 1
    # exhaustive grid: language x caption x span-with/without-own-layout x nesting depth (seeded reader bug C12_c shape)
    grid = posgen.span_grid()
    gout = {}
    ngrid = 0
    for gi, acs in enumerate(grid):
        for cfg in ((False, False, None, None), (True, True, 640, 360))[:2 if gi % 3 == 0 else 1]:
            key = check_dfxp_case(acs, cfg, res)
            ngrid += 1
            gout[key] = gout.get(key, 0) + 1
            if key == "ok":
                res["nontrivial"].add(("dfxp-grid", repr(acs), cfg))
    res["distribution"]["dfxp_span_grid_sets"] = len(grid)
    res["distribution"]["dfxp_span_grid_cases"] = ngrid
    res["distribution"]["dfxp_span_grid_outcomes"] = gout
    extra = {}
    for name, sets in (("alignment_pairs(6x4 x 3 levels x with/without origin)", posgen.alignment_grid()),
                       ("padding_omitted_parts(16 masks x 2 levels)", posgen.padding_grid()),
                       ("fourteen_layouts(r0..r13)", [posgen.many_layouts()]),
                       ("set_level_layout(alone / equal to a layout with a region / under a language layout)", posgen.set_level_cases())):
        o = {}
        for acs in sets:
            key = check_dfxp_case(acs, (False, False, None, None), res)
            o[key] = o.get(key, 0) + 1
        extra[name] = o
    res["distribution"]["dfxp_exhaustive_grids"] = extra
    res["distribution"]["dfxp_words_whose_only_layout_is_the_set_level_one(model tie only)"] = SET_FALLBACK[0]
    res["distribution"]["dfxp_outcomes"] = outcomes
    res["distribution"]["dfxp_values_printed_on_the_other_side_of_a_rounding_tie(model vs binary64; both within 1/200)"] = NEAR_TIES[0]
    res["distribution"]["dfxp_level_subsets"] = [list(x) for x in level_sets]


# ------------------------------------------------------------------------------------------------ D
DEFAULT_CFG = (True, True, None, None)     # DFXPWriter() / WebVTTWriter(): relativize and fit_to_screen on, no video size


def stream_history(ctx, res, printed):
    """two writes of ONE CaptionSet object: a writer must not change the caller's layouts, so the second document is judged
    by the same oracles, for its own options, as if the set had never been written (the first document, written from a
    fresh object, is what the other streams judge)"""
    rng = ctx.rng
    out = {}
    stats = {"split": 0, "mixed": 0, "refused": 0, "span": 0, "cue_settings": 0}

    def count(k):
        out[k] = out.get(k, 0) + 1
    # deterministic: origin without an extent (fitting in place would invent one: WebVTT gains size:80%, the second DFXP
    # round trip returns an extent never set), at language / caption / span level
    O = (((10, 2), (10, 2)), None, None, None, None)
    O2 = (((25, 2), (40, 2)), None, ((1, 2), (2, 2), (3, 2), (4, 2)), (2, 0), None)
    det = []
    for ll, cl, nl in ((O, None, None), (None, O, None), (None, None, O), (O, O2, None), (None, O2, O), (O2, None, O)):
        nodes = [["text", "aa0", None], ["break", None]] + \
            ([["style", True, nl], ["text", "bb1", nl], ["style", False, nl]] if nl else [["text", "bb1", None]])
        det.append({"global": None, "langs": [{"name": "en-US", "layout": ll, "caps": [{"layout": cl, "nodes": nodes}]}]})
    firsts = [("dfxp", DEFAULT_CFG), ("vtt", DEFAULT_CFG), ("dfxp", (True, True, 640, 360)), ("vtt", (True, False, 640, 360))]
    for acs in det:
        for first in firsts:
            for cfg in ((False, False, None, None), (True, False, None, None), (True, True, 640, 360)):
                count(first[0] + ">dfxp:" + check_dfxp_case(acs, cfg, res, history=[first]))
                n0 = len(res["violations"]) + len(res["disagreements"])
                check_vtt_case(acs, cfg, res, printed, stats, history=[first])
                count(first[0] + ">vtt:" + ("ok" if len(res["violations"]) + len(res["disagreements"]) == n0 else "reported"))
    # random caption sets (the generators of streams B and C), first write by a default DFXPWriter / WebVTTWriter (or one
    # with a video size, for absolute units), second write with other options
    for i in range(ctx.n(160, 4000)):
        absolute = rng.random() < 0.25
        units = (0, 2) if absolute else (2,)
        first = (rng.choice(["dfxp", "dfxp", "vtt"]), (True, rng.random() < 0.8, 640, 360) if absolute or rng.random() < 0.3 else DEFAULT_CFG)
        rel = rng.random() < 0.6 or absolute
        fit = rng.random() < 0.3
        w, h = rng.choice(DIMS[:2])
        pool = [posgen.gen_layout(rng, units, p_none=0.3) for _ in range(3)]
        acs = posgen.gen_capset(rng, units, nlangs=(1, 2), ncaps=(1, 3), levels=("lang", "cap", "node"), pool=pool, p_level=0.6,
                                bare_text_layouts=(i % 5 == 0), break_layouts=(i % 3 == 0), with_global=(i % 6 == 2))
        if i % 2 == 0:
            key = check_dfxp_case(acs, (rel, fit, w, h), res, history=[first])
            count(first[0] + ">dfxp:" + key)
            if key == "ok":
                res["nontrivial"].add(("history-dfxp", repr(acs), repr(first), rel, fit))
        else:
            acs["langs"] = acs["langs"][:1]
            n0 = len(res["violations"]) + len(res["disagreements"])
            check_vtt_case(acs, (rel, fit, w, h), res, printed, stats, history=[first])
            ok = len(res["violations"]) + len(res["disagreements"]) == n0
            count(first[0] + ">vtt:" + ("ok" if ok else "reported"))
            if ok:
                res["nontrivial"].add(("history-vtt", repr(acs), repr(first), rel, fit))
    # a WebVTT-read set written by a DFXP / WebVTT writer first, then to WebVTT: the cue settings are still written verbatim
    for i in range(ctx.n(120, 3000)):
        doc, chosen = verbatim_doc(rng)
        first = [(rng.choice(["dfxp", "vtt"]), rng.choice([DEFAULT_CFG, (True, True, 640, 360), (True, False, 640, 360)]))]
        if i % 4 == 0:
            first.append(("dfxp", DEFAULT_CFG))
        rel, fit = rng.random() < 0.5, rng.random() < 0.5
        w, h = rng.choice(DIMS)
        n0 = len(res["violations"])
        check_verbatim(doc, chosen, (rel, fit, w, h), res, history=first)
        count("vtt-read>" + first[0][0] + ">vtt:" + ("ok" if len(res["violations"]) == n0 else "reported"))
        if any(chosen):
            res["nontrivial"].add(("history-verbatim", doc, repr(first)))
    res["distribution"]["history(two writes of one CaptionSet object; the second document judged for its own options)"] = out


# ------------------------------------------------------------------------------------------------ E
def run_sequence(fmt, cfg, seq, same_writer):
    """seq: [(acs, lang or None)] written one after the other - by ONE writer object, or by a fresh writer per write"""
    rel, fit, w, h = cfg
    W = DFXPWriter if fmt == "dfxp" else WebVTTWriter
    mk = lambda: W(relativize=rel, fit_to_screen=fit, video_width=w, video_height=h)  # noqa: E731
    writer = mk() if same_writer else None
    outs = []
    for acs, lang in seq:
        wr = writer if same_writer else mk()
        cs = posgen.build(acs)
        if lang is None:
            outs.append(impl.call(lambda: wr.write(cs)))
        elif fmt == "dfxp":
            outs.append(impl.call(lambda: wr.write(cs, force=lang)))
        else:
            outs.append(impl.call(lambda: wr.write(cs, lang=lang)))
    return outs


def observe_document(fmt, out):
    """what the statement fixes of a written document: WebVTT - every timing line with its cue settings; DFXP - the
    effective layout of every word after reading the document back"""
    if isinstance(out, Err):
        return ("raised", out.code)
    if fmt == "vtt":
        return ("vtt", [(t, s) for t, s, _ in vtt_cues(out.v)])
    r = impl.call(lambda: DFXPReader().read(out.v))
    if isinstance(r, Err):
        return ("unreadable", r.code)
    return ("dfxp", sorted((k, None if v is None else repr(geom.r_layout_plain(v.v))) for k, v in word_layouts(r.v).items()))


def check_same_writer(fmt, cfg, seq, res):
    """the i-th document written by a reused writer object must position its cues / words exactly as a fresh writer does for
    the same set (whose output the other streams judge for that set's own layouts)"""
    reused = run_sequence(fmt, cfg, seq, True)
    fresh = run_sequence(fmt, cfg, seq, False)
    res["evaluations"] += len(seq)
    for i, (a, b) in enumerate(zip(reused, fresh)):
        oa, ob = observe_document(fmt, a), observe_document(fmt, b)
        if oa != ob:
            res["violations"].append({
                "kind": "writer-object-history", "replay": "same-writer", "fmt": fmt, "cfg": list(cfg),
                "input": [[acs, lang] for acs, lang in seq], "index": i, "impl_obs": repr(oa)[:500],
                "what": f"write number {i + 1} of one {fmt} writer object (relativize={cfg[0]}, fit={cfg[1]}, video {cfg[2]}x{cfg[3]}) "
                        f"positions its document differently from a fresh writer on the same caption set: {repr(oa)[:200]} "
                        f"instead of {repr(ob)[:200]}"})
            return "viol"
    return "ok"


def one_lang(name, ll, cl, nl, word):
    nodes = [["text", word + "a", None], ["break", None]] + \
        ([["style", True, nl], ["text", word + "b", nl], ["style", False, nl]] if nl else [["text", word + "b", None]])
    return {"name": name, "layout": ll, "caps": [{"layout": cl, "nodes": nodes}, {"layout": None, "nodes": [["text", word + "c", None]]}]}


def stream_same_writer(ctx, res, printed):
    """sequences of 2-3 writes on ONE writer object: a set positioned at language / caption / node level, then a set without
    any layout (as read from SRT), then a set with another layout; a two-language set written for its first language and
    then with lang= / force= for the second (and the other way round)"""
    rng = ctx.rng
    L, C, S = posgen.PCT_LAYOUTS["L"], posgen.PCT_LAYOUTS["C"], posgen.PCT_LAYOUTS["S2"]
    mk = lambda *langs: {"global": None, "langs": list(langs)}  # noqa: E731
    A = mk(one_lang("en-US", L, None, None, "la"))          # language-level layout only (a DFXP <div region>)
    N = mk(one_lang("en-US", None, None, None, "no"))       # no layout at all (SRT)
    B = mk(one_lang("en-US", C, None, None, "lb"))
    Ac = mk(one_lang("en-US", None, C, None, "ca"))
    An = mk(one_lang("en-US", None, None, S, "na"))
    T = mk(one_lang("en-US", L, None, None, "te"), one_lang("fr", None, None, None, "tf"))
    T2 = mk(one_lang("en-US", None, None, None, "ue"), one_lang("fr", C, None, None, "uf"))
    seqs = [[(A, None), (N, None)], [(N, None), (A, None)], [(A, None), (N, None), (B, None)], [(B, None), (A, None)],
            [(Ac, None), (N, None)], [(An, None), (N, None)], [(A, None), (Ac, None), (N, None)],
            [(T, None), (T, "fr")], [(T, "fr"), (T, None)], [(A, None), (T, "fr")], [(T2, "fr"), (T2, None)], [(T2, "fr"), (N, None)],
            [(B, None), (T, "fr"), (N, None)]]
    out = {}
    stats = {"split": 0, "mixed": 0, "refused": 0, "span": 0, "cue_settings": 0}
    cfgs = [(False, False, None, None), DEFAULT_CFG, (True, True, 640, 360)]
    for acs in (A, N, B, Ac, An):
        # the fresh-writer documents of these sets are judged by the usual oracles
        check_vtt_case(acs, DEFAULT_CFG, res, printed, stats)
        check_dfxp_case(acs, DEFAULT_CFG, res)
    for seq in seqs:
        for fmt in ("vtt", "dfxp"):
            for cfg in cfgs:
                k = fmt + ":" + check_same_writer(fmt, cfg, seq, res)
                out[k] = out.get(k, 0) + 1
                res["nontrivial"].add(("same-writer", fmt, repr(seq), cfg))
    for i in range(ctx.n(60, 1500)):
        pool = [posgen.gen_layout(rng, (2,), p_none=0.3) for _ in range(3)]
        seq = []
        for j in range(rng.randint(2, 3)):
            levels = rng.choice([(), ("lang",), ("cap",), ("node",), ("lang", "cap", "node")])
            acs = posgen.gen_capset(rng, (2,), nlangs=(1, 2), ncaps=(1, 2), levels=levels, pool=pool, p_level=0.8)
            lang = acs["langs"][1]["name"] if len(acs["langs"]) > 1 and rng.random() < 0.5 else None
            seq.append((acs, lang))
        fmt = "vtt" if i % 2 == 0 else "dfxp"
        cfg = rng.choice(cfgs)
        k = fmt + ":" + check_same_writer(fmt, cfg, seq, res)
        out[k] = out.get(k, 0) + 1
        res["nontrivial"].add(("same-writer-random", fmt, repr(seq), cfg))
    res["distribution"]["same_writer_object(2-3 writes on one writer object; each document compared with a fresh writer's for the same set)"] = out


# ------------------------------------------------------------------------------------------------ F
ALIGN_DOC = ('<?xml version="1.0" encoding="utf-8"?>\n<tt xml:lang="en" xmlns="http://www.w3.org/ns/ttml" '
             'xmlns:tts="http://www.w3.org/ns/ttml#styling">\n <head><layout><region xml:id="r9" tts:origin="10%% 10%%"%s/></layout></head>\n'
             ' <body><div xml:lang="en-US"><p begin="00:00:01.000" end="00:00:02.000" region="r9">hello</p></div></body>\n</tt>\n')


def stream_alignment_names(ctx, res):
    """wave 7: tts:textAlign / tts:displayAlign at string level (model/DfxpAlign.v, requests 1214 / 1215).
    Reader: a region with every pair of attribute values (the TTML names, absent, empty, unknown, upper case) is read by
    DFXPReader and the caption's alignment compared with read_alignment; on names / absent values the statement's clause
    'absent parts taking the DFXP defaults (start / after)' is the property oracle.  Writer: the names printed in <region>
    for every alignment are the model's written_alignment (and the tables of dfxpdoc7 are the model's names)."""
    tas = [None, "", "left", "start", "center", "right", "end", "justify", "LEFT"]
    das = [None, "", "before", "center", "after", "top"]
    cases = [(ta, da) for ta in tas for da in das]
    ms = oracle_batch([(1214, [None if ta is None else Some(ta), None if da is None else Some(da)]) for ta, da in cases])
    n = 0
    for (ta, da), m in zip(cases, ms):
        att = ("" if ta is None else ' tts:textAlign="%s"' % ta) + ("" if da is None else ' tts:displayAlign="%s"' % da)
        doc = ALIGN_DOC % att
        r = impl.call(lambda: DFXPReader().read(doc))
        res["evaluations"] += 1
        base = {"replay": "align-names", "input": [ta, da]}
        if isinstance(r, Err):
            res["violations"].append(dict(base, kind="dfxp-alignment-names", impl_obs=repr(r),
                                          what=f"DFXPReader raised {r!r} on a region with textAlign={ta!r} displayAlign={da!r}"))
            continue
        lay = r.v.get_captions("en-US")[0].layout_info
        al = None if lay is None or lay.alignment is None else geom.w_alignment(lay.alignment)
        obs = None if al is None else tuple(None if x is None else x.v for x in al)
        mod = None if m == [] else tuple(None if x == [] else x[0] for x in m[0])
        if (ta in HN or ta is None) and (da in dfxpdoc7.VALIGN or da is None):
            # (an EMPTY attribute value is not "absent" by the letter: compared with the model only, like unknown names)
            want = (HN.index(ta) if ta else 3, dfxpdoc7.VALIGN.index(da) if da else 2)
            n += 1
            if obs != want:
                res["violations"].append(dict(base, kind="dfxp-alignment-names", impl_obs=repr(obs),
                                              what=f"a region with textAlign={ta!r} displayAlign={da!r} is read as alignment {obs!r} "
                                                   f"(members by index; expected {want!r}: the named members, absent parts start / after)"))
                continue
            res["nontrivial"].add(("align-names", ta, da))
        if obs != mod:
            res["disagreements"].append(dict(base, stream="align-names", impl=repr(obs), model=repr(mod)))
    # writer: names printed for every alignment
    tabs = None
    nw = 0
    for h in [None, 0, 1, 2, 3, 4]:
        for v in [None, 0, 1, 2]:
            for wrap in ((True, False) if (h, v) == (None, None) else (True,)):
                a = (h, v) if wrap else None
                lay = (((10, 2), (10, 2)), None, None, a, None)
                acs = {"global": None, "langs": [{"name": "en-US", "layout": None,
                                                  "caps": [{"layout": lay, "nodes": [["text", "w0", None]]}]}]}
                out = impl.call(lambda: DFXPWriter().write(posgen.build(acs)))
                m = oracle_batch([(1215, None if a is None else Some(geom.a_align_w(a)))])[0]
                tabs = (m[0], m[1])
                res["evaluations"] += 1
                if isinstance(out, Err):
                    res["disagreements"].append({"stream": "align-names-writer", "input": acs, "impl": repr(out), "model": repr(m)})
                    continue
                parsed = dfxpdoc7.parse_written(out.v, ["w0"])
                regs = [att for rid_, att in parsed[0] if att.get("origin")] if parsed else []
                got = (regs[0].get("textAlign"), regs[0].get("displayAlign")) if regs else "no region"
                want = (None if m[2] == [] else m[2][0], None if m[3] == [] else m[3][0])
                nw += 1
                if got != want:
                    res["disagreements"].append({"stream": "align-names-writer", "input": acs, "impl": repr(got), "model": repr(want)})
    if tabs is not None and (list(tabs[0]) != HN or list(tabs[0]) != dfxpdoc7.HALIGN or list(tabs[1]) != dfxpdoc7.VALIGN):
        res["disagreements"].append({"stream": "align-names-tables", "input": "names", "impl": repr((HN, dfxpdoc7.VALIGN)), "model": repr(tabs)})
    res["distribution"]["alignment_names(reader: attribute value pairs judged / compared with the model; writer: alignments compared)"] = \
        [n, len(cases), nw]


# ------------------------------------------------------------------------------------------------ G
def stream_style_alignment(ctx, res):
    """round 4: caption sets WITH STYLES - a caption style / style class / style node carrying text-align - through
    DFXPWriter -> DFXPReader; the alignment every word comes back with against model/DfxpStyleAlign.v (request 1216:
    _find_attribute for tts:textAlign over the element, its parents and the region).  Property oracle where the statement
    decides: no text-align style in charge, or one that names the layout's own horizontal alignment -> the layout's
    alignment (absent parts start / after); a style that names ANOTHER alignment than the layout is compared with the
    model only (TTML: the element's attribute wins; the statement is about layouts)."""
    from pycaption import CaptionSet, CaptionList, Caption, CaptionNode
    HA, VA = dfxpdoc7.HALIGN, dfxpdoc7.VALIGN

    def lay_of(a, x):
        return None if a == "none" else geom.mk_layout((((x, 2), (x, 2)), None, None, a, None))

    def written(a):
        """(textAlign, displayAlign) strings of the region made from a layout with alignment a (None: no Alignment object)"""
        if a is None:
            return ("start", "after")
        return (None if a[0] is None else HA[a[0]], None if a[1] is None else VA[a[1]])
    src = lambda own, styles=(): [None if own is None else Some(own), [None if v is None else Some(v) for v in styles]]  # noqa: E731
    plain = src(None)
    cases = []
    for cap_al in (None, (0, 0), (2, 1), (1, None)):
        for cap_style in [None] + [("own", n) for n in HA] + [("class", "center"), ("class", "end")]:
            for span in [None] + [(ta, sl) for ta in (None, "right", "end") for sl in ("none", (0, 2))]:
                cases.append((cap_al, cap_style, span))
    reqs, metas = [], []
    stats = {"round_trips": 0, "words_judged_by_the_statement": 0, "words_with_a_style_naming_another_alignment(model tie only)": 0}
    for cap_al, cap_style, span in cases:
        cl = lay_of(cap_al, 10)
        nodes = [CaptionNode.create_text("w0", layout_info=None), CaptionNode.create_break()]
        if span is not None:
            ta, sl = span
            sll = lay_of(sl, 40)
            content = {"italics": True}
            if ta:
                content["text-align"] = ta
            nodes += [CaptionNode.create_style(True, dict(content), layout_info=sll), CaptionNode.create_text("w1", layout_info=sll),
                      CaptionNode.create_style(False, dict(content), layout_info=sll)]
        else:
            nodes.append(CaptionNode.create_text("w1", layout_info=None))
        style, styles = {}, {}
        if cap_style and cap_style[0] == "own":
            style = {"text-align": cap_style[1]}
        elif cap_style:
            style, styles = {"class": "c1"}, {"c1": {"text-align": cap_style[1]}}
        cs = CaptionSet({"en-US": CaptionList([Caption(2000000, 3500000, nodes, style=style, layout_info=cl)])}, styles=styles)
        r = impl.call(lambda: DFXPReader().read(DFXPWriter(relativize=False, fit_to_screen=False).write(cs)))
        res["evaluations"] += 1
        stats["round_trips"] += 1
        inp = [cap_al, cap_style, span]
        if isinstance(r, Err):
            res["violations"].append({"kind": "dfxp-roundtrip-raises", "replay": "style-align", "input": inp, "impl_obs": repr(r),
                                      "what": f"DFXP write+read of a caption with style {style!r} / classes {styles!r} raised {r!r}"})
            continue
        obs = {}
        for n in r.v.get_captions("en-US")[0].nodes:
            if n.type_ == 1:
                al = None if n.layout_info is None or n.layout_info.alignment is None else geom.w_alignment(n.layout_info.alignment)
                obs[n.content.strip()] = None if al is None else tuple(None if x is None else x.v for x in al)
        # sources: <p> (own attribute from the caption style, or the referenced class style; without any set-level style the
        # default style is referenced and carries no text-align), <span> (own attribute from the node content)
        p_src = src(cap_style[1], ()) if cap_style and cap_style[0] == "own" else \
            (src(None, (cap_style[1],)) if cap_style else src(None, (None,)))
        p_region = written(cap_al)
        words = [("w0", p_src, [plain, plain, plain], p_region, cap_style[1] if cap_style else None, cap_al)]
        if span is not None:
            ta, sl = span
            reg = written(None if sl == "none" else sl) if sl != "none" else p_region
            words.append(("w1", src(ta), [p_src, plain, plain, plain], reg, ta or (cap_style[1] if cap_style else None),
                          cap_al if sl == "none" else sl))
        else:
            words.append(("w1", p_src, [plain, plain, plain], p_region, cap_style[1] if cap_style else None, cap_al))
        for wd, el, parents, reg, style_name, region_al in words:
            reqs.append((1216, [Some(el), parents, src(reg[0]), src(reg[1])]))
            metas.append((inp, wd, obs.get(wd, "missing"), style_name, region_al))
    for (inp, wd, o, style_name, region_al), m in zip(metas, oracle_batch(reqs)):
        mod = None if m == [] else tuple(None if x == [] else x[0] for x in m[0])
        lay_h = 3 if region_al is None or region_al[0] is None else region_al[0]
        lay_v = 2 if region_al is None or region_al[1] is None else region_al[1]
        if style_name is None or HA.index(style_name) == lay_h:
            stats["words_judged_by_the_statement"] += 1
            if o != (lay_h, lay_v):
                res["violations"].append({"kind": "dfxp-style-alignment", "replay": "style-align", "input": inp, "word": wd,
                                          "impl_obs": repr(o),
                                          "what": f"caption layout alignment / caption style / span = {inp!r}: the word {wd!r} comes back "
                                                  f"with alignment {o!r} (member indices), its layout says {(lay_h, lay_v)!r} and no "
                                                  f"style says otherwise"})
                continue
            res["nontrivial"].add(("style-align", repr(inp), wd))
        else:
            stats["words_with_a_style_naming_another_alignment(model tie only)"] += 1
        if o != mod:
            res["disagreements"].append({"stream": "style-align", "input": inp, "word": wd, "impl": repr(o), "model": repr(mod)})
    res["distribution"]["style_carried_alignment(caption style / class / span text-align x layout alignment, DFXP round trip vs request 1216)"] = stats


NEAR_TIES = [0]
READER = [0]
SET_FALLBACK = [0]


def wire_truthy(x):
    """decoded wire option layout ([] = None, [[o, e, p, a, w]] with optional parts as [] / [v]): Layout.__bool__"""
    if not x:
        return False
    l = x[0]
    return any(part != [] for part in l[:4]) or (l[4] != [] and bool(l[4][0]))


def close_layout(a, b, tol=Fraction(1, 10**9)):
    for i in range(3):
        if (a[i] is None) != (b[i] is None):
            return False
        if a[i] is not None:
            for sa, sb in zip(a[i], b[i]):
                if sa[1] != sb[1] or abs(sa[0] - sb[0]) > tol:
                    return False
    return a[3] == b[3]


def run(ctx):
    from props.C13 import Printed
    res = {"evaluations": 0, "nontrivial": set(), "violations": [], "disagreements": [], "distribution": {},
           "streams": 7, "notes": []}
    printed = Printed()
    stream_settings(ctx, res, printed)
    stream_vtt(ctx, res, printed)
    stream_dfxp(ctx, res)
    stream_history(ctx, res, printed)
    stream_same_writer(ctx, res, printed)
    stream_alignment_names(ctx, res)
    stream_style_alignment(ctx, res)
    res["distribution"]["vtt_timing_lines_whose_kept_settings_are_the_reader_model's(request 1213)"] = READER[0]
    res["distribution"]["dfxp_written_document_vs_model(request 1211; lxml as an independent observer)"] = dict(DOCS)
    res["rule"] = ("settings: all 6x4 alignment pairs x padding/extent presence on a value grid + random layouts (percent, absolute "
                   "with video sizes, raw settings) x relativize x fit; WebVTT documents: captions with per-node layouts drawn from "
                   "a small pool (runs of equal layouts), verbatim settings documents; DFXP: layouts attached at every subset of "
                   "{language, caption, node} from a pool with a near-equal twin x relativize x fit; HISTORY: the same generators, "
                   "the CaptionSet object written once by a (default) DFXPWriter / WebVTTWriter before the judged write with other "
                   "options (DFXP -> DFXP -> read, DFXP -> WebVTT, WebVTT-read -> DFXP -> WebVTT verbatim). Non-trivial: arithmetic checked / "
                   "caption split into several cues / a settings document / a DFXP case with some layout.")
    res["samples"] = [{"settings": "origin 10% 20% extent 50% 10% padding 1% 2% 3% 4% align right"},
                      {"vtt": "caption [text(L1), break, text(L2)] -> two cues, same times"},
                      {"dfxp": "language origin 10% 10%, caption none, span node origin 50% 50% extent 30% 10%"}]
    res["clauses"] = {
        "theorem": ["WebVTT settings arithmetic (align omitted iff center, position, line, size) for every percentage layout with an origin",
                    "one cue per maximal run of equal text-node layouts on node lists with BREAK / STYLE nodes (C12_vtt_split_by_layout_general)",
                    "tree level: DFXP write then read gives every word of a caption set of words / breaks / non-nested spans its expected effective layout; nearest ancestor wins",
                    "raw cue settings are passed through verbatim by the writer in every configuration",
                    "reader side: the settings kept from a timing line are exactly the text between the white space after the end time and the trailing white space; they survive write -> read",
                    "effective-layout fallback node > caption > language; region table lookup total and faithful (no collision)",
                    "region attributes printed and read back give the two-decimal layout with defaults start / after",
                    "alignment names: what the writer prints for any alignment reads back as the same members, absent ones as start / after (string level)",
                    "region bookkeeping: layouts that need a region share one iff they are equal; table keys pairwise different; ids r0..r(n-1) without gaps",
                    "cleanup_regions leaves the reader's result unchanged for every document; the written document's regions are exactly the referenced ones (no dangling reference, no orphan)"],
        "correspondence_only": ["the DFXP round trip through BeautifulSoup (region resolution on read); the written document (region table after cleanup, region attribute of the element each word sits in) is compared with the model's document (request 1211) through lxml",
                                "the regex engine behind WebVTTReader's timing line (the function it computes is model/VttSettings.v, compared on every verbatim document)",
                                "cue text assembly, timing lines"]}
    return res


def replay(ctx, rec):
    from props.C13 import Printed
    tag = rec.get("replay")
    res = {"evaluations": 0, "nontrivial": set(), "violations": [], "disagreements": [], "distribution": {}}
    if tag == "verbatim":
        rel, fit, w, h = rec["cfg"]
        hist = [(f, tuple(c)) for f, c in rec.get("history") or []]
        r = impl.call(lambda: WebVTTWriter(relativize=rel, fit_to_screen=fit, video_width=w, video_height=h).write(
            build_with_history(None, hist, cs=WebVTTReader().read(rec["input"]))))
        if isinstance(r, Err):
            return True, repr(r)
        got = [cu[1] for cu in vtt_cues(r.v)]
        want = []
        for line in rec["input"].split("\n"):
            m = re.match(r"^\S+\s+-->\s+\S+(?:\s+(.*?))?\s*$", line)
            if m and "-->" in line:
                want.append((" " + m.group(1)) if m.group(1) else "")
        return got != want, got
    if tag == "settings":
        l, rel, fit, w, h = rec["input"]
        l = posgen.tup(l)
        lay = geom.mk_layout(l)
        o = impl.call(lambda: WebVTTWriter(relativize=rel, fit_to_screen=fit, video_width=w, video_height=h)._convert_positioning(lay))
        if isinstance(o, Err):
            return False, repr(o)
        t = r_result(oracle_batch([(1302, [rel, fit, oq(w), oq(h), geom.w_layout(lay)])])[0], geom.r_layout)
        if isinstance(t, Err):
            return False, "not in domain"
        try:
            ws = settings_wire(parse_settings(o.v))
        except (ValueError, TypeError):
            return True, o.v
        return oracle_batch([(1310, [geom.a_layout_w(t.v), ws])])[0] != 1, o.v
    if tag == "align-names":
        ta, da = rec["input"]
        att = ("" if ta is None else ' tts:textAlign="%s"' % ta) + ("" if da is None else ' tts:displayAlign="%s"' % da)
        r = impl.call(lambda: DFXPReader().read(ALIGN_DOC % att))
        if isinstance(r, Err):
            return True, repr(r)
        lay = r.v.get_captions("en-US")[0].layout_info
        al = None if lay is None or lay.alignment is None else geom.w_alignment(lay.alignment)
        obs = None if al is None else tuple(None if x is None else x.v for x in al)
        want = (HN.index(ta) if ta else 3, dfxpdoc7.VALIGN.index(da) if da else 2)
        return obs != want, repr(obs)
    if tag == "same-writer":
        seq = [(a, l) for a, l in rec["input"]]
        check_same_writer(rec["fmt"], tuple(rec["cfg"]), seq, res)
        return bool(res["violations"]), (res["violations"] or [{"what": "ok"}])[0]["what"]
    if tag in ("dfxp", "vtt"):
        hist = [(f, tuple(c)) for f, c in rec.get("history") or []]
        if tag == "dfxp":
            check_dfxp_case(rec["input"], tuple(rec["cfg"]), res, history=hist)
        else:
            check_vtt_case(rec["input"], tuple(rec["cfg"]), res, Printed(),
                           {"split": 0, "mixed": 0, "refused": 0, "span": 0, "cue_settings": 0}, history=hist)
        same = [v for v in res["violations"] if v.get("kind") == rec.get("kind")]
        return bool(same), (same or [{"what": "ok (other kinds seen: %r)" % [v.get("kind") for v in res["violations"]]}])[0]["what"]
    return False, "unknown replay tag"
